/-
Float core of the solver model, written once against `Num` (see `Model/Num.lean`):

* `FI`        — `FloatInterval` (`variables/domain/float_interval.rs`): `new` (step table),
                `with_step`, `next`, `prev`, `contains`, `is_empty`, `is_fixed`, `step_count`,
                `round/floor/ceil_to_step`, `remove_below/above`, `mid`, `assign`, `intersect`.
                `Option` results: `none` = the Rust code panics (`f64::clamp` asserts `min <= max`).
* `FVal`      — `Val` with its mixed `PartialEq` / `PartialOrd`.
* `FCtx`      — `views::Context` over a store of float and integer variables (integer domains as
                duplicate-free lists, cf. `Dom` in `Model/IntCore.lean`; local copy of the few
                integer pieces that are needed) with the event list.
* `FCtx.trySetMin/Max` — all four arms of `Context::try_set_min/max` (`views.rs`).
* `FView`     — the views `Opposite`, `Plus`, `TimesPos` (`Times`, `TimesNeg` by construction),
                `Next`, `Prev` with `Val` offsets / scales, `min_raw/max_raw`, `result_type`,
                `try_set_min/max`.
* `FPK`       — `LessThanOrEquals`, `Eq` at views (`less_than x y = leq (next x) y`),
                `FloatLinEq/Le/Ne` (the `Prune` impls) and the reified versions (which call the
                *helper* functions `prune_float_lin_*`, which differ from the `Prune` impls).

Every comparison is written in the orientation of the Rust source (`a > b` is `gt a b`, never
`!(le a b)`) so that NaN operands behave identically.

Import-free apart from `Model/Num.lean` (linked into `selen_model`).
-/
import SelenModel.Model.Num

namespace Selen
open Num

/-! ### FloatInterval -/

structure FI (α : Type) where
  min : α
  max : α
  step : α

namespace FI
variable {α : Type} [Num α]

/-- the step table of `FloatInterval::new` -/
def stepFor (r : α) : α :=
  if ge r (ofInt 1048576) then r / ofInt 512
  else if ge r (ofInt 16384) then ofInt 32
  else if ge r (ofInt 512) then ofInt 1
  else if ge r (ofInt 16) then ofInt 1 / ofInt 32
  else if ge r (ofInt 1 / ofInt 2) then ofInt 1 / ofInt 1024
  else if ge r (ofInt 1 / ofInt 2048) then tiny20
  else tiny30

/-- `FloatInterval::new` -/
def new (lo hi : α) : FI α :=
  if gt lo hi then { min := hi, max := lo, step := stepFor (lo - hi) }
  else { min := lo, max := hi, step := stepFor (hi - lo) }

/-- `FloatInterval::with_step` -/
def withStep (lo hi step : α) : FI α :=
  if gt lo hi then { min := hi, max := lo, step := step } else { min := lo, max := hi, step := step }

/-- `FloatInterval::next` -/
def next (iv : FI α) (v : α) : α :=
  if lt iv.step (ulp v) then
    let n := nextFloat v
    if gt n iv.max then iv.max else n
  else
    let n := v + iv.step
    if gt n iv.max then iv.max else n

/-- `FloatInterval::prev` -/
def prev (iv : FI α) (v : α) : α :=
  if lt iv.step (ulp v) then
    let p := prevFloat v
    if lt p iv.min then iv.min else p
  else
    let p := v - iv.step
    if lt p iv.min then iv.min else p

def contains (iv : FI α) (v : α) : Bool :=
  let tol := iv.step / two
  ge v (iv.min - tol) && le v (iv.max + tol)

def isEmpty (iv : FI α) : Bool := gt iv.min iv.max

def stepCount (iv : FI α) : Nat :=
  if iv.isEmpty then 0 else toUsize (round ((iv.max - iv.min) / iv.step))

def isFixed (iv : FI α) : Bool := decide (iv.stepCount ≤ 1)

def size (iv : FI α) : α := if iv.isEmpty then zero else iv.max - iv.min

def roundToStep (iv : FI α) (v : α) : Option α :=
  clamp (iv.min + round ((v - iv.min) / iv.step) * iv.step) iv.min iv.max

def floorToStep (iv : FI α) (v : α) : Option α :=
  clamp (iv.min + floor ((v - iv.min) / iv.step) * iv.step) iv.min iv.max

def ceilToStep (iv : FI α) (v : α) : Option α :=
  clamp (iv.min + ceil ((v - iv.min) / iv.step) * iv.step) iv.min iv.max

/-- `FloatInterval::intersect` (for operands that are both zero with different signs Rust's
`f64::max/min` return `+0.0`; the suite does not generate that) -/
def intersect (a b : FI α) : FI α :=
  { min := fmax a.min b.min, max := fmin a.max b.max, step := fmin a.step b.step }

def intersects (a b : FI α) : Bool := le a.min b.max && ge a.max b.min

def assign (iv : FI α) (v : α) : Option (FI α) :=
  match iv.roundToStep v with
  | none => none
  | some r => some { iv with min := r, max := r }

/-- `FloatInterval::remove_below` -/
def removeBelow (iv : FI α) (t : α) : Option (FI α) :=
  let tol := iv.step / two
  if gt t (iv.max + tol) then some { iv with max := iv.min - one }
  else if gt t (iv.min + tol) then
    match iv.ceilToStep t with
    | none => none
    | some m =>
      if gt m (iv.max + tol) then some { iv with min := m, max := m - one }
      else some { iv with min := m }
  else some iv

/-- `FloatInterval::remove_above` -/
def removeAbove (iv : FI α) (t : α) : Option (FI α) :=
  let tol := iv.step / two
  if lt t (iv.min - tol) then some { iv with max := iv.min - one }
  else if lt t (iv.max - tol) then
    match iv.floorToStep t with
    | none => none
    | some m =>
      if lt m (iv.min - tol) then some { iv with max := iv.min - one }
      else some { iv with max := m }
  else some iv

/-- `FloatInterval::mid` -/
def mid (iv : FI α) : Option α :=
  if iv.isEmpty then some iv.min
  else if iv.isFixed then some iv.min
  else
    let rough :=
      if isInf iv.min && isInf iv.max then zero
      else if isInf iv.min then iv.max - one
      else if isInf iv.max then iv.min + one
      else iv.min + (iv.max - iv.min) / two
    iv.roundToStep rough

end FI

/-! ### Val -/

inductive FVal (α : Type) where
  | i (v : Int)
  | f (v : α)

namespace FVal
variable {α : Type} [Num α]

def toF : FVal α → α
  | .i v => ofInt v
  | .f v => v

def isF : FVal α → Bool
  | .i _ => false
  | .f _ => true

/-- `PartialOrd::lt` -/
def vlt : FVal α → FVal α → Bool
  | .i a, .i b => decide (a < b)
  | a, b => lt a.toF b.toF
/-- `PartialOrd::le` -/
def vle : FVal α → FVal α → Bool
  | .i a, .i b => decide (a ≤ b)
  | a, b => le a.toF b.toF
def vgt (a b : FVal α) : Bool := vlt b a
def vge (a b : FVal α) : Bool := vle b a
/-- `PartialEq::eq` -/
def veq : FVal α → FVal α → Bool
  | .i a, .i b => decide (a = b)
  | a, b => feq a.toF b.toF

def neg : FVal α → FVal α
  | .i v => .i (-v)
  | .f v => .f (-v)

/-- the four arms of `Plus::min_raw` -/
def add : FVal α → FVal α → FVal α
  | .i a, .i b => .i (a + b)
  | a, b => .f (a.toF + b.toF)
/-- the four arms of `Plus::try_set_min` -/
def sub : FVal α → FVal α → FVal α
  | .i a, .i b => .i (a - b)
  | a, b => .f (a.toF - b.toF)
/-- the four arms of `TimesPos::min_raw` -/
def mul : FVal α → FVal α → FVal α
  | .i a, .i b => .i (a * b)
  | a, b => .f (a.toF * b.toF)

end FVal

/-! ### store and context -/

/-- local copy of the integer-domain pieces (cf. `Dom` in `Model/IntCore.lean`) -/
def ilmin : List Int → Int
  | [] => 0
  | x :: xs => xs.foldl (fun m y => if y < m then y else m) x
def ilmax : List Int → Int
  | [] => 0
  | x :: xs => xs.foldl (fun m y => if m < y then y else m) x

inductive FVar (α : Type) where
  | flt (iv : FI α)
  | int (d : List Int)

abbrev FStore (α : Type) := Nat → FVar α

def updF {α : Type} (st : FStore α) (i : Nat) (v : FVar α) : FStore α :=
  fun j => if j = i then v else st j

structure FCtx (α : Type) where
  st : FStore α
  ev : List Nat := []

namespace FCtx
variable {α : Type} [Num α]

/-- (VarI, ValI) arm of `try_set_min` -/
def intSetMin (c : FCtx α) (i : Nat) (d : List Int) (m : Int) : Option (FCtx α × FVal α) :=
  if m > ilmax d then none
  else if m > ilmin d then
    let d' := d.filter (fun w => decide (m ≤ w))
    if d'.isEmpty then none
    else some ({ st := updF c.st i (.int d'), ev := c.ev ++ [i] }, .i (ilmin d'))
  else some (c, .i (ilmin d))

/-- (VarI, ValI) arm of `try_set_max` -/
def intSetMax (c : FCtx α) (i : Nat) (d : List Int) (m : Int) : Option (FCtx α × FVal α) :=
  if m < ilmin d then none
  else if m < ilmax d then
    let d' := d.filter (fun w => decide (w ≤ m))
    if d'.isEmpty then none
    else some ({ st := updF c.st i (.int d'), ev := c.ev ++ [i] }, .i (ilmax d'))
  else some (c, .i (ilmax d))

/-- (VarF, ValF) arm of `try_set_min` -/
def fltSetMin (c : FCtx α) (i : Nat) (iv : FI α) (m : α) : Option (FCtx α × FVal α) :=
  let tol := iv.step / two
  let absTol := three * iv.step
  let relTol := abs iv.max * e5
  let pt := fmax absTol relTol
  if lt (abs (iv.max - iv.min)) tol && lt (abs (m - iv.min)) pt then some (c, .f iv.min)
  else if gt m (iv.max + tol) then
    if gt (m - iv.max) pt then none else some (c, .f iv.min)
  else if gt m (iv.min + tol) then
    let nm0 := ceil (m / iv.step) * iv.step
    let nm := if gt nm0 iv.max then iv.max else nm0
    if gt nm (iv.max + tol) then none
    else some ({ st := updF c.st i (.flt { iv with min := nm }), ev := c.ev ++ [i] }, .f nm)
  else some (c, .f iv.min)

/-- (VarF, ValF) arm of `try_set_max` (with the "quantization mismatch" branch) -/
def fltSetMax (c : FCtx α) (i : Nat) (iv : FI α) (m : α) : Option (FCtx α × FVal α) :=
  let tol := iv.step / two
  let absTol := three * iv.step
  let relTol := abs iv.min * e5
  let pt := fmax absTol relTol
  if lt (abs (iv.max - iv.min)) tol && lt (abs (m - iv.max)) pt then some (c, .f iv.max)
  else if lt m iv.min then
    let diff := iv.min - m
    if le diff iv.step then
      some ({ st := updF c.st i (.flt { iv with max := iv.min }), ev := c.ev ++ [i] }, .f iv.min)
    else if gt diff pt then none
    else some (c, .f iv.max)
  else if lt m (iv.max - tol) then
    let nm0 := floor (m / iv.step) * iv.step
    let nm := if lt nm0 iv.min then iv.min else nm0
    if lt nm (iv.min - tol) then none
    else some ({ st := updF c.st i (.flt { iv with max := nm }), ev := c.ev ++ [i] }, .f nm)
  else some (c, .f iv.max)

/-- (VarF, ValI) arm of `try_set_min` -/
def fltSetMinI (c : FCtx α) (i : Nat) (iv : FI α) (m : Int) : Option (FCtx α × FVal α) :=
  let mc : α := ofInt m
  let tol := iv.step / two
  if gt mc (iv.max + tol) then none
  else if gt mc (iv.min + tol) then
    some ({ st := updF c.st i (.flt { iv with min := mc }), ev := c.ev ++ [i] }, .f mc)
  else some (c, .f iv.min)

/-- (VarF, ValI) arm of `try_set_max` -/
def fltSetMaxI (c : FCtx α) (i : Nat) (iv : FI α) (m : Int) : Option (FCtx α × FVal α) :=
  let mc : α := ofInt m
  let tol := iv.step / two
  if lt mc (iv.min - tol) then none
  else if lt mc (iv.max - tol) then
    some ({ st := updF c.st i (.flt { iv with max := mc }), ev := c.ev ++ [i] }, .f mc)
  else some (c, .f iv.max)

/-- `Context::try_set_min` -/
def trySetMin (c : FCtx α) (i : Nat) (m : FVal α) : Option (FCtx α × FVal α) :=
  match c.st i, m with
  | .int d, .i mi => c.intSetMin i d mi
  | .flt iv, .f mf => c.fltSetMin i iv mf
  | .int d, .f mf => c.intSetMin i d (toI32 (ceil mf))
  | .flt iv, .i mi => c.fltSetMinI i iv mi

/-- `Context::try_set_max` -/
def trySetMax (c : FCtx α) (i : Nat) (m : FVal α) : Option (FCtx α × FVal α) :=
  match c.st i, m with
  | .int d, .i mi => c.intSetMax i d mi
  | .flt iv, .f mf => c.fltSetMax i iv mf
  | .int d, .f mf => c.intSetMax i d (toI32 (floor mf))
  | .flt iv, .i mi => c.fltSetMaxI i iv mi

end FCtx

/-- `VarId::min_raw` -/
def FStore.vmin {α : Type} (st : FStore α) (i : Nat) : FVal α :=
  match st i with
  | .int d => .i (ilmin d)
  | .flt iv => .f iv.min

/-- `VarId::max_raw` -/
def FStore.vmax {α : Type} (st : FStore α) (i : Nat) : FVal α :=
  match st i with
  | .int d => .i (ilmax d)
  | .flt iv => .f iv.max

/-! ### views -/

inductive FView (α : Type) where
  | const (c : FVal α)
  | var (i : Nat)
  | opp (v : FView α)
  | plus (v : FView α) (k : FVal α)
  | tpos (v : FView α) (k : FVal α)
  | next (v : FView α)
  | prev (v : FView α)

namespace FView
variable {α : Type} [Num α]

/-- `Times::new`: sign dispatch (`ZeroI` / `ZeroF` behave exactly like the constants) -/
def times (v : FView α) (k : FVal α) : FView α :=
  match k with
  | .i s => if s < 0 then .tpos (.opp v) (.i (-s)) else if s = 0 then .const (.i 0) else .tpos v k
  | .f s => if lt s zero then .tpos (.opp v) (.f (-s)) else if feq s zero then .const (.f zero) else .tpos v k

/-- `times_neg` -/
def timesNeg (v : FView α) (k : FVal α) : FView α := .tpos (.opp v) k.neg

def underlying : FView α → Option Nat
  | .const _ => none
  | .var i => some i
  | .opp v => v.underlying
  | .plus v _ => v.underlying
  | .tpos v _ => v.underlying
  | .next v => v.underlying
  | .prev v => v.underlying

/-- `result_type == ViewType::Float` -/
def isFloat (st : FStore α) : FView α → Bool
  | .const c => c.isF
  | .var i => match st i with | .flt _ => true | .int _ => false
  | .opp v => v.isFloat st
  | .plus v k => v.isFloat st || k.isF
  | .tpos v k => v.isFloat st || k.isF
  | .next v => v.isFloat st
  | .prev v => v.isFloat st

/-- the float interval of the underlying variable, if it is a float variable -/
def ivOf (st : FStore α) (v : FView α) : Option (FI α) :=
  match v.underlying with
  | none => none
  | some i => match st i with | .flt iv => some iv | .int _ => none

/-- the `Next::min_raw` / `max_raw` step on a base value -/
def stepUp (st : FStore α) (x : FView α) (base : FVal α) : FVal α :=
  match x.ivOf st, base with
  | some iv, .f f => .f (iv.next f)
  | _, .i i => .i (i + 1)
  | _, .f _ => base

/-- the `Prev::min_raw` / `max_raw` step on a base value -/
def stepDown (st : FStore α) (x : FView α) (base : FVal α) : FVal α :=
  match x.ivOf st, base with
  | some iv, .f f => .f (iv.prev f)
  | _, .i i => .i (i - 1)
  | _, .f _ => base

mutual
def minRaw (st : FStore α) : FView α → FVal α
  | .const c => c
  | .var i => st.vmin i
  | .opp v => (maxRaw st v).neg
  | .plus v k => (minRaw st v).add k
  | .tpos v k => (minRaw st v).mul k
  | .next v => stepUp st v (minRaw st v)
  | .prev v => stepDown st v (minRaw st v)
def maxRaw (st : FStore α) : FView α → FVal α
  | .const c => c
  | .var i => st.vmax i
  | .opp v => (minRaw st v).neg
  | .plus v k => (maxRaw st v).add k
  | .tpos v k => (maxRaw st v).mul k
  | .next v => stepUp st v (maxRaw st v)
  | .prev v => stepDown st v (maxRaw st v)
end

/-- target of `Next::try_set_min/max` -/
def nextTarget (st : FStore α) (x : FView α) (m : FVal α) : FVal α :=
  match m with
  | .i mi =>
    if x.isFloat st then
      match x.ivOf st with
      | some iv => .f (iv.prev (ofInt mi))
      | none => .f (ofInt mi)
    else .i (mi - 1)
  | .f f =>
    match x.ivOf st with
    | some iv => .f (iv.prev f)
    | none => if x.isFloat st then m else .f (f - Num.one)   -- integer view: shift by one

/-- target of `Prev::try_set_min/max` -/
def prevTarget (st : FStore α) (x : FView α) (m : FVal α) : FVal α :=
  match m with
  | .i mi => .i (mi + 1)
  | .f f =>
    match x.ivOf st with
    | some iv => .f (iv.next f)
    | none => if x.isFloat st then m else .f (f + Num.one)   -- integer view: shift by one

/-- `TimesPos::try_set_min` bound inversion -/
def tposMinTarget (m k : FVal α) : FVal α :=
  match m, k with
  | .i mv, .i s => let q := mv / s; .i (if mv % s ≠ 0 then q + 1 else q)
  | a, b => .f (a.toF / b.toF)

/-- `TimesPos::try_set_max` bound inversion -/
def tposMaxTarget (m k : FVal α) : FVal α :=
  match m, k with
  | .i mv, .i s => .i (mv / s)
  | a, b => .f (a.toF / b.toF)

mutual
def trySetMin : FView α → FVal α → FCtx α → Option (FCtx α × FVal α)
  | .const c, m, ctx => if m.vle c then some (ctx, c) else none
  | .var i, m, ctx => ctx.trySetMin i m
  | .opp v, m, ctx => trySetMax v m.neg ctx
  | .plus v k, m, ctx => trySetMin v (m.sub k) ctx
  | .tpos v k, m, ctx => trySetMin v (tposMinTarget m k) ctx
  | .next v, m, ctx => trySetMin v (nextTarget ctx.st v m) ctx
  | .prev v, m, ctx => trySetMin v (prevTarget ctx.st v m) ctx
def trySetMax : FView α → FVal α → FCtx α → Option (FCtx α × FVal α)
  | .const c, m, ctx => if m.vge c then some (ctx, c) else none
  | .var i, m, ctx => ctx.trySetMax i m
  | .opp v, m, ctx => trySetMin v m.neg ctx
  | .plus v k, m, ctx => trySetMax v (m.sub k) ctx
  | .tpos v k, m, ctx => trySetMax v (tposMaxTarget m k) ctx
  | .next v, m, ctx => trySetMax v (nextTarget ctx.st v m) ctx
  | .prev v, m, ctx => trySetMax v (prevTarget ctx.st v m) ctx
end

end FView

/-! ### propagators -/

inductive FPK (α : Type) where
  | leq (x y : FView α)
  | eq (x y : FView α)
  | linEq (cs : List α) (xs : List Nat) (c : α)
  | linLe (cs : List α) (xs : List Nat) (c : α)
  | linNe (cs : List α) (xs : List Nat) (c : α)
  | linEqReif (cs : List α) (xs : List Nat) (c : α) (b : Nat)
  | linLeReif (cs : List α) (xs : List Nat) (c : α) (b : Nat)
  | linNeReif (cs : List α) (xs : List Nat) (c : α) (b : Nat)

namespace FPK
variable {α : Type} [Num α]

/-- `less_than x y` is posted as `LessThanOrEquals(x.next(), y)` -/
def lessThan (x y : FView α) : FPK α := .leq (.next x) y

/-- bounds of a variable as floats (`l as f64`, `u as f64` for integer variables) -/
def boundsF (st : FStore α) (x : Nat) : α × α := ((st.vmin x).toF, (st.vmax x).toF)

/-- `(min_term, max_term)` of one `coeff * var` -/
def term (st : FStore α) (coeff : α) (x : Nat) : α × α :=
  let b := boundsF st x
  if gt coeff zero then (coeff * b.1, coeff * b.2) else (coeff * b.2, coeff * b.1)

/-- `(min_other, max_other)`: the accumulation loop over `j ≠ i`, in index order from `0.0` -/
def otherSums (st : FStore α) (i : Nat) : Nat → List α → List Nat → α × α → α × α
  | _, [], _, acc => acc
  | _, _, [], acc => acc
  | j, cj :: cs, xj :: xs, acc =>
    if j = i then otherSums st i (j + 1) cs xs acc
    else
      let t := term st cj xj
      otherSums st i (j + 1) cs xs (acc.1 + t.1, acc.2 + t.2)

/-- `has_unbounded_other` of the helper functions: some other float variable has an infinite bound -/
def otherUnbounded (st : FStore α) (i : Nat) : Nat → List Nat → Bool
  | _, [] => false
  | j, xj :: xs =>
    (if j = i then false
     else match st xj with
       | .flt iv => isInf iv.min || isInf iv.max
       | .int _ => false) || otherUnbounded st i (j + 1) xs

/-- run `f` for every index `k, k+1, …` of the list, threading the context (`?` on failure) -/
def forIdx {β : Type} (f : Nat → β → FCtx α → Option (FCtx α)) : Nat → List β → FCtx α → Option (FCtx α)
  | _, [], c => some c
  | k, b :: bs, c =>
    match f k b c with
    | none => none
    | some c' => forIdx f (k + 1) bs c'

def setMin (x : Nat) (m : FVal α) (c : FCtx α) : Option (FCtx α) := (c.trySetMin x m).map (·.1)
def setMax (x : Nat) (m : FVal α) (c : FCtx α) : Option (FCtx α) := (c.trySetMax x m).map (·.1)

/-- new bounds `(new_min, new_max)` computed by `FloatLinEq` for the variable at index `i` -/
def linEqBounds (cs : List α) (xs : List Nat) (cst : α) (i : Nat) (coeff : α) (x : Nat) (c : FCtx α) : α × α × α × α :=
  let o := otherSums c.st i 0 cs xs (zero, zero)
  let tmin := cst - o.2
  let tmax := cst - o.1
  let n1 := if gt coeff zero then tmin / coeff else tmax / coeff
  let n2 := if gt coeff zero then tmax / coeff else tmin / coeff
  let nmin := if gt n1 n2 then n2 else n1
  let nmax := if gt n1 n2 then n1 else n2
  let b := boundsF c.st x
  let nmax' := if lt nmax b.1 && lt (b.1 - nmax) e6 then b.1 else nmax
  let nmin' := if gt nmin b.2 && lt (nmin - b.2) e6 then b.2 else nmin
  (nmin', nmax', b.1, b.2)

/-- "variable already fixed and the computed minimum is close": skip the update
(`r = (new_min, new_max, current_min, current_max)`) -/
def linEqSkip (r : α × α × α × α) : Bool :=
  lt (abs (r.2.2.2 - r.2.2.1)) e9 && lt (abs (r.1 - r.2.2.1)) e4

/-- one iteration of the `FloatLinEq` loop (both the `Prune` impl and `prune_float_lin_eq`;
`helper = true` adds the `has_unbounded_other` skip) -/
def linEqStep (helper : Bool) (cs : List α) (xs : List Nat) (cst : α) (i : Nat) (cx : α × Nat) (c : FCtx α) : Option (FCtx α) :=
  let coeff := cx.1
  let x := cx.2
  if lt (abs coeff) e12 then some c
  else if helper && otherUnbounded c.st i 0 xs then some c
  else
    let r := linEqBounds cs xs cst i coeff x c
    if linEqSkip r then some c
    else
      match setMin x (.f r.1) c with
      | none => none
      | some c1 => setMax x (.f r.2.1) c1

/-- one iteration of the `impl Prune for FloatLinLe` loop -/
def linLeStep (cs : List α) (xs : List Nat) (cst : α) (i : Nat) (cx : α × Nat) (c : FCtx α) : Option (FCtx α) :=
  let coeff := cx.1
  let x := cx.2
  if lt (abs coeff) e12 then some c
  else
    let o := otherSums c.st i 0 cs xs (zero, zero)
    let remaining := cst - o.1
    if gt coeff zero then
      let maxVal := remaining / coeff
      if isFinite maxVal then
        match c.st.vmax x with
        | .f cur => if lt maxVal cur then setMax x (.f maxVal) c else some c
        | .i _ => some c
      else some c
    else
      let minVal := remaining / coeff
      let nm := if feq minVal zero then zero else minVal
      if isFinite nm then
        match c.st.vmin x with
        | .f cur => if gt nm cur then setMin x (.f nm) c else some c
        | .i _ => some c
      else some c

/-- one iteration of the `prune_float_lin_le` helper loop (used by the reified versions) -/
def linLeHelperStep (cs : List α) (xs : List Nat) (cst : α) (i : Nat) (cx : α × Nat) (c : FCtx α) : Option (FCtx α) :=
  let coeff := cx.1
  let x := cx.2
  if lt (abs coeff) e12 then some c
  else if otherUnbounded c.st i 0 xs then some c
  else
    let o := otherSums c.st i 0 cs xs (zero, zero)
    let remaining := cst - o.1
    if gt coeff zero then setMax x (.f (remaining / coeff)) c
    else setMin x (.f (remaining / coeff)) c

/-- `exclude_value` -/
def excludeValue (x : Nat) (fv : FVal α) (c : FCtx α) : Option (FCtx α) :=
  let cmin := c.st.vmin x
  let cmax := c.st.vmax x
  if fv.vlt cmin || fv.vgt cmax then some c
  else if cmin.veq cmax && cmin.veq fv then none
  else if cmin.veq fv then
    setMin x (match fv with | .i i => .i (i + 1) | .f f => .f (f + e4)) c
  else if cmax.veq fv then
    setMax x (match fv with | .i i => .i (i - 1) | .f f => .f (f - e4)) c
  else some c

/-- is the variable "fixed" in the sense of `FloatLinNe` / `compute_fixed_sum_float`; the value -/
def fixedVal (st : FStore α) (x : Nat) : Option α :=
  match st x with
  | .flt iv => if lt (abs (iv.min - iv.max)) e12 then some iv.min else none
  | .int d => if ilmin d = ilmax d then some (ofInt (ilmin d)) else none

/-- the scan of `FloatLinNe`: `none` = two unfixed variables (return `Some(())`), otherwise the
index of the unfixed variable (if any) and `fixed_sum` -/
def neScan (st : FStore α) : Nat → List α → List Nat → Option Nat × α → Option (Option Nat × α)
  | _, [], _, acc => some acc
  | _, _, [], acc => some acc
  | j, cj :: cs, xj :: xs, acc =>
    match fixedVal st xj with
    | some l => neScan st (j + 1) cs xs (acc.1, acc.2 + cj * l)
    | none =>
      match acc.1 with
      | some _ => none
      | none => neScan st (j + 1) cs xs (some j, acc.2)

/-- `FloatLinNe::prune` = `prune_float_lin_ne` -/
def linNePrune (cs : List α) (xs : List Nat) (cst : α) (c : FCtx α) : Option (FCtx α) :=
  match neScan c.st 0 cs xs (none, zero) with
  | none => some c
  | some (none, fsum) => if lt (abs (fsum - cst)) e12 then none else some c
  | some (some idx, fsum) =>
    match cs[idx]?, xs[idx]? with
    | some coeff, some x =>
      if lt (abs coeff) e12 then
        if lt (abs (fsum - cst)) e12 then none else some c
      else excludeValue x (.f ((cst - fsum) / coeff)) c
    | _, _ => some c

/-- `compute_fixed_sum_float` -/
def fixedSum (st : FStore α) : List α → List Nat → α → Option α
  | [], _, acc => some acc
  | _, [], acc => some acc
  | cj :: cs, xj :: xs, acc =>
    match fixedVal st xj with
    | some l => fixedSum st cs xs (acc + cj * l)
    | none => none

/-- `compute_sum_bounds_float` -/
def sumBounds (st : FStore α) : List α → List Nat → α × α → α × α
  | [], _, acc => acc
  | _, [], acc => acc
  | cj :: cs, xj :: xs, acc =>
    let t := term st cj xj
    sumBounds st cs xs (acc.1 + t.1, acc.2 + t.2)

def isOne (v : FVal α) : Bool := v.veq (.i 1)
def isZero (v : FVal α) : Bool := v.veq (.i 0)

/-- `b.try_set_min(k)?; b.try_set_max(k)?` -/
def fixReif (b : Nat) (k : Int) (c : FCtx α) : Option (FCtx α) :=
  match setMin b (.i k) c with
  | none => none
  | some c1 => setMax b (.i k) c1

def prune : FPK α → FCtx α → Option (FCtx α)
  | .leq x y, c =>
    match x.trySetMax (y.maxRaw c.st) c with
    | none => none
    | some (c1, _) => (y.trySetMin (x.minRaw c1.st) c1).map (·.1)
  | .eq x y, c =>
    match x.trySetMin (y.minRaw c.st) c with
    | none => none
    | some (c1, _) =>
      match x.trySetMax (y.maxRaw c1.st) c1 with
      | none => none
      | some (c2, _) =>
        match y.trySetMin (x.minRaw c2.st) c2 with
        | none => none
        | some (c3, _) => (y.trySetMax (x.maxRaw c3.st) c3).map (·.1)
  | .linEq cs xs cst, c => forIdx (linEqStep false cs xs cst) 0 (cs.zip xs) c
  | .linLe cs xs cst, c => forIdx (linLeStep cs xs cst) 0 (cs.zip xs) c
  | .linNe cs xs cst, c => linNePrune cs xs cst c
  | .linEqReif cs xs cst b, c =>
    let rmin := c.st.vmin b
    let rmax := c.st.vmax b
    if isOne rmin && isOne rmax then forIdx (linEqStep true cs xs cst) 0 (cs.zip xs) c
    else if isZero rmin && isZero rmax then
      match fixedSum c.st cs xs zero with
      | some s => if lt (abs (s - cst)) e12 then none else some c
      | none => some c
    else
      match fixedSum c.st cs xs zero with
      | some s => if lt (abs (s - cst)) e12 then fixReif b 1 c else fixReif b 0 c
      | none => some c
  | .linLeReif cs xs cst b, c =>
    let rmin := c.st.vmin b
    let rmax := c.st.vmax b
    if isOne rmin && isOne rmax then forIdx (linLeHelperStep cs xs cst) 0 (cs.zip xs) c
    else if isZero rmin && isZero rmax then
      match fixedSum c.st cs xs zero with
      | some s => if le s cst then none else some c
      | none => some c
    else
      let sb := sumBounds c.st cs xs (zero, zero)
      if le sb.2 cst then fixReif b 1 c
      else if gt sb.1 cst then fixReif b 0 c
      else some c
  | .linNeReif cs xs cst b, c =>
    let rmin := c.st.vmin b
    let rmax := c.st.vmax b
    if isOne rmin && isOne rmax then linNePrune cs xs cst c
    else if isZero rmin && isZero rmax then forIdx (linEqStep true cs xs cst) 0 (cs.zip xs) c
    else
      match fixedSum c.st cs xs zero with
      | some s => if ge (abs (s - cst)) e12 then fixReif b 1 c else fixReif b 0 c
      | none => some c

end FPK

end Selen

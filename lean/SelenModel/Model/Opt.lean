/-
Decision-logic model of float / mixed optimisation (`Model::minimize` / `Model::maximize`),
property C08.  Written once against `Num` (`Float` in the driver, `Rat` in the theorems).

What is modelled (file : function):

* `model/core.rs : minimize / maximize`                       — `entry`: `ModelValidator::validate`
  first (fix 87f7dea), then the router on the model AS POSTED — unless deferred ASTs are waiting to
  be lowered, in which case `try_optimization_*` declines (fix c9cb80d); `maximize` whose router declines calls
  `minimize(objective.opposite())`, which asks the router AGAIN — with a view whose underlying
  variable is the same, so the second attempt MINIMISES the variable.
* `optimization/model_integration.rs : try_minimize / try_maximize / extract_simple_variable /
  has_complex_constraints / try_safe_float_minimize / try_safe_float_maximize /
  create_unconstrained_solution / try_hybrid_*`                — `route`, `extractSimple`, `hasComplex`,
  `trySafe`, `createSol`, `hybrid`.
* `optimization/classification.rs : ProblemClassifier::classify` — `classify` (cross-type coupling is
  never detected by the code: `constraint_has_mixed_types` is constant `false`).
* `optimization/constraint_metadata.rs : analyze_variable_constraints / get_effective_*_bound` and the
  registration of metadata in `constraints/props/mod.rs`         — `Post.meta`, `ubs … eqs`,
  `effUpper`, `effLower`.
* `optimization/precision_handling.rs : try_metadata_precision_optimization / is_fallback_domain`
                                                                — `tryMeta`, `isFallback`.
* `optimization/constraint_integration.rs : minimize/maximize_with_constraints` — NOT re-modelled:
  it runs `search::propagate` over the router-visible propagators.  Its result for every float
  variable is an INPUT of the model (`pbs`: `none` = `success == false`, `some (lo, hi)` = the
  propagated bounds); the harness obtains it from the same public functions.
* `search/mod.rs : search_with_timeout_and_memory` (root LP step), `runtime_api/mod.rs :
  extract_lp_constraint / materialize_constraint_kind (LinearFloat arm)`, `constraints/props/mod.rs :
  extract_linear_system`, `lpsolver/csp_integration.rs : add_constraint / is_suitable_for_lp /
  to_standard_form / to_lp_problem / apply_lp_solution`
                                                                — `Post.astRow`, `Post.scanRow`,
  `Post.leqRow`, `sysRows` (rows with coefficients, in the code's order), `lpRows`, `sysVars`,
  `rootLpEligible`, `LRow.std`, `buildRow`, `lpProblem` (columns, `A`, `b`, bounds, objective),
  `applyLp`, `rootLpStep` (the LP solver's report is an input: `LpReport`).  The simplex itself is
  C09's model (`Model/Lp.lean`).

A model description (`OModel`) is the variable store at router time plus the list of POSTED
constraints with the route they were posted by:
  `cmp`  — `m.props.<rel>(l, r)` with `l`, `r` a variable or a constant: a propagator exists, Binary
           metadata is registered (visible to the router);
  `plin` — `m.props.float_lin_le / float_lin_eq`: a propagator exists, N-ary metadata (visible, but
           nothing is extracted from it);
  `pend` — anything posted through `m.new(..)` / `m.lin_le` / `m.lin_eq` …: a deferred AST, invisible
           to the router.  `lp` = a row was pushed to `pending_lp_constraints` when it was posted;
           `scan` = it materialises into a `FloatLinLe/FloatLinEq` propagator, which
           `Propagators::extract_linear_system` scans.

Import-free apart from `Model/FloatCore.lean` (linked into `selen_model`).
-/
import SelenModel.Model.FloatCore

namespace Selen
namespace Opt
open Num

inductive Rel where
  | le | lt | ge | gt | eq | ne
  deriving DecidableEq, Repr

inductive Opnd (α : Type) where
  | v (i : Nat)
  | c (x : α)

inductive Post (α : Type) where
  | cmp (rel : Rel) (l r : Opnd α)
  | plin (isEq : Bool) (cs : List α) (xs : List Nat) (rhs : α)
  | pend (rel : Rel) (cs : List α) (xs : List Nat) (rhs : α) (lp scan : Bool)

structure OModel (α : Type) where
  vars : List (FVar α) := []
  posts : List (Post α) := []

/-! ### constraint metadata as registered by `Propagators` -/

/-- `ViewInfo` -/
inductive VInfo (α : Type) where
  | var (i : Nat)
  | const (x : α)
  | next (i : Nat)      -- `Transformed { base_var, Next }`
  | complex

/-- `ConstraintMetadata`: `data = none` stands for `ConstraintData::NAry` (never inspected) -/
structure Meta (α : Type) where
  ty : Rel
  vars : List Nat
  data : Option (VInfo α × VInfo α)

variable {α : Type}

/-- `Propagators::analyze_view` on a variable / a `Val` -/
def Opnd.info : Opnd α → VInfo α
  | .v i => .var i
  | .c x => .const x

/-- `get_underlying_var().into_iter()` -/
def Opnd.under : Opnd α → List Nat
  | .v i => [i]
  | .c _ => []

/-- what `less_than_or_equals / less_than / greater_than_or_equals / greater_than / equals /
not_equals / float_lin_le / float_lin_eq` register -/
def Post.meta : Post α → Option (Meta α)
  | .cmp .lt l r =>
    some { ty := .lt, vars := l.under ++ r.under,
           data := some ((match l with | .v i => .next i | .c _ => .complex), r.info) }
  | .cmp rel l r => some { ty := rel, vars := l.under ++ r.under, data := some (l.info, r.info) }
  | .plin isEq _ xs _ => some { ty := if isEq then .eq else .le, vars := xs, data := none }
  | .pend .. => none

def OModel.metas (m : OModel α) : List (Meta α) := m.posts.filterMap Post.meta

/-- `props.get_prop_ids_iter().next().is_some()`: every visible post created exactly one propagator -/
def OModel.propsNonEmpty (m : OModel α) : Bool := !m.metas.isEmpty

/-! ### `analyze_constraint_for_variable`, one list per field of `VariableConstraintAnalysis` -/

def ubOf (x : Nat) (m : Meta α) : List α :=
  match m.data with
  | some (l, r) =>
    match m.ty, l, r with
    | .le, .var y, .const c => if y = x then [c] else []
    | .ge, .const c, .var y => if y = x then [c] else []
    | _, _, _ => []
  | none => []

def lbOf (x : Nat) (m : Meta α) : List α :=
  match m.data with
  | some (l, r) =>
    match m.ty, l, r with
    | .le, .const c, .var y => if y = x then [c] else []
    | .ge, .var y, .const c => if y = x then [c] else []
    | _, _, _ => []
  | none => []

def subOf (x : Nat) (m : Meta α) : List α :=
  match m.data with
  | some (l, r) =>
    match m.ty, l, r with
    | .lt, .next y, .const c => if y = x then [c] else []
    | .lt, .var y, .const c => if y = x then [c] else []
    | .gt, .const c, .var y => if y = x then [c] else []
    | _, _, _ => []
  | none => []

def slbOf (x : Nat) (m : Meta α) : List α :=
  match m.data with
  | some (l, r) =>
    match m.ty, l, r with
    | .lt, .const c, .var y => if y = x then [c] else []
    | .gt, .var y, .const c => if y = x then [c] else []
    | _, _, _ => []
  | none => []

def eqOf (x : Nat) (m : Meta α) : List α :=
  match m.data with
  | some (l, r) =>
    match m.ty, l, r with
    | .eq, .var y, .const c => if y = x then [c] else []
    | _, _, _ => []
  | none => []

/-- `analyze_variable_constraints`: `var_to_constraints[x]` lists a constraint once per occurrence
of `x` in its variable list, in registration order -/
def collect (f : Nat → Meta α → List α) (x : Nat) (ms : List (Meta α)) : List α :=
  ms.flatMap (fun m => (m.vars.filter (fun y => decide (y = x))).flatMap (fun _ => f x m))

section
variable [Num α]

/-- `Option` fold of `get_effective_*_bound` -/
def foldBound (f : α → α → α) : List α → Option α
  | [] => none
  | b :: bs => some (bs.foldl f b)

/-- `get_effective_upper_bound` -/
def effUpper (x : Nat) (ms : List (Meta α)) : Option α :=
  foldBound fmin (collect ubOf x ms ++ (collect subOf x ms).map prevFloat ++ collect eqOf x ms)

/-- `get_effective_lower_bound` -/
def effLower (x : Nat) (ms : List (Meta α)) : Option α :=
  foldBound fmax (collect lbOf x ms ++ (collect slbOf x ms).map nextFloat ++ collect eqOf x ms)

/-- `PrecisionAwareOptimizer::is_fallback_domain` -/
def isFallback (iv : FI α) : Bool :=
  lt (abs (iv.min + iv.max)) e4 &&
    (let a := abs iv.max
     feq a (ofInt 50) || feq a (ofInt 100) || feq a (ofInt 1000) || feq a (ofInt 10000))

/-- `OptimizationResult`, as far as it is read: `success` and `optimal_value` -/
inductive ORes (α : Type) where
  | ok (v : α)
  | fail

/-- the candidate misses a registered bound (either direction) -/
def oppViolated (x : Nat) (ms : List (Meta α)) (v : α) : Bool :=
  (match effLower x ms with | some l => lt v l | none => false) ||
    (match effUpper x ms with | some u => gt v u | none => false)

/-- `try_metadata_precision_optimization` for a float variable (`none` = "fall back") -/
def tryMeta (iv : FI α) (x : Nat) (ms : List (Meta α)) (isMax : Bool) : Option (ORes α) :=
  if iv.isEmpty then some .fail
  else
    let cand : Option α :=
      if isMax then
        match effUpper x ms with
        | some u => some u
        | none => if isFallback iv then none else some iv.max
      else
        match effLower x ms with
        | some l => some l
        | none => if isFallback iv then none else some iv.min
    match cand with
    | none => none
    | some v =>
      if lt v iv.min || gt v iv.max then none
      /- a bound against the direction of optimisation has to hold as well (fix: before, only the
         bound in the direction of optimisation was looked at) -/
      else if oppViolated x ms v then none
      else some (.ok v)

/-- `ConstraintAwareOptimizer::{minimize,maximize}_with_constraints`: an input (see the header) -/
def viaProp (pb : Option (α × α)) (isMax : Bool) : ORes α :=
  match pb with
  | none => .fail
  | some (lo, hi) => .ok (if isMax then hi else lo)

/-- `PrecisionAwareOptimizer::{minimize,maximize}_with_precision` -/
def withPrecision (iv : FI α) (x : Nat) (ms : List (Meta α)) (pb : Option (α × α)) (isMax : Bool) : ORes α :=
  match tryMeta iv x ms isMax with
  | some r => r
  | none => viaProp pb isMax

/-- does the router's answer depend on the propagation input? -/
def usesProp (m : OModel α) (isMax : Bool) (x : Nat) : Bool :=
  match m.vars[x]? with
  | some (.flt iv) =>
    m.propsNonEmpty &&
      (match tryMeta iv x m.metas isMax with
       | some (.ok _) => false
       | _ => true)
  | _ => false

/-! ### the router -/

inductive Reason where
  | complexObjective | mixedSeparable | optimizerFailure
  deriving DecidableEq, Repr

/-- `OptimizationAttempt` (`panic`: `FloatInterval::mid` would hit the `clamp` assertion) -/
inductive Decision (α : Type) where
  | fast (sol : List (FVal α))
  | declined (r : Reason)
  | panic

/-- value of one non-objective variable in `create_unconstrained_solution` -/
def otherValue : FVar α → Option (FVal α)
  | .flt iv => if iv.isFixed then some (.f iv.min) else (iv.mid).map .f
  | .int d => some (.i (ilmin d))

/-- `create_unconstrained_solution` (`i` = index of the head of the list) -/
def createSol (x : Nat) (v : α) : Nat → List (FVar α) → Option (List (FVal α))
  | _, [] => some []
  | i, var :: rest =>
    match (if i = x then some (.f v) else otherValue var), createSol x v (i + 1) rest with
    | some h, some t => some (h :: t)
    | _, _ => none

def mkSol (m : OModel α) (x : Nat) (v : α) : Decision α :=
  match createSol x v 0 m.vars with
  | some s => .fast s
  | none => .panic

inductive PType where
  | pureFloat | pureInt | mixed
  deriving DecidableEq, Repr

def isFlt : FVar α → Bool
  | .flt _ => true
  | .int _ => false

/-- `ProblemClassifier::classify` -/
def classify (vars : List (FVar α)) : PType :=
  let nf := (vars.filter isFlt).length
  let ni := (vars.filter (fun v => !isFlt v)).length
  if nf = 0 then .pureInt else if ni = 0 then .pureFloat else .mixed

/-- `extract_simple_variable` for an objective that IS a variable (`get_underlying_var_raw() =
Some(obj)`): that variable if it is a float variable.  The "only float variable of the model"
fallback applies to objectives without an underlying variable only (fix 9b99c03), which the
entry points modelled here never pass. -/
def extractSimple (vars : List (FVar α)) (obj : Nat) : Option Nat :=
  match vars[obj]? with
  | some (.flt _) => some obj
  | _ => none

/-- `has_complex_constraints` -/
def hasComplex (vars : List (FVar α)) : Bool :=
  if vars.length = 1 then false else decide (vars.length > 2)

/-- `try_safe_float_minimize` / `try_safe_float_maximize` -/
def trySafe (m : OModel α) (pbs : List (Option (α × α))) (isMax : Bool) (x : Nat) : Decision α :=
  match m.vars[x]? with
  | some (.flt iv) =>
    if m.propsNonEmpty then
      let pb := pbs.getD x none
      match withPrecision iv x m.metas pb isMax with
      | .ok v => mkSol m x v
      | .fail =>
        match viaProp pb isMax with
        | .ok v => mkSol m x v
        /- (`try_safe_float_minimize` answered `interval.min` here before the fix) -/
        | .fail => .declined .optimizerFailure
    else mkSol m x (if isMax then iv.max else iv.min)
  | _ => .declined .complexObjective

/-- `try_hybrid_constraint_satisfaction` -/
def hybrid (vars : List (FVar α)) : Decision α :=
  if vars.any isFlt && vars.any (fun v => !isFlt v) then .declined .mixedSeparable
  else .declined .complexObjective

/-- `try_maximize`, mixed problem: "objective is a float variable and the constraints are simple" -/
def safeMaxApplies (vars : List (FVar α)) (x : Nat) : Bool :=
  (match vars[x]? with | some (.flt _) => true | _ => false) && !hasComplex vars

/-- `OptimizationRouter::try_minimize` (`isMax = false`) / `try_maximize` (`isMax = true`) -/
def route (m : OModel α) (pbs : List (Option (α × α))) (isMax : Bool) (obj : Nat) : Decision α :=
  match extractSimple m.vars obj with
  | some x =>
    match classify m.vars with
    | .pureFloat =>
      if hasComplex m.vars then .declined .complexObjective else trySafe m pbs isMax x
    | .mixed =>
      if isMax then
        if safeMaxApplies m.vars x then
          match trySafe m pbs true x with
          | .fast s => .fast s
          | .panic => .panic
          | .declined _ => hybrid m.vars
        else hybrid m.vars
      else hybrid m.vars
    | .pureInt => .declined .complexObjective
  | none =>
    match classify m.vars with
    | .mixed => hybrid m.vars
    | _ => .declined .complexObjective

/-- which path answers `Model::minimize` / `Model::maximize` (`invalid` = `Err` of the validator) -/
inductive Path (α : Type) where
  | fast (sol : List (FVal α))
  | search
  | panic
  | invalid

/-- `ModelValidator::validate_variable_domains` (the constraint checks of the validator cannot
fail on the constraint kinds of a model description) -/
def validVar : FVar α → Bool
  | .flt iv => !(gt iv.min iv.max) && !(isInf iv.min || isInf iv.max) && !(isNaN iv.min || isNaN iv.max)
  | .int d => !d.isEmpty

def Post.isPend : Post α → Bool
  | .pend .. => true
  | _ => false

/-- `!self.pending_constraint_asts.is_empty()` -/
def OModel.hasPending (m : OModel α) : Bool := m.posts.any Post.isPend

/-- `Model::minimize` / `Model::maximize` up to the point where search starts -/
def entry (m : OModel α) (pbs : List (Option (α × α))) (isMax : Bool) (obj : Nat) : Path α :=
  if !m.vars.all validVar then .invalid
  else if m.hasPending then .search
  else
  match route m pbs isMax obj with
  | .fast s => .fast s
  | .panic => .panic
  | .declined _ =>
    if isMax then
      -- `self.minimize(objective.opposite())`: the router sees the same underlying variable
      match route m pbs false obj with
      | .fast s => .fast s
      | .panic => .panic
      | .declined _ => .search
    else .search

/-! ### how the posting routes build a model description -/

def Rel.lpExtractable : Rel → Bool
  | .le | .ge | .eq => true
  | _ => false

/-- `m.lin_le / m.lin_eq` with `f64` coefficients: the AST is stored directly (no row in
`pending_lp_constraints`); it materialises into `FloatLinLe / FloatLinEq` -/
def postLin (isEq : Bool) (cs : List α) (xs : List Nat) (rhs : α) : Post α :=
  .pend (if isEq then .eq else .le) cs xs rhs false true

/-- `m.new(Σ xᵢ·cᵢ rel rhs)` with float constants: `post_constraint_kind` converts it to a
`LinearFloat` AST; `extract_lp_constraint` yields a row for `<=`, `>=`, `==` only; every relation
except `!=` materialises into a `FloatLinLe / FloatLinEq` propagator -/
def postFluent (rel : Rel) (cs : List α) (xs : List Nat) (rhs : α) : Post α :=
  -- `try_convert_to_linear_ast`: constant = -(left_const - right_const) with left_const = Int(0),
  -- i.e. `-(0.0 - rhs)` (which turns a zero right-hand side into `-0.0`)
  .pend rel cs xs (-(zero - rhs)) rel.lpExtractable (rel != .ne)

/-- `m.new(x.rel(y))` between two variables: all coefficients are the integers 1, -1, so the AST
becomes `LinearInt` (a row for the LP, but an integer linear propagator that is never scanned) -/
def postFluentVV (rel : Rel) (x y : Nat) : Post α :=
  -- `try_convert_to_linear_ast` merges a variable that occurs on both sides: `x rel x` is the row `0·x rel 0`
  if x = y then .pend rel [zero] [x] zero rel.lpExtractable false
  else .pend rel [one, -one] [x, y] zero rel.lpExtractable false

/-- `post_constraint_kind` on `x == y` between two variables calls `apply_var_eq_bounds` BEFORE the
AST is stored: when both are integer variables and `[max(min x, min y), min(max x, max y)]` is not
empty, every value outside that range is removed from both domains at once (nothing happens for
an empty range or when a float variable is involved); the constraint itself stays deferred -/
def OModel.postFluentVV (m : OModel α) (rel : Rel) (x y : Nat) : OModel α :=
  let vars := match rel, m.vars[x]?, m.vars[y]? with
    | .eq, some (.int d1), some (.int d2) =>
      let lo := if ilmin d1 > ilmin d2 then ilmin d1 else ilmin d2
      let hi := if ilmax d1 < ilmax d2 then ilmax d1 else ilmax d2
      if lo ≤ hi then
        let keep (d : List Int) : List Int := d.filter (fun v => !(decide (v < lo) || decide (v > hi)))
        (m.vars.set x (.int (keep d1))).set y (.int (keep d2))
      else m.vars
    | _, _, _ => m.vars
  { vars := vars, posts := m.posts ++ [Opt.postFluentVV rel x y] }

/-- `m.new(x.eq(float(c)))`: materialised at once — the interval of `x` becomes `[c, c]`
when `c` lies inside it, a constant variable `float(c, c)` is created and `props.equals(x, const)` is posted -/
def OModel.postEqImm (m : OModel α) (x : Nat) (c step : α) : OModel α :=
  let vars := match m.vars[x]? with
    | some (.flt iv) =>
      -- since the repair `fix: x.eq(c) on a float variable narrows the domain only to a value inside
      -- it`: a constant outside the interval leaves the domain alone
      if Num.le iv.min c && Num.le c iv.max then m.vars.set x (.flt { iv with min := c, max := c }) else m.vars
    | _ => m.vars
  { vars := vars ++ [.flt { min := c, max := c, step := step }],
    posts := m.posts ++ [.cmp .eq (.v x) (.v vars.length)] }

/-! ### root LP step: assembly of the linear system, eligibility, objective, transfer -/

/-- variable lists of the rows of the linear system, in the order of
`search_with_timeout_and_memory`: `pending_lp_constraints`, then the scan of the propagators
(`FloatLinEq/FloatLinLe` in propagator order — visible ones first, then the materialised ASTs —
followed by the `LessThanOrEquals<VarId, VarId>` propagators) -/
def lpRows (m : OModel α) : List (List Nat) :=
  m.posts.filterMap (fun p => match p with
    | .pend .le _ xs _ true _ => some xs
    | .pend .ge _ xs _ true _ => some xs
    | .pend .eq _ xs _ true _ => some xs
    | _ => none)
  ++ m.posts.filterMap (fun p => match p with
    | .plin _ _ xs _ => some xs
    | _ => none)
  ++ m.posts.filterMap (fun p => match p with
    | .pend .ne _ _ _ _ _ => none
    | .pend _ _ xs _ _ true => some xs
    | _ => none)
  ++ m.posts.filterMap (fun p => match p with
    | .cmp .le (.v x) (.v y) => some [x, y]
    | .cmp .ge (.v x) (.v y) => some [y, x]
    | _ => none)

/-- `LinearConstraintSystem::add_constraint`: first-occurrence order -/
def addVars (acc : List Nat) (row : List Nat) : List Nat :=
  row.foldl (fun a v => if v ∈ a then a else a ++ [v]) acc

def sysVars (rows : List (List Nat)) : List Nat := rows.foldl addVars []

/-- `is_suitable_for_lp` -/
def suitable (rows : List (List Nat)) : Bool := !rows.isEmpty && decide ((sysVars rows).length ≥ 2)

/-- position of the objective variable in the system (`lp_has_objective`) -/
def objIndex (rows : List (List Nat)) (obj : Nat) : Option Nat :=
  let vs := sysVars rows
  let i := vs.findIdx (fun v => decide (v = obj))
  if i < vs.length then some i else none

/-- the root LP is solved iff the system is suitable and contains the objective variable -/
def rootLpEligible (m : OModel α) (obj : Nat) : Bool :=
  suitable (lpRows m) && (objIndex (lpRows m) obj).isSome

/-- `extract_bounds` -/
def boundsOf : FVar α → α × α
  | .flt iv => (iv.min, iv.max)
  | .int d => (ofInt (ilmin d), ofInt (ilmax d))

/-- `to_lp_problem`: a system variable is substituted as a constant when `|upper − lower| < 1e-6` -/
def isConst (v : FVar α) : Bool :=
  let (lo, hi) := boundsOf v
  lt (abs (hi - lo)) e6

/-- objective vector `c` of the LP (maximisation form) over the non-constant system variables -/
def lpObjective (m : OModel α) (obj : Nat) (minimize : Bool) : List α :=
  ((sysVars (lpRows m)).filter (fun v => !isConst (m.vars.getD v (.int [0])))).map (fun v =>
    let c : α := if v = obj then one else zero
    if minimize then -c else c)

/-! #### the linear system with its coefficients and the `LpProblem` built from it -/

/-- `ConstraintRelation` -/
inductive LRel where
  | le | ge | eq
  deriving DecidableEq, Repr

/-- `LinearConstraint` -/
structure LRow (α : Type) where
  cs : List α
  xs : List Nat
  rel : LRel
  rhs : α

/-- the row `extract_lp_constraint` pushed to `pending_lp_constraints` when the post was made
(`LinearFloat` / `LinearInt` ASTs with `<=`, `>=`, `==`; coefficients and constant as posted) -/
def Post.astRow : Post α → Option (LRow α)
  | .pend .le cs xs rhs true _ => some ⟨cs, xs, .le, rhs⟩
  | .pend .ge cs xs rhs true _ => some ⟨cs, xs, .ge, rhs⟩
  | .pend .eq cs xs rhs true _ => some ⟨cs, xs, .eq, rhs⟩
  | _ => none

/-- phase 1 of `Propagators::extract_linear_system`: the `FloatLinEq / FloatLinLe` propagator a
post is (props-level) or materialises into (`materialize_constraint_kind`, `LinearFloat` arm:
`>=` negates, `<` / `>` subtract `eps = precision_to_step_size(float_precision_digits)`) -/
def Post.scanRow (eps : α) : Post α → Option (LRow α)
  | .plin isEq cs xs rhs => some ⟨cs, xs, if isEq then .eq else .le, rhs⟩
  | .pend .le cs xs rhs _ true => some ⟨cs, xs, .le, rhs⟩
  | .pend .eq cs xs rhs _ true => some ⟨cs, xs, .eq, rhs⟩
  | .pend .ge cs xs rhs _ true => some ⟨cs.map (fun c => -c), xs, .le, -rhs⟩
  | .pend .lt cs xs rhs _ true => some ⟨cs, xs, .le, rhs - eps⟩
  | .pend .gt cs xs rhs _ true => some ⟨cs.map (fun c => -c), xs, .le, -rhs - eps⟩
  | _ => none

/-- phase 2: `LessThanOrEquals<VarId, VarId>` propagators (`x >= y` is stored as `y <= x`) -/
def Post.leqRow : Post α → Option (LRow α)
  | .cmp .le (.v x) (.v y) => some ⟨[one, -one], [x, y], .le, zero⟩
  | .cmp .ge (.v x) (.v y) => some ⟨[one, -one], [y, x], .le, zero⟩
  | _ => none

/-- the plain-propagator posts come first in the propagator list, the materialised ASTs after them -/
def Post.isPlin : Post α → Bool
  | .plin .. => true
  | _ => false

/-- all rows of the linear system in the order of `search_with_timeout_and_memory` -/
def sysRows (eps : α) (m : OModel α) : List (LRow α) :=
  m.posts.filterMap Post.astRow
  ++ (m.posts.filter Post.isPlin).filterMap (Post.scanRow eps)
  ++ (m.posts.filter (fun p => !p.isPlin)).filterMap (Post.scanRow eps)
  ++ m.posts.filterMap Post.leqRow

/-- `LinearConstraint::to_standard_form` -/
def LRow.std (r : LRow α) : List (List α × α) :=
  match r.rel with
  | .le => [(r.cs, r.rhs)]
  | .ge => [(r.cs.map (fun c => -c), -r.rhs)]
  | .eq => [(r.cs, r.rhs), (r.cs.map (fun c => -c), -r.rhs)]

/-- one row of `A` and its right-hand side: a constant variable moves `coeff * lower` to the
right-hand side, a decision variable gets `row[lp_idx] += coeff` (fix 02fabc4: the coefficients of
a variable that occurs twice add up) -/
def buildRow (vars : List (FVar α)) (cols : List Nat) : List Nat → List α → List α × α → List α × α
  | x :: xs, coeff :: cs, (row, rhs) =>
    let v := vars.getD x (.int [0])
    if isConst v then buildRow vars cols xs cs (row, rhs - coeff * (boundsOf v).1)
    else
      let i := cols.findIdx (fun y => decide (y = x))
      buildRow vars cols xs cs (if i < cols.length then row.set i (row.getD i zero + coeff) else row, rhs)
  | _, _, acc => acc

/-- `LpProblem` as built by `LinearConstraintSystem::to_lp_problem` -/
structure LpP (α : Type) where
  cols : List Nat          -- `lp_index_to_var`
  a : List (List α)
  b : List α
  lo : List α
  hi : List α
  c : List α

/-- `to_lp_problem` on the system of `m` with the objective of the search mode -/
def lpProblem (eps : α) (m : OModel α) (obj : Nat) (minimize : Bool) : LpP α :=
  let rows := sysRows eps m
  let sys := sysVars (rows.map (·.xs))
  let var (v : Nat) : FVar α := m.vars.getD v (.int [0])
  let cols := sys.filter (fun v => !isConst (var v))
  let built := rows.flatMap (fun r => r.std.map (fun (cs, rhs) =>
    buildRow m.vars cols r.xs cs (cols.map (fun _ => zero), rhs)))
  { cols := cols
    a := built.map (·.1)
    b := built.map (·.2)
    lo := cols.map (fun v => (boundsOf (var v)).1)
    hi := cols.map (fun v => (boundsOf (var v)).2)
    c := cols.map (fun v =>
      let c : α := if v = obj then one else zero
      if minimize then -c else c) }

/-- `apply_lp_solution` for a solution with status `Optimal`: `none` = an update failed
(the caller returns `Search::Done(None)`, i.e. `NoSolution`) -/
def applyLpLoop (x : List α) : Nat → List Nat → FCtx α → Option (FCtx α)
  | _, [], c => some c
  | k, v :: rest, c =>
    let lpv := x.getD k zero
    let (lo, hi) := boundsOf (c.st v)
    if lt (abs (hi - lo)) e6 then applyLpLoop x (k + 1) rest c
    else if lt lpv (lo - e6) || gt lpv (hi + e6) then applyLpLoop x (k + 1) rest c
    else
      let c1 : Option (FCtx α) :=
        if gt lpv (lo + e6) then (c.trySetMin v (.f lpv)).map (·.1) else some c
      match c1 with
      | none => none
      | some c1 =>
        let c2 : Option (FCtx α) :=
          if lt lpv (hi - e6) then (c1.trySetMax v (.f lpv)).map (·.1) else some c1
        match c2 with
        | none => none
        | some c2 => applyLpLoop x (k + 1) rest c2

def applyLp (sys : List Nat) (x : List α) (c : FCtx α) : Option (FCtx α) :=
  let nonConst := sys.filter (fun v => !isConst (c.st v))
  if x.length ≠ nonConst.length then some c else applyLpLoop x 0 nonConst c

/-- what the LP solver reported at the root (`lpsolver::solve_with_config`): an input -/
inductive LpReport (α : Type) where
  | infeasible                 -- `Ok` with `LpStatus::Infeasible`
  | optimal (x : List α)       -- `Ok` with `LpStatus::Optimal` and the point
  | okOther                    -- `Ok` with another status: `apply_lp_solution` returns `Some(())` at once
  | err                        -- `Err(_)`: the search continues without LP bounds

/-- result of the LP block of `search_with_timeout_and_memory`: `noSolution` = `Search::Done(None)`;
`continue c applied` = the search goes on from store `c`, `applied` = hook `note_root_lp_applied` -/
inductive RootOutcome (α : Type) where
  | noSolution
  | continue (c : FCtx α) (applied : Bool)

/-- the LP block of `search_with_timeout_and_memory` -/
def rootLpStep (m : OModel α) (obj : Nat) (rep : LpReport α) (c : FCtx α) : RootOutcome α :=
  if rootLpEligible m obj then
    match rep with
    | .infeasible => .noSolution
    | .optimal x =>
      match applyLp (sysVars (lpRows m)) x c with
      | none => .noSolution
      | some c' => .continue c' true
    | .okOther => .continue c true
    | .err => .continue c false
  else .continue c false

end

end Opt
end Selen

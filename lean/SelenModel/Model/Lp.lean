/-
Model of the embedded LP solver `/repo/src/lpsolver/*` — certificate level.

The pivoting rules are modelled in `Model/Simplex.lean` (the floating-point LU is not).  Here:

* `Problem`            — `LpProblem` (max c·x s.t. Ax ≤ b, l ≤ x ≤ u; `none` = +∞ upper bound);
* `validate`           — `LpProblem::validate` (types.rs:176-256), first error in the code's order,
                         on IEEE values (`F64`: finite rational, ±∞, NaN);
* `toStd`              — `PrimalSimplex::to_standard_form` (simplex_primal.rs:113-178): shift by the
                         lower bounds, one slack column per row, one extra row + slack per finite
                         upper bound;
* `toDualStd`          — `DualSimplex::to_standard_form` (simplex_dual.rs:169-192): rows + slacks only,
                         no shift, no upper-bound rows;
* `phase1Std`          — the auxiliary problem of `phase_one` (simplex_primal.rs:212-260): rows with a
                         negative right-hand side negated, identity block of artificials, objective
                         "minimise the artificial sum" written as a maximisation;
* `legalOptimal`       — executable legality checker of a claimed terminal state (basis, x, y);
* `backX`, `backObj`   — the back-transformation of `PrimalSimplex::solve` (lines 94-105);
* `ReturnSite`         — the `Ok(..)` / `Err(..)` return sites of the three entry points with the
                         status they carry;
* `f64ToRat`           — IEEE-754 binary64 bit pattern → exact rational.

All arithmetic is exact (`Rat`).  Vectors are `List Rat`; `dot`, `addv`, … treat a missing
entry as 0, so the bilinear identities hold without length side conditions.
-/
namespace Selen
namespace Lp

abbrev Vec := List Rat
abbrev Mat := List (List Rat)

/-! ### vector operations (missing entries count as 0) -/

def dot : Vec → Vec → Rat
  | a :: as, b :: bs => a * b + dot as bs
  | _, _ => 0

def addv : Vec → Vec → Vec
  | [], b => b
  | a :: as, [] => a :: as
  | a :: as, b :: bs => (a + b) :: addv as bs

def smul (k : Rat) (v : Vec) : Vec := v.map (fun t => k * t)

def negv (v : Vec) : Vec := v.map (fun t => -t)

def subv (a b : Vec) : Vec := addv a (negv b)

def sumv : Vec → Rat
  | [] => 0
  | a :: as => a + sumv as

/-- `A x` (one dot product per row) -/
def matVec (A : Mat) (x : Vec) : Vec := A.map (fun r => dot r x)

/-- `yᵀ A` as a vector indexed by column: `Σᵢ yᵢ · rowᵢ` -/
def vecMat : Vec → Mat → Vec
  | y :: ys, r :: rs => addv (smul y r) (vecMat ys rs)
  | _, _ => []

/-- unit vector of length `n` with a 1 at position `j` (all zero when `j ≥ n`) -/
def unit : Nat → Nat → Vec
  | 0, _ => []
  | n + 1, 0 => 1 :: List.replicate n 0
  | n + 1, j + 1 => 0 :: unit n j

def zeros (n : Nat) : Vec := List.replicate n 0

/-! ### problems -/

structure Problem where
  c : Vec
  a : Mat
  b : Vec
  lo : Vec
  up : List (Option Rat)
  deriving Repr

/-- standard form: maximise `c·z` subject to `A z = b`, `z ≥ 0` -/
structure Std where
  a : Mat
  b : Vec
  c : Vec
  deriving Repr

def Problem.n (P : Problem) : Nat := P.c.length
def Problem.m (P : Problem) : Nat := P.a.length

/-- number of finite upper bounds -/
def nUb : List (Option Rat) → Nat
  | [] => 0
  | some _ :: us => nUb us + 1
  | none :: us => nUb us

/-- dimensions agree and `l ≤ u` (what `validate` establishes for finite data) -/
def boundsOrdered : Vec → List (Option Rat) → Bool
  | l :: ls, some u :: us => decide (l ≤ u) && boundsOrdered ls us
  | _ :: ls, none :: us => boundsOrdered ls us
  | [], [] => true
  | _, _ => false

def Problem.wf (P : Problem) : Bool :=
  decide (P.a.length = P.b.length) && P.a.all (fun r => decide (r.length = P.c.length))
    && decide (P.lo.length = P.c.length) && decide (P.up.length = P.c.length)
    && boundsOrdered P.lo P.up

/-! ### feasibility of the bounded problem -/

/-- `A x ≤ b` row by row (`tol` = allowed excess) -/
def rowsLe (tol : Rat) : Mat → Vec → Vec → Bool
  | r :: rs, b :: bs, x => decide (dot r x ≤ b + tol) && rowsLe tol rs bs x
  | [], [], _ => true
  | _, _, _ => false

def boundsOk (tol : Rat) : Vec → List (Option Rat) → Vec → Bool
  | l :: ls, some u :: us, x :: xs => decide (l - tol ≤ x) && decide (x ≤ u + tol) && boundsOk tol ls us xs
  | l :: ls, none :: us, x :: xs => decide (l - tol ≤ x) && boundsOk tol ls us xs
  | [], [], [] => true
  | _, _, _ => false

def feasibleTol (tol : Rat) (P : Problem) (x : Vec) : Bool :=
  rowsLe tol P.a P.b x && boundsOk tol P.lo P.up x

def feasible (P : Problem) (x : Vec) : Bool := feasibleTol 0 P x

/-! ### `to_standard_form` of the primal solver -/

/-- rows `rᵢ ++ e_{i}` (slack / artificial identity block of width `mp`, starting at column `i`) -/
def rows1 (mp : Nat) : Nat → Mat → Mat
  | _, [] => []
  | i, r :: rs => (r ++ unit mp i) :: rows1 mp (i + 1) rs

/-- `bᵢ − Σⱼ aᵢⱼ lⱼ` -/
def bAdj (lo : Vec) : Mat → Vec → Vec
  | r :: rs, b :: bs => (b - dot r lo) :: bAdj lo rs bs
  | _, _ => []

/-- one row `e_j ++ e_k` per finite upper bound (`j` = variable, `k` = its slack in the block) -/
def ubRows (n mp : Nat) : Nat → Nat → List (Option Rat) → Vec → Mat
  | j, k, some _ :: us, _ :: ls => (unit n j ++ unit mp k) :: ubRows n mp (j + 1) (k + 1) us ls
  | j, k, none :: us, _ :: ls => ubRows n mp (j + 1) k us ls
  | _, _, _, _ => []

def ubRhs : List (Option Rat) → Vec → Vec
  | some u :: us, l :: ls => (u - l) :: ubRhs us ls
  | none :: us, _ :: ls => ubRhs us ls
  | _, _ => []

def toStd (P : Problem) : Std :=
  let n := P.c.length
  let m := P.a.length
  let mp := m + nUb P.up
  { a := rows1 mp 0 P.a ++ ubRows n mp 0 m P.up P.lo
    b := bAdj P.lo P.a P.b ++ ubRhs P.up P.lo
    c := P.c ++ zeros mp }

/-- back-transformation `x = x' + l` of the first `n` standard-form variables -/
def backX (P : Problem) (z : Vec) : Vec := addv (z.take P.c.length) P.lo

/-- reported objective `c·x' + c·l` -/
def backObj (P : Problem) (z : Vec) : Rat := dot (toStd P).c z + dot P.c P.lo

/-- row slacks `bᵢ − aᵢ·x` -/
def slack1 : Mat → Vec → Vec → Vec
  | r :: rs, b :: bs, x => (b - dot r x) :: slack1 rs bs x
  | _, _, _ => []

/-- upper-bound slacks `uⱼ − xⱼ` (finite `uⱼ` only) -/
def slack2 : List (Option Rat) → Vec → Vec
  | some u :: us, x :: xs => (u - x) :: slack2 us xs
  | none :: us, _ :: xs => slack2 us xs
  | _, _ => []

/-- the standard-form point of a point of the bounded problem: `(x − l, row slacks, bound slacks)` -/
def embed (P : Problem) (x : Vec) : Vec :=
  subv x P.lo ++ (slack1 P.a P.b x ++ slack2 P.up x)

/-- the slack basis of the standard form is primal feasible: Phase I is skipped
(`phase_one`, simplex_primal.rs:189-204) -/
def noPhaseOne (tol : Rat) (P : Problem) : Bool :=
  (toStd P).b.all (fun v => decide (-tol ≤ v))

/-! ### `to_standard_form` of the dual solver -/

def toDualStd (P : Problem) : Std :=
  { a := rows1 P.a.length 0 P.a
    b := P.b
    c := P.c ++ zeros P.a.length }

/-- the dual solver's standard form has no bounds: it is the bounded problem only when
`l = 0` and `u = +∞` -/
def dualFormGuard (P : Problem) : Bool :=
  P.lo.all (fun l => decide (l = 0)) && P.up.all (fun u => u.isNone)

/-! ### the Phase-I auxiliary problem -/

def flipRows : Mat → Vec → Mat
  | r :: rs, b :: bs => (if b < 0 then negv r else r) :: flipRows rs bs
  | _, _ => []

def absv (b : Vec) : Vec := b.map (fun v => if v < 0 then -v else v)

/-- `[A± | I] (z, t) = |b|`, maximise `−Σ t` -/
def phase1Std (S : Std) : Std :=
  { a := rows1 S.a.length 0 (flipRows S.a S.b)
    b := absv S.b
    c := zeros S.c.length ++ List.replicate S.a.length (-1) }

/-! ### feasibility of a standard form -/

def allGe (tol : Rat) (x : Vec) : Bool := x.all (fun v => decide (-tol ≤ v))

def stdFeasible (S : Std) (z : Vec) : Bool :=
  decide (z.length = S.c.length) && allGe 0 z && decide (matVec S.a z = S.b)

/-- rows have the width of `c`, one right-hand side per row -/
def Std.wf (S : Std) : Bool :=
  decide (S.a.length = S.b.length) && S.a.all (fun r => decide (r.length = S.c.length))

/-! ### the legality checker of a terminal state -/

/-- column-wise conditions: reduced cost `rⱼ = 0` on basic columns, `rⱼ ≤ otol ∧ xⱼ = 0` on
non-basic columns, `xⱼ ≥ −ftol` everywhere; both lists must have the same length -/
def checkCols (basis : List Nat) (ftol otol : Rat) : Nat → Vec → Vec → Bool
  | j, r :: rs, x :: xs =>
    (if basis.contains j then decide (r = 0) else (decide (r ≤ otol) && decide (x = 0)))
      && decide (-ftol ≤ x) && checkCols basis ftol otol (j + 1) rs xs
  | _, [], [] => true
  | _, _, _ => false

def basisOk (m n : Nat) (basis : List Nat) : Bool :=
  decide (basis.length = m) && basis.all (fun j => decide (j < n)) && decide basis.Nodup

/-- reduced costs `c − yᵀA` -/
def redCosts (S : Std) (y : Vec) : Vec := subv S.c (vecMat y S.a)

/-- `basis` has `m` distinct columns, `A x = b` with `x_N = 0` (so `A_B x_B = b`), `x ≥ −ftol`,
`yᵀA_B = c_Bᵀ`, `c_j − yᵀA_j ≤ otol` for the non-basic columns -/
def legalOptimal (S : Std) (ftol otol : Rat) (basis : List Nat) (x y : Vec) : Bool :=
  basisOk S.a.length S.c.length basis
    && decide (x.length = S.c.length) && decide (y.length = S.a.length)
    && decide (matVec S.a x = S.b)
    && checkCols basis ftol otol 0 (redCosts S y) x

/-! ### `validate` on IEEE values -/

inductive F64 where
  | fin (q : Rat)
  | pinf
  | ninf
  | nan
  deriving Repr, DecidableEq

def F64.isFinite : F64 → Bool
  | .fin _ => true
  | _ => false

/-- IEEE `a > b` (false when either is NaN) -/
def F64.gt : F64 → F64 → Bool
  | .nan, _ => false
  | _, .nan => false
  | .pinf, .pinf => false
  | .pinf, _ => true
  | _, .pinf => false
  | .ninf, _ => false
  | .fin _, .ninf => true
  | .fin a, .fin b => decide (b < a)

inductive ValidateErr where
  | objectiveDim | constraintCount | rowDim (row : Nat) | rhsDim | lowerDim | upperDim
  | bounds (var : Nat) | objectiveNotFinite | matrixNotFinite | rhsNotFinite
  deriving Repr, DecidableEq

structure RawProblem where
  nVars : Nat
  nCons : Nat
  c : List F64
  a : List (List F64)
  b : List F64
  lo : List F64
  up : List F64

/-- index of the first element satisfying `p` -/
def findIdx (p : α → Bool) : List α → Nat → Option Nat
  | [], _ => none
  | x :: xs, i => if p x then some i else findIdx p xs (i + 1)

def firstBadBound : List F64 → List F64 → Nat → Option Nat
  | l :: ls, u :: us, i => if F64.gt l u then some i else firstBadBound ls us (i + 1)
  | _, _, _ => none

/-- `LpProblem::validate`: the first failing check, in the code's order -/
def validate (R : RawProblem) : Option ValidateErr :=
  if R.c.length ≠ R.nVars then some .objectiveDim
  else if R.a.length ≠ R.nCons then some .constraintCount
  else match findIdx (fun r => decide (r.length ≠ R.nVars)) R.a 0 with
  | some i => some (.rowDim i)
  | none =>
    if R.b.length ≠ R.nCons then some .rhsDim
    else if R.lo.length ≠ R.nVars then some .lowerDim
    else if R.up.length ≠ R.nVars then some .upperDim
    else match firstBadBound R.lo R.up 0 with
    | some i => some (.bounds i)
    | none =>
      if R.c.any (fun v => !v.isFinite) then some .objectiveNotFinite
      else if R.a.any (fun r => r.any (fun v => !v.isFinite)) then some .matrixNotFinite
      else if R.b.any (fun v => !v.isFinite) then some .rhsNotFinite
      else none

/-! ### return sites and the statuses they carry -/

inductive Status where
  | optimal | infeasible | unbounded | iterationLimit | numericalError
  deriving Repr, DecidableEq

/-- every `return` of `PrimalSimplex::solve` (with `phase_one`, `phase_two`) and
`DualSimplex::solve`: `Ok` sites carry a status, `Err` sites carry none -/
inductive ReturnSite where
  | validateErr            -- `problem.validate()?`
  | factorizeErr           -- `?` on factorize / solve_basic / compute_reduced_costs
  | phase1ArtificialsLeft  -- simplex_primal.rs:384  Err(NumericalInstability)
  | phase1Positive         -- simplex_primal.rs:390  Err(NumericalInstability)  ("problem is infeasible")
  | phase1Unbounded        -- simplex_primal.rs:442
  | phase1NoEntering       -- simplex_primal.rs:458
  | phase1MaxIter          -- simplex_primal.rs:517
  | timeout | memory
  | phase2IterLimit        -- simplex_primal.rs:565  Ok(IterationLimit)
  | phase2Optimal          -- simplex_primal.rs:583  Ok(Optimal)
  | phase2NoEntering       -- simplex_primal.rs:594  Err
  | phase2Unbounded        -- simplex_primal.rs:615  Ok(Unbounded)
  | dualNoBasis            -- simplex_dual.rs:74     Err
  | dualOptimal            -- simplex_dual.rs:116    Ok(Optimal)
  | dualNoLeaving          -- simplex_dual.rs:206    Err
  | dualNoEntering         -- simplex_dual.rs:241    Err
  | dualMaxIter            -- simplex_dual.rs:165    Err
  deriving Repr, DecidableEq

def ReturnSite.status : ReturnSite → Option Status
  | .phase2IterLimit => some .iterationLimit
  | .phase2Optimal => some .optimal
  | .phase2Unbounded => some .unbounded
  | .dualOptimal => some .optimal
  | _ => none

/-- statuses some `Ok` site can carry -/
def Status.reachable (s : Status) : Bool :=
  s = .optimal || s = .unbounded || s = .iterationLimit

/-! ### binary64 bit pattern → value -/

def f64OfBits (bits : Nat) : F64 :=
  let sign : Nat := bits / 2 ^ 63 % 2
  let e : Nat := bits / 2 ^ 52 % 2048
  let mant : Nat := bits % 2 ^ 52
  if e = 2047 then
    if mant = 0 then (if sign = 1 then .ninf else .pinf) else .nan
  else
    let mag : Rat :=
      if e = 0 then mkRat (Int.ofNat mant) (2 ^ 1074)
      else if e ≥ 1075 then mkRat (Int.ofNat ((mant + 2 ^ 52) * 2 ^ (e - 1075))) 1
      else mkRat (Int.ofNat (mant + 2 ^ 52)) (2 ^ (1075 - e))
    .fin (if sign = 1 then -mag else mag)

def f64ToRat (bits : Nat) : Option Rat :=
  match f64OfBits bits with
  | .fin q => some q
  | _ => none

end Lp
end Selen

/-
Model of the fluent-API lowering (`src/runtime_api/mod.rs`): smart constructors of `ExprBuilder`,
`post_constraint_kind` (immediate `Var==Var` bound intersection, immediate `Var==Val`
materialisation, linearisation `try_convert_to_linear_ast` / `try_extract_linear_form`, deferral),
and `materialize_constraint_kind` with `get_expr_var` / `post_expression_constraint` (auxiliary
variables `int(-1000,1000)`), for integer-valued trees.

The result is an `IModel`-like description: variable domains (user variables first, then the
auxiliary ones in creation order) and the list of lowered propagators `LP`, which the driver
prints in the same text form as Rust's `Debug` for the real propagators.
-/
import SelenModel.Model.IntCore

namespace Selen

inductive Expr where
  | var (i : Nat)
  | val (k : Int)
  | add (a b : Expr)
  | sub (a b : Expr)
  | mul (a b : Expr)
  | div (a b : Expr)
  | mod (a b : Expr)
deriving Repr, DecidableEq

inductive CmpOp where | eq | ne | lt | le | gt | ge
deriving Repr, DecidableEq

inductive Con where
  | bin (l : Expr) (op : CmpOp) (r : Expr)
  | and (a b : Con)
  | or (a b : Con)
  | not (a : Con)
deriving Repr

def CmpOp.neg : CmpOp → CmpOp
  | .eq => .ne | .ne => .eq | .lt => .ge | .le => .gt | .gt => .le | .ge => .lt

/-- `Constraint::not` (since fix 7500ca2): the negation of a comparison is the complementary
comparison, a double negation cancels, anything else is wrapped in a `Not` node -/
def Con.mkNot : Con → Con
  | .bin l op r => .bin l op.neg r
  | .not c => c
  | c => .not c

namespace Expr

/-- `ExprBuilder::add/sub/mul/div/modulo` (constant folding, `*1`, `/1`); `none` when the builder
would produce a float constant (integer / integer folds to a float) -/
def mkAdd : Expr → Expr → Expr
  | .val a, .val b => .val (a + b)
  | a, b => .add a b
def mkSub : Expr → Expr → Expr
  | .val a, .val b => .val (a - b)
  | a, b => .sub a b
def mkMul : Expr → Expr → Expr
  | .val a, .val b => .val (a * b)
  | a, .val 1 => a
  | .val 1, b => b
  | a, b => .mul a b
def mkDiv : Expr → Expr → Option Expr
  | .val _, .val _ => none
  | a, .val 1 => some a
  | a, b => some (.div a b)
def mkMod (a b : Expr) : Expr := .mod a b

/-- rebuild a written tree with the smart constructors (what the user's method calls do) -/
def build : Expr → Option Expr
  | .var i => some (.var i)
  | .val k => some (.val k)
  | .add a b => do let a ← build a; let b ← build b; pure (mkAdd a b)
  | .sub a b => do let a ← build a; let b ← build b; pure (mkSub a b)
  | .mul a b => do let a ← build a; let b ← build b; pure (mkMul a b)
  | .div a b => do let a ← build a; let b ← build b; mkDiv a b
  | .mod a b => do let a ← build a; let b ← build b; pure (mkMod a b)

def isVar : Expr → Bool
  | .var _ => true
  | _ => false

/-- all variables of the tree are below `n` (in the integer model every declared variable is an
integer variable and every literal an integer literal, so this is `is_int_expr` of
`runtime_api/mod.rs` with `n = model.vars.count()`) -/
def varsLt (n : Nat) : Expr → Bool
  | .var i => decide (i < n)
  | .val _ => true
  | .add a b => varsLt n a && varsLt n b
  | .sub a b => varsLt n a && varsLt n b
  | .mul a b => varsLt n a && varsLt n b
  | .div a b => varsLt n a && varsLt n b
  | .mod a b => varsLt n a && varsLt n b

/-- linear form `(coefficients, variables, constant)`, repeated variables merged
(`try_extract_linear_form`) -/
def addTerm (cs : List Int) (xs : List Nat) (x : Nat) (c : Int) (f : Int → Int → Int) : List Int × List Nat :=
  match xs.idxOf? x with
  | some i => (cs.set i (f (cs.getD i 0) c), xs)
  | none => (cs ++ [f 0 c], xs ++ [x])

def extractLinear : Expr → Option (List Int × List Nat × Int)
  | .var i => some ([1], [i], 0)
  | .val k => some ([], [], k)
  | .mul (.var i) (.val k) => some ([k], [i], 0)
  | .mul (.val k) (.var i) => some ([k], [i], 0)
  | .mul _ _ => none
  | .add a b =>
    match extractLinear a, extractLinear b with
    | some (lc, lx, lk), some (rc, rx, rk) =>
      let (cs, xs) := (List.zip rx rc).foldl (fun (acc : List Int × List Nat) (p : Nat × Int) =>
        addTerm acc.1 acc.2 p.1 p.2 (fun a b => a + b)) (lc, lx)
      some (cs, xs, lk + rk)
    | _, _ => none
  | .sub a b =>
    match extractLinear a, extractLinear b with
    | some (lc, lx, lk), some (rc, rx, rk) =>
      let (cs, xs) := (List.zip rx rc).foldl (fun (acc : List Int × List Nat) (p : Nat × Int) =>
        addTerm acc.1 acc.2 p.1 p.2 (fun a b => a - b)) (lc, lx)
      some (cs, xs, lk - rk)
    | _, _ => none
  | .div _ _ => none
  | .mod _ _ => none

/-- the arithmetic reading (`none`: division by zero or inexact quotient) -/
def eval (a : Nat → Int) : Expr → Option Int
  | .var i => some (a i)
  | .val k => some k
  | .add x y => do let p ← eval a x; let q ← eval a y; pure (p + q)
  | .sub x y => do let p ← eval a x; let q ← eval a y; pure (p - q)
  | .mul x y => do let p ← eval a x; let q ← eval a y; pure (p * q)
  | .div x y => do
    let p ← eval a x; let q ← eval a y
    if q = 0 then none else if Int.tmod p q ≠ 0 then none else pure (Int.tdiv p q)
  | .mod x y => do
    let p ← eval a x; let q ← eval a y
    if q = 0 then none else pure (Int.tmod p q)

end Expr

def CmpOp.holds : CmpOp → Int → Int → Bool
  | .eq, x, y => x == y
  | .ne, x, y => x != y
  | .lt, x, y => decide (x < y)
  | .le, x, y => decide (x ≤ y)
  | .gt, x, y => decide (x > y)
  | .ge, x, y => decide (x ≥ y)

/-- the relation a constraint tree denotes -/
def Con.eval (a : Nat → Int) : Con → Option Bool
  | .bin l op r => do let x ← l.eval a; let y ← r.eval a; pure (op.holds x y)
  | .and p q => do let x ← Con.eval a p; let y ← Con.eval a q; pure (x && y)
  | .or p q => do let x ← Con.eval a p; let y ← Con.eval a q; pure (x || y)
  | .not p => do let x ← Con.eval a p; pure (!x)

/-- lowered propagators, as the real `Propagators` holds them after `prepare_for_search` -/
inductive LP where
  | eqVV (x y : Nat)                 -- Eq { x: VarId, y: VarId }
  | eqKV (k : Int) (y : Nat)         -- Eq { x: ValI(k), y: VarId }
  | neVV (x y : Nat)                 -- NotEquals
  | leVV (x y : Nat)                 -- LessThanOrEquals { x, y }
  | ltVV (x y : Nat)                 -- LessThanOrEquals { x: Next(x), y }
  | addVV (x y s : Nat)              -- Add { x, y, s }
  | subVV (x y s : Nat)              -- Add { x, y: TimesPos(x: Opposite(y), scale: ValI(1)), s }
  | mulVV (x y s : Nat)
  | divVV (x y s : Nat)
  | modVV (x y s : Nat)
  | linEq (cs : List Int) (xs : List Nat) (c : Int)
  | linLe (cs : List Int) (xs : List Nat) (c : Int)
  | linNe (cs : List Int) (xs : List Nat) (c : Int)
  | reif (op : CmpOp) (x y b : Nat)  -- IntEqReif / IntNeReif / IntLtReif / IntLeReif / IntGtReif / IntGeReif { x, y, b }
  | boolOr (ops : List Nat) (r : Nat) -- BoolOr { operands, result }
deriving Repr

/-- pending entries of `Model::pending_constraint_asts` -/
inductive Pending where
  | ast (c : Con)
  | lin (cs : List Int) (xs : List Nat) (op : CmpOp) (k : Int)

structure LModel where
  doms : List Dom := []
  props : List LP := []
  pending : List Pending := []
  /-- a debug assertion of the code was hit while posting (`min()` on an empty domain inside
  `apply_var_eq_bounds`; recorded finding `empty-domain-view-panic`) -/
  panicked : Bool := false

namespace LModel

def newVar (m : LModel) (d : Dom) : LModel × Nat :=
  ({ m with doms := m.doms ++ [d] }, m.doms.length)

def post (m : LModel) (p : LP) : LModel := { m with props := m.props ++ [p] }

def rangeDom (lo hi : Int) : Dom := SS.intRange lo (hi + 1)

def auxDom : Dom := rangeDom (-1000) 1000

def setDom (m : LModel) (i : Nat) (d : Dom) : LModel := { m with doms := m.doms.set i d }

/-- comparison of two variables by `op` (the arms shared by the general case, `post_var_val` and
`post_val_var`) -/
def postCmp (m : LModel) (op : CmpOp) (l r : Nat) : LModel :=
  match op with
  | .eq => m.post (.eqVV l r)
  | .ne => m.post (.neVV l r)
  | .lt => m.post (.ltVV l r)
  | .le => m.post (.leVV l r)
  | .gt => m.post (.ltVV r l)     -- greater_than(l, r) = r.next() <= l
  | .ge => m.post (.leVV r l)

/-- `create_result_var` -/
def createResultVar (m : LModel) : Expr → LModel × Nat
  | .var i => (m, i)
  | _ => m.newVar auxDom

/-- `post_expression_constraint` -/
def postExpr (m : LModel) : Expr → Nat → LModel
  | .var v, res => m.post (.eqVV v res)
  | .val k, res => m.post (.eqKV k res)
  | .add l r, res =>
    let (m1, lv) := m.createResultVar l
    let (m2, rv) := m1.createResultVar r
    let m3 := if l.isVar then m2 else postExpr m2 l lv
    let m4 := if r.isVar then m3 else postExpr m3 r rv
    m4.post (.addVV lv rv res)
  | .sub l r, res =>
    let (m1, lv) := m.createResultVar l
    let (m2, rv) := m1.createResultVar r
    let m3 := if l.isVar then m2 else postExpr m2 l lv
    let m4 := if r.isVar then m3 else postExpr m3 r rv
    m4.post (.subVV lv rv res)
  | .mul l r, res =>
    let (m1, lv) := m.createResultVar l
    let (m2, rv) := m1.createResultVar r
    let m3 := if l.isVar then m2 else postExpr m2 l lv
    let m4 := if r.isVar then m3 else postExpr m3 r rv
    m4.post (.mulVV lv rv res)
  | .div l r, res =>
    let (m1, lv) := m.createResultVar l
    let (m2, rv) := m1.createResultVar r
    let m3 := if l.isVar then m2 else postExpr m2 l lv
    let m4 := if r.isVar then m3 else postExpr m3 r rv
    m4.post (.divVV lv rv res)
  | .mod l r, res =>
    let (m1, lv) := m.createResultVar l
    let (m2, rv) := m1.createResultVar r
    let m3 := if l.isVar then m2 else postExpr m2 l lv
    let m4 := if r.isVar then m3 else postExpr m3 r rv
    m4.post (.modVV lv rv res)

/-- `get_expr_var` -/
def getExprVar (m : LModel) : Expr → LModel × Nat
  | .var i => (m, i)
  | .val k => m.newVar [k]
  | e =>
    let (m1, res) := m.newVar auxDom
    (postExpr m1 e res, res)

def negAll (cs : List Int) : List Int := cs.map (fun c => -c)

/-- the `LinearInt` arm of `materialize_constraint_kind` -/
def materializeLin (m : LModel) (cs : List Int) (xs : List Nat) (op : CmpOp) (k : Int) : LModel :=
  match op with
  | .eq => m.post (.linEq cs xs k)
  | .le => m.post (.linLe cs xs k)
  | .ne => m.post (.linNe cs xs k)
  | .ge => m.post (.linLe (negAll cs) xs (-k))
  | .gt => m.post (.linLe (negAll cs) xs (-k - 1))
  | .lt => m.post (.linLe cs xs (k - 1))

/-- the `ReifiedBinary` arm of `materialize_constraint_kind`: `b ⇔ (l op r)`; both operands go
through `get_expr_var` (no `Var op Val` shortcut, no immediate domain edit) -/
def postReif (m : LModel) (l : Expr) (op : CmpOp) (r : Expr) (b : Nat) : LModel :=
  let (m1, lv) := m.getExprVar l
  let (m2, rv) := m1.getExprVar r
  m2.post (.reif op lv rv b)

/-- the domain of `model.bool()` = `int(0, 1)` -/
def boolDom : Dom := rangeDom 0 1

/-- `c1.or(c2)` on two comparisons over integer operands (since the repair `fix: or of two
comparisons is a disjunction`): two fresh booleans and a constant `1` (in this order), the two
reified comparisons, `BoolOr([b1, b2]) = one` -/
def reifOr (m : LModel) (l1 : Expr) (op1 : CmpOp) (r1 : Expr) (l2 : Expr) (op2 : CmpOp) (r2 : Expr) : LModel :=
  let (m1, b1) := m.newVar boolDom
  let (m2, b2) := m1.newVar boolDom
  let (m3, one) := m2.newVar [1]
  let m4 := m3.postReif l1 op1 r1 b1
  let m5 := m4.postReif l2 op2 r2 b2
  m5.post (.boolOr [b1, b2] one)

/-- `is_int_expr` on the four operands of the two comparisons -/
def intOperands (m : LModel) (l1 r1 l2 r2 : Expr) : Bool :=
  l1.varsLt m.doms.length && r1.varsLt m.doms.length && l2.varsLt m.doms.length && r2.varsLt m.doms.length

/-- the special case of the `Or` arm: `x == p or x == q` on ONE variable -/
def sameVarEq : Expr → CmpOp → Expr → Expr → CmpOp → Expr → Option (Nat × Int × Int)
  | .var x, .eq, .val p, .var y, .eq, .val q => if x = y then some (x, p, q) else none
  | _, _, _, _, _, _ => none

/-- `materialize_constraint_kind` for `Binary` / `And` / `Or` / `Not` -/
def materialize (m : LModel) : Con → LModel
  | .bin l op r =>
    /- immediate domain edit for Var == Val / Val == Var -/
    let m0 :=
      match op, l, r with
      | .eq, .var v, .val k => m.setDom v ((m.doms.getD v []).filter (· == k))
      | .eq, .val k, .var v => m.setDom v ((m.doms.getD v []).filter (· == k))
      | _, _, _ => m
    match l, r with
    | .var v, .val k =>
      let (m1, kv) := m0.newVar [k]
      m1.postCmp op v kv
    | .val k, .var v =>
      let (m1, kv) := m0.newVar [k]
      m1.postCmp op kv v
    | _, _ =>
      let (m1, lv) := m0.getExprVar l
      let (m2, rv) := m1.getExprVar r
      m2.postCmp op lv rv
  | .and a b => materialize (materialize m a) b
  | .or a b =>
    match a, b with
    | .bin l1 op1 r1, .bin l2 op2 r2 =>
      match sameVarEq l1 op1 r1 l2 op2 r2 with
      | some (x, p, q) =>
        /- `x == p or x == q`: a fresh set variable unified with `x` -/
        let d : Dom := if p = q then [p] else if p < q then [p, q] else [q, p]
        let (m1, dv) := m.newVar d
        m1.post (.eqVV x dv)
      | none =>
        /- two comparisons: reified disjunction (integer operands); otherwise, and for every other
        shape, still "both constraints are posted" (finding `or-lowered-as-and`) -/
        if m.intOperands l1 r1 l2 r2 then m.reifOr l1 op1 r1 l2 op2 r2
        else materialize (materialize m a) b
    | _, _ => materialize (materialize m a) b
  | .not a => materialize m a

/-- `apply_var_eq_bounds` -/
def applyVarEqBounds (m : LModel) (a b : Nat) : LModel :=
  let da := m.doms.getD a []
  let db := m.doms.getD b []
  if da.isEmpty || db.isEmpty then { m with panicked := true } else
  let lo := if da.dmin > db.dmin then da.dmin else db.dmin
  let hi := if da.dmax < db.dmax then da.dmax else db.dmax
  if lo ≤ hi then
    (m.setDom a (da.filter (fun v => decide (lo ≤ v) && decide (v ≤ hi)))).setDom b
      (db.filter (fun v => decide (lo ≤ v) && decide (v ≤ hi)))
  else m

/-- `try_convert_to_linear_ast` on a `Binary` node -/
def linearise (l : Expr) (op : CmpOp) (r : Expr) : Option Pending :=
  match l.extractLinear, r.extractLinear with
  | some (lc, lx, lk), some (rc, rx, rk) =>
    let (cs, xs) := (List.zip rx rc).foldl (fun (acc : List Int × List Nat) (p : Nat × Int) =>
      Expr.addTerm acc.1 acc.2 p.1 p.2 (fun a b => a - b)) (lc, lx)
    some (.lin cs xs op (-(lk - rk)))
  | _, _ => none

/-- `post_constraint_kind` (`m.new(c)`) -/
def postCon (m : LModel) (c : Con) : LModel :=
  match c with
  | .bin l op r =>
    let m0 := match op, l, r with
      | .eq, .var a, .var b => m.applyVarEqBounds a b
      | _, _, _ => m
    let immediate := match op, l, r with
      | .eq, .var _, .val _ => true
      | .eq, .val _, .var _ => true
      | _, _, _ => false
    if immediate then m0.materialize c
    else match linearise l op r with
      | some p => { m0 with pending := m0.pending ++ [p] }
      | none => { m0 with pending := m0.pending ++ [.ast c] }
  | _ => { m with pending := m.pending ++ [.ast c] }

/-- `materialize_pending_asts` -/
def lower (m : LModel) : LModel :=
  let m' := m.pending.foldl (fun acc p =>
    match p with
    | .ast c => acc.materialize c
    | .lin cs xs op k => acc.materializeLin cs xs op k) { m with pending := [] }
  m'

/-- the divisor variable of a `Div` / `Modulo` propagator -/
def divisorOf : LP → Option Nat
  | .divVV _ y _ => some y
  | .modVV _ y _ => some y
  | _ => none

/-- `ModelValidator::validate`, the part that applies to integer fluent models: an empty
variable domain is reported as `InvalidDomain` (`validate_variable_domains`), a `Div` / `Modulo`
propagator whose divisor variable can be zero as `InvalidConstraint`
(`validate_constraint_parameters`) -/
def validateErr (m : LModel) : Option String :=
  if m.doms.any (·.isEmpty) then some "InvalidDomain"
  else if m.props.any (fun p => match divisorOf p with
      | some y => (m.doms.getD y []).contains 0
      | none => false) then some "InvalidConstraint"
  else none

end LModel

/-- the comparison kind of the reified propagator `int_<op>_reif` -/
def CmpOp.toCmp : CmpOp → Cmp
  | .eq => .eq | .ne => .ne | .lt => .lt | .le => .le | .gt => .gt | .ge => .ge

/-- the propagator kind of the integer core a lowered propagator stands for -/
def LP.toPK : LP → PK
  | .eqVV x y => .eq (.var x) (.var y)
  | .eqKV k y => .eq (.const k) (.var y)
  | .neVV x y => .neq (.var x) (.var y)
  | .leVV x y => .leq (.var x) (.var y)
  | .ltVV x y => .leq (.next (.var x)) (.var y)
  | .addVV x y s => .add (.var x) (.var y) s
  | .subVV x y s => .add (.var x) (IView.timesNeg (.var y) (-1)) s
  | .mulVV x y s => .mul (.var x) (.var y) s
  | .divVV _ _ _ => .noop
  | .modVV x y s => .modulo (.var x) (.var y) s
  | .linEq cs xs c => .linEq cs xs c
  | .linLe cs xs c => .linLe cs xs c
  | .linNe cs xs c => .linNe cs xs c
  | .reif op x y b => .reif op.toCmp x y b
  | .boolOr ops r => .boolOr ops r

def LP.supported : LP → Bool
  | .divVV _ _ _ => false
  | _ => true

end Selen

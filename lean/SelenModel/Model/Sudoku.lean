/-
Model of the specialised layer of `src/solvers/sudoku.rs` (struct `SudokuSolver`).

What the Rust code does, and what is modelled here:

* `SudokuSolver::new(puzzle)`: one variable per cell (`int(v,v)` for a clue `v ≠ 0`, `int(1,9)`
  for an empty cell), 27 `alldiff`, and a candidate table.  `SudokuCandidateSet::single(v)` has a
  `debug_assert!(1 ≤ v ≤ 9)`: in the debug profile (the one the harness is built with) `new`
  PANICS on a clue outside `1..=9`  →  `new g = none`.
* the candidate table (`SudokuCandidateSet`, a 9-bit mask) is modelled as the ascending list of
  its digits; mask equality = list equality, `len` = `length`, `single_candidate` (lowest set
  bit) = head, `remove(d)` = `filter (· ≠ d)` + "was present".
* `update_candidates` recomputes the candidates of EMPTY cells from the CLUES ONLY
  (`is_candidate_valid` reads `original_puzzle`), clue cells keep their singleton.
* `apply_advanced_techniques`: naked singles, hidden singles (rows, columns, boxes) post
  `cell == d`; naked pairs only edits the candidate table; if anything made progress the table
  is recomputed from the clues (so the edits of naked pairs are thrown away).
* `solve`: `while apply_advanced_techniques() && it < 10 { it += 1 }`, then the general solver
  (NOT modelled here — see Props/C18.lean for how the theorems are stated relative to it); its
  answer is an input of the model (`GenAnswer`), `solveResult` is what `solve` makes of it.
* `verify_solution`.

The three `find_naked_pairs_in_{row,column,box}` functions are one function here (`pairsUnit`),
parameterised by the cell list of the unit: all three enumerate the pairs `i < j` of EMPTY cells
of the unit in lexicographic order with the same tests in the same order (the row/column versions
skip clue cells with `continue`, the box version filters them out first; the row/column outer
loop stops at index 7, which only omits an iteration whose inner loop is empty).  The
correspondence check compares every single removal (`sd.tech`, `sd.solve` events of kind 4–6).

Every event the hook `verif_hooks::sudoku_event` records is an `Ev`:
kind 0 naked single, 1/2/3 hidden single in a row/column/box (posted `cell == digit`),
kind 4/5/6 candidate removed by naked pairs in a row/column/box.

Import-free on purpose: this file is linked into the `selen_model` driver.
-/

namespace Selen
namespace Sudoku

/-- clue grid / solution grid: `g row col`; only `row, col < 9` are ever read. `0` = empty. -/
abbrev Grid := Nat → Nat → Int

/-- candidate table: the digits of the bit mask of a cell, ascending -/
abbrev Cands := Nat → Nat → List Int

def Grid.ofArray (a : Array Int) : Grid := fun r c => a.getD (9 * r + c) 0

def digits : List Int := [1, 2, 3, 4, 5, 6, 7, 8, 9]

/-- `is_candidate_valid` (reads the clues only). The early `return false`s make the result the
conjunction of the three scans. -/
def isCandidateValid (g : Grid) (row col : Nat) (d : Int) : Bool :=
  (List.range 9).all (fun c => !(c != col && g row c == d)) &&
  (List.range 9).all (fun r => !(r != row && g r col == d)) &&
  (List.range 3).all (fun i => (List.range 3).all (fun j =>
    !((row / 3 * 3 + i != row || col / 3 * 3 + j != col) &&
      g (row / 3 * 3 + i) (col / 3 * 3 + j) == d)))

/-- all clues are `0` or in `1..=9` (otherwise `SudokuCandidateSet::single` panics, debug profile) -/
def inRange (g : Grid) : Bool :=
  (List.range 9).all fun r => (List.range 9).all fun c =>
    g r c == 0 || (decide (1 ≤ g r c) && decide (g r c ≤ 9))

/-- candidates of an empty cell as computed by `update_candidates` -/
def clueCands (g : Grid) (r c : Nat) : List Int := digits.filter (isCandidateValid g r c)

/-- a tabulated candidate table.  Evaluation speed only: `(table f).get = f` (the function is
kept for the arguments outside the 9×9 range, which are never read at run time). -/
structure Table where
  arr : Array (List Int)
  f : Cands

def Table.get (t : Table) : Cands :=
  fun r c => if r < 9 ∧ c < 9 then t.arr.getD (9 * r + c) [] else t.f r c

def table (f : Cands) : Table :=
  ⟨((List.range 81).map (fun i => f (i / 9) (i % 9))).toArray, f⟩

/-- `update_candidates` -/
def updateCandidates (g : Grid) (cs : Cands) : Cands :=
  fun r c => if g r c = 0 then clueCands g r c else cs r c

/-- the table after `SudokuSolver::new` -/
def initCands (g : Grid) : Cands :=
  fun r c => if g r c = 0 then clueCands g r c else [g r c]

/-- `SudokuSolver::new`: `none` = panic (debug profile) -/
def new (g : Grid) : Option Table :=
  if inRange g then some (table (initCands g)) else none

structure Ev where
  kind : Nat
  row : Nat
  col : Nat
  digit : Int
deriving DecidableEq, Repr

def rowCells (r : Nat) : List (Nat × Nat) := (List.range 9).map fun c => (r, c)
def colCells (c : Nat) : List (Nat × Nat) := (List.range 9).map fun r => (r, c)
def boxCells (br bc : Nat) : List (Nat × Nat) :=
  (List.range 3).flatMap fun i => (List.range 3).map fun j => (br * 3 + i, bc * 3 + j)

/-- `apply_naked_singles` -/
def nakedSingles (g : Grid) (cs : Cands) : List Ev :=
  (List.range 9).flatMap fun r => (List.range 9).filterMap fun c =>
    if g r c = 0 ∧ (cs r c).length = 1 then some ⟨0, r, c, (cs r c).headD 0⟩ else none

/-- one unit of `apply_hidden_singles`: for every digit, the empty cells of the unit that still
have it as a candidate; exactly one → post -/
def hiddenUnit (g : Grid) (cs : Cands) (kind : Nat) (u : List (Nat × Nat)) : List Ev :=
  digits.flatMap fun d =>
    match u.filter (fun p => g p.1 p.2 == 0 && (cs p.1 p.2).contains d) with
    | [p] => [⟨kind, p.1, p.2, d⟩]
    | _ => []

/-- `apply_hidden_singles`: rows, then columns, then boxes -/
def hiddenSingles (g : Grid) (cs : Cands) : List Ev :=
  ((List.range 9).flatMap fun r => hiddenUnit g cs 1 (rowCells r)) ++
  ((List.range 9).flatMap fun c => hiddenUnit g cs 2 (colCells c)) ++
  ((List.range 3).flatMap fun br => (List.range 3).flatMap fun bc => hiddenUnit g cs 3 (boxCells br bc))

/-! ### naked pairs -/

/-- state threaded through `apply_naked_pairs`: table, `progress`, removals (newest first) -/
structure PSt where
  cs : Cands
  prog : Bool
  log : List Ev

def updC (cs : Cands) (r c : Nat) (x : List Int) : Cands :=
  fun r' c' => if r' = r ∧ c' = c then x else cs r' c'

/-- `if self.candidates[row][col].remove(digit) { progress = true; }` -/
def removeDigit (kind : Nat) (p : Nat × Nat) (st : PSt) (d : Int) : PSt :=
  if (st.cs p.1 p.2).contains d then
    { cs := updC st.cs p.1 p.2 ((st.cs p.1 p.2).filter (fun x => x != d)),
      prog := true,
      log := ⟨kind, p.1, p.2, d⟩ :: st.log }
  else st

/-- a pair was found at `p1`,`p2`: remove its digits from the other empty cells of the unit -/
def eliminate (kind : Nat) (cells : List (Nat × Nat)) (p1 p2 : Nat × Nat) (pair : List Int)
    (st : PSt) : PSt :=
  cells.foldl (fun st p => if p != p1 && p != p2 then pair.foldl (removeDigit kind p) st else st) st

def pairInner (kind : Nat) (cells : List (Nat × Nat)) (p1 : Nat × Nat) (rest : List (Nat × Nat))
    (st : PSt) : PSt :=
  rest.foldl (fun st p2 =>
    if (st.cs p2.1 p2.2).length != 2 then st
    else if st.cs p1.1 p1.2 == st.cs p2.1 p2.2 then
      eliminate kind cells p1 p2 (st.cs p1.1 p1.2) st
    else st) st

def pairOuter (kind : Nat) (cells : List (Nat × Nat)) : List (Nat × Nat) → PSt → PSt
  | [], st => st
  | p1 :: rest, st =>
    pairOuter kind cells rest
      (if (st.cs p1.1 p1.2).length != 2 then st else pairInner kind cells p1 rest st)

/-- `find_naked_pairs_in_{row,column,box}` on the unit with cell list `u` -/
def pairsUnit (g : Grid) (kind : Nat) (u : List (Nat × Nat)) (st : PSt) : PSt :=
  let cells := u.filter (fun p => g p.1 p.2 == 0)
  pairOuter kind cells cells st

/-- `apply_naked_pairs` -/
def nakedPairs (g : Grid) (cs : Cands) : PSt :=
  let st0 : PSt := ⟨cs, false, []⟩
  let st1 := (List.range 9).foldl (fun st r => pairsUnit g 4 (rowCells r) st) st0
  let st2 := (List.range 9).foldl (fun st c => pairsUnit g 5 (colCells c) st) st1
  (List.range 3).foldl (fun st br =>
    (List.range 3).foldl (fun st bc => pairsUnit g 6 (boxCells br bc) st) st) st2

/-- `apply_advanced_techniques`: (made_progress, events in program order, table afterwards) -/
def applyAdvanced (g : Grid) (cs : Cands) : Bool × List Ev × Cands :=
  let s1 := nakedSingles g cs
  let s2 := hiddenSingles g cs
  let p := nakedPairs g cs
  let prog := !s1.isEmpty || !s2.isEmpty || p.prog
  (prog, s1 ++ s2 ++ p.log.reverse, if prog then updateCandidates g p.cs else p.cs)

/-- `while self.apply_advanced_techniques() && technique_iterations < 10 { technique_iterations += 1 }`
with `n = 10 - technique_iterations` -/
def loop (g : Grid) : Nat → Table → List Ev → Table × List Ev
  | 0, t, log =>
    let r := applyAdvanced g t.get
    (table r.2.2, log ++ r.2.1)
  | n + 1, t, log =>
    let r := applyAdvanced g t.get
    if r.1 then loop g n (table r.2.2) (log ++ r.2.1) else (table r.2.2, log ++ r.2.1)

/-- everything `SudokuSolver::new(g).solve()` does before it calls the general solver:
the recorded events (`none` = `new` panicked) -/
def solveEvents (g : Grid) : Option (List Ev) :=
  match new g with
  | none => none
  | some t => some (loop g 10 t []).2

/-- the `cell == digit` constraints posted before the general solver runs, in posting order -/
def posted (evs : List Ev) : List Ev := evs.filter (fun e => e.kind ≤ 3)

def solvePosted (g : Grid) : Option (List Ev) := (solveEvents g).map posted

/-- what `self.model.solve()` (the general solver, not modelled) answered inside
`SudokuSolver::solve`: `Ok(sol)` or one of the `SolverError`s -/
inductive GenAnswer where
  | ok (s : Grid)
  | noSolution
  | timeout
  | memoryLimit
  | conflicting
  | otherErr

/-- the end of `solve`: `match solution { Ok(sol) => Some(grid), Err(_) => None }` — every error,
including the resource limits of `Model::default()` (60 s, 2 GB), becomes `None` -/
def solveResult : GenAnswer → Option Grid
  | .ok s => some s
  | _ => none

/-! ### `verify_solution` -/

/-- the `seen` array scan of one unit: `false` as soon as a value repeats -/
def noDupSeen : List Int → List Int → Bool
  | [], _ => true
  | v :: vs, seen => if seen.contains v then false else noDupSeen vs (v :: seen)

def unitOk (s : Grid) (u : List (Nat × Nat)) : Bool := noDupSeen (u.map fun p => s p.1 p.2) []

/-- `SudokuSolver::verify_solution` -/
def verifySolution (s : Grid) : Bool :=
  ((List.range 9).all fun r => (List.range 9).all fun c => decide (1 ≤ s r c) && decide (s r c ≤ 9)) &&
  ((List.range 9).all fun r => unitOk s (rowCells r)) &&
  ((List.range 9).all fun c => unitOk s (colCells c)) &&
  ((List.range 3).all fun br => (List.range 3).all fun bc => unitOk s (boxCells br bc))

/-! ### decidable membership in the posted constraint set (used by the driver for `sd.result`) -/

/-- `s` is inside the variable domains created by `new`: `{v}` for a clue `v`, `1..9` otherwise -/
def inDomains (g s : Grid) : Bool :=
  (List.range 9).all fun r => (List.range 9).all fun c =>
    if g r c = 0 then decide (1 ≤ s r c) && decide (s r c ≤ 9) else s r c == g r c

def allUnitsOk (s : Grid) : Bool :=
  ((List.range 9).all fun r => unitOk s (rowCells r)) &&
  ((List.range 9).all fun c => unitOk s (colCells c)) &&
  ((List.range 3).all fun br => (List.range 3).all fun bc => unitOk s (boxCells br bc))

/-- `s` satisfies domains ∧ 27 all-different ∧ posted singles -/
def solPosted (g : Grid) (post : List Ev) (s : Grid) : Bool :=
  inDomains g s && allUnitsOk s && post.all (fun e => s e.row e.col == e.digit)

/-! ### reference search (NOT a model of any Rust code)

A plain most-constrained-cell backtracking search over arrays, used by the driver as the
referee for the `Some`/`None` verdict of `sd.result`.  Proved in Props/C18.lean: `found s` only
for valid completions (`search_sound`), `nosol` only if the clues have no completion
(`search_complete`); `fuel` = don't know. -/

inductive SRes where
  | found (a : Array Int)
  | nosol
  | fuel

/-- clue cells are pairwise consistent and in range -/
def cluesConsistent (g : Grid) : Bool :=
  (List.range 9).all fun r => (List.range 9).all fun c =>
    g r c == 0 || (decide (1 ≤ g r c) && decide (g r c ≤ 9) && isCandidateValid g r c (g r c))

/-- empty cell with the fewest candidates -/
def pickCell (a : Array Int) : Option (Nat × List Int) :=
  (List.range 81).foldl (fun best i =>
    if a.getD i 0 != 0 then best
    else
      let cs := clueCands (Grid.ofArray a) (i / 9) (i % 9)
      match best with
      | none => some (i, cs)
      | some (_, bcs) => if cs.length < bcs.length then some (i, cs) else best) none

def tryAll (rec : Nat → Array Int → SRes × Nat) (a : Array Int) (i : Nat) :
    List Int → Nat → SRes × Nat
  | [], fuel => (.nosol, fuel)
  | d :: ds, fuel =>
    match rec fuel (a.setIfInBounds i d) with
    | (.nosol, f) => tryAll rec a i ds f
    | r => r

def dfs : Nat → Nat → Array Int → SRes × Nat
  | 0, fuel, _ => (.fuel, fuel)
  | depth + 1, fuel, a =>
    if fuel = 0 then (.fuel, 0)
    else
      match pickCell a with
      | none => (.found a, fuel - 1)
      | some (i, cs) => tryAll (fun f a' => dfs depth f a') a i cs (fuel - 1)

def agrees (g s : Grid) : Bool :=
  (List.range 9).all fun r => (List.range 9).all fun c => g r c == 0 || s r c == g r c

/-- does the clue array admit a completion? -/
def search (a : Array Int) (fuel : Nat) : SRes :=
  if !cluesConsistent (Grid.ofArray a) then .nosol
  else
    match (dfs 82 fuel a).1 with
    | .found s =>
      if verifySolution (Grid.ofArray s) && agrees (Grid.ofArray a) (Grid.ofArray s) then .found s
      else .fuel
    | r => r

end Sudoku
end Selen

/-
Model of the SEARCH over float / mixed stores (`src/search/{mod,branch}.rs`, `Var::mid`,
`Var::is_assigned`, `Var::get_assignment` of `src/variables/core.rs`), written once against `Num`
like `Model/FloatCore.lean`: the driver runs it at `Float` (bit-exact with the code), the theorems
are stated at `Rat`.

* `FPK.triggers`      — `list_trigger_vars` of the float propagators.
* `fpropagate`        — `search::propagate` over `FPK` propagators: FIFO agenda without duplicates
                        (`Agenda`, shared with the integer engine: `schedule`, `Policy`), one
                        `prune` per pop with a fresh event list, every event schedules the
                        dependants of the variable.  The number of `prune` calls is threaded through
                        (`Propagators::propagation_count`, visible in the `Solution` statistics).
* `FVar.isAssigned`   — `Var::is_assigned`: a float variable counts as assigned as soon as
                        `step_count() <= 1`, i.e. `round((max-min)/step) <= 1` (width below 1.5 steps).
* `FVar.mid`          — `Var::mid`: `FloatInterval::mid` (`min + round(((max-min)/2)/step)*step`,
                        clamped) resp. `min + (max-min)/2` for integers.
* `fexplore`/`fbranchStep` — `split_on_unassigned` + `Engine::next`: binary split of the FIRST
                        unassigned variable, left branch `pivot <= mid` first, then
                        `pivot > mid`, which is posted as `Next(mid) <= pivot`.  For a float `mid`
                        `Next(ValF mid)` is `mid` itself (`Next::min_raw` on a constant: "return
                        unchanged for floats without interval info"), so the right branch of a float
                        split is `pivot >= mid`: the two branches overlap in `mid`.
                        The trail of `branch.rs` is never written (`push_change` has no caller), the
                        right branch starts from the clone taken before the left constraint is posted.
* `fsolve`            — `search_with_timeout_and_memory(.., Enumerate, ..).next()` without the root LP
                        step (no objective): root propagation with every propagator scheduled, then
                        the first leaf of the depth-first search.  The value reported for a float
                        variable is the MINIMUM of its final interval (`Var::get_assignment`).

Two fuels: `pf` bounds the number of `prune` calls of one propagation, the other the depth of the
search (two units per level, as in `Model/Engine.lean`).  `Engine::next` tests its limits outside
the descent loop, so a descent that makes no progress never ends in the code: the model reports
`.fuel` for it.
-/
import SelenModel.Model.FloatCore
import SelenModel.Model.Engine

namespace Selen
open Num

namespace FPK
variable {α : Type} [Num α]

/-- `list_trigger_vars` -/
def triggers : FPK α → List Nat
  | .leq x y => x.underlying.toList ++ y.underlying.toList
  | .eq x y => x.underlying.toList ++ y.underlying.toList
  | .linEq _ xs _ => xs
  | .linLe _ xs _ => xs
  | .linNe _ xs _ => xs
  | .linEqReif _ xs _ b => xs ++ [b]
  | .linLeReif _ xs _ b => xs ++ [b]
  | .linNeReif _ xs _ b => xs ++ [b]

end FPK

section
variable {α : Type} [Num α]

/-- `Propagators.dependencies[v]` -/
def fdeps (ps : List (FPK α)) (v : Nat) : List Nat :=
  (List.range ps.length).filter (fun p =>
    match ps[p]? with
    | some k => decide (v ∈ k.triggers)
    | none => false)

/-- a store tabulated on its first variables -/
def FStore.ofArray (arr : Array (FVar α)) (rest : FStore α) : FStore α :=
  fun i => if h : i < arr.size then arr[i] else rest i

/-- `FStore.ofArray (FStore.tab n st) st` is the identity on stores (`FStore.ofArray_tab` in
Lemmas/FloatEngine.lean): it re-tabulates the first `n` variables, so that in the native driver a
lookup does not walk through one `updF` closure per update made so far.  (The table is bound by a
`let` in `fpropagate`, so it is built once, when the closure is created.) -/
def FStore.tab (n : Nat) (st : FStore α) : Array (FVar α) := (Array.range n).map st

inductive FPRes (α : Type) where
  | fail
  | fuel
  | ok (st : FStore α) (count : Nat)

/-- `search::propagate`; `cnt` = `propagation_count` so far (`n` is only used to re-tabulate the
store, see `FStore.tab`; a propagator id outside `ps` cannot be scheduled and is skipped) -/
def fpropagate (n : Nat) (ps : List (FPK α)) (pol : Policy) : Nat → List Nat → FStore α → Nat → FPRes α
  | 0, _, _, _ => .fuel
  | f+1, q, st, cnt =>
    match pol.pick q with
    | none => .ok st cnt
    | some (p, q') =>
      match ps[p]? with
      | none => fpropagate n ps pol f q' st (cnt + 1)
      | some k =>
        match k.prune { st := st, ev := [] } with
        | none => .fail
        | some c =>
          let tab := FStore.tab n c.st
          fpropagate n ps pol f (c.ev.foldl (fun q v => scheduleAll q (fdeps ps v)) q')
            (FStore.ofArray tab c.st) (cnt + 1)

/-- `Var::is_assigned` -/
def FVar.isAssigned : FVar α → Bool
  | .flt iv => iv.isFixed
  | .int d => d.length == 1

/-- `Var::mid` (`none` = the `clamp` assertion of `round_to_step` fires) -/
def FVar.mid : FVar α → Option (FVal α)
  | .flt iv => iv.mid.map FVal.f
  | .int d => some (.i (if d.isEmpty then 0 else ilmin d + (ilmax d - ilmin d) / 2))

/-- `Var::get_assignment` -/
def FVar.value : FVar α → FVal α
  | .flt iv => .f iv.min
  | .int d => .i (ilmin d)

/-- `Vars::get_unassigned_var` over the first `n` variables -/
def ffirstUnassigned (n : Nat) (st : FStore α) : Option Nat :=
  (List.range n).find? (fun i => !(st i).isAssigned)

/-- the assignment of a `Solution` -/
def fsolOf (n : Nat) (st : FStore α) : List (FVal α) := (List.range n).map (fun i => (st i).value)

/-- left branch of `SplitOnUnassigned`: `pivot <= mid` -/
def branchL (pivot : Nat) (mid : FVal α) : FPK α := .leq (.var pivot) (.const mid)
/-- right branch: `pivot > mid`, posted as `Next(mid) <= pivot` -/
def branchR (pivot : Nat) (mid : FVal α) : FPK α := .leq (.next (.const mid)) (.var pivot)

inductive FRes (α : Type) where
  /-- a leaf: final store, `propagation_count`, `node_count` -/
  | sol (st : FStore α) (pc nc : Nat)
  | nosol
  /-- the depth fuel ran out (the code would still be descending) -/
  | fuel
  /-- a propagation ran out of its fuel `pf` -/
  | pfuel
  /-- `f64::clamp` assertion in `FloatInterval::mid` -/
  | panic

mutual
/-- one branch inside `Engine::next`: post the branch constraint, propagate with only it
scheduled, then yield, descend or discard -/
def fbranchStep (n : Nat) (pol : Policy) (pf : Nat) :
    Nat → List (FPK α) → FStore α → Nat → Nat → FPK α → FRes α
  | 0, _, _, _, _, _ => .fuel
  | f+1, ps, st, pc, nc, bp =>
    match fpropagate n (ps ++ [bp]) pol pf [ps.length] st pc with
    | .fail => .nosol
    | .fuel => .pfuel
    | .ok st' pc' =>
      match ffirstUnassigned n st' with
      | none => .sol st' pc' nc
      | some _ => fexplore n pol pf f (ps ++ [bp]) st' pc' nc
/-- explore a stalled space: first leaf, left branch first.  `node_count` is incremented once by
the branch iterator and once by the engine for the left branch; the right branch starts from a
clone that already carries the iterator's first increment. -/
def fexplore (n : Nat) (pol : Policy) (pf : Nat) :
    Nat → List (FPK α) → FStore α → Nat → Nat → FRes α
  | 0, _, _, _, _ => .fuel
  | f+1, ps, st, pc, nc =>
    match ffirstUnassigned n st with
    | none => .nosol
    | some pivot =>
      match (st pivot).mid with
      | none => .panic
      | some mid =>
        match fbranchStep n pol pf f ps st pc (nc + 2) (branchL pivot mid) with
        | .nosol => fbranchStep n pol pf f ps st pc (nc + 3) (branchR pivot mid)
        | r => r
end

/-- first solution of the search (root LP step off, mode `Enumerate`) -/
def fsolve (n : Nat) (pol : Policy) (pf fuel : Nat) (ps : List (FPK α)) (st : FStore α) : FRes α :=
  match fpropagate n ps pol pf (List.range ps.length) st 0 with
  | .fail => .nosol
  | .fuel => .pfuel
  | .ok st' pc =>
    match ffirstUnassigned n st' with
    | none => .sol st' pc 0
    | some _ => fexplore n pol pf fuel ps st' pc 0

end

end Selen

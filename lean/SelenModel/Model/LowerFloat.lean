/-
Model of the fluent-API lowering (`src/runtime_api/mod.rs`) WITH FLOAT OPERANDS: float variables
(`m.float(lo, hi)`), float literals (`float(c)`), integer literals on float variables and vice
versa.  It extends `Model/Lower.lean` (integer trees only) and is written once against `Num`
(`Model/Num.lean`): the native driver instantiates it at `Float` (the same IEEE binary64 arithmetic
as Rust's `f64`: every coefficient operation of the code is one `+`, `-`, unary `-`, `*`, `/` or an
`i32 as f64` conversion, all correctly rounded and therefore bit-identical), the theorems
instantiate it at `Rat` (exact arithmetic).  A literal / coefficient is `FVal α`
(`Model/FloatCore.lean`): `.i k` = `Val::ValI(k)` / `LinearCoefficient::Int(k)`,
`.f x` = `Val::ValF(x)` / `LinearCoefficient::Float(x)`.

Why `Num` and not bit patterns: the same definitions must be (1) executed bit-exactly and
(2) reasoned about; with `Num` there is ONE definition of `add_coefficients`, … whose `Float`
instance is compared with the code line by line (suite `lower --float`) and whose `Rat` instance
is what `Props/C10.lean` talks about.  IEEE rounding is outside the theorems.

Covered: `ExprBuilder::{add,sub,mul,div,modulo}` (constant folding through `Val`'s mixed
arithmetic, `*1`, `/1`), `try_extract_linear_form` with every arm of `add_coefficients` /
`subtract_coefficients` / `negate_coefficient`, the INTEGER-vs-FLOAT decision of
`try_convert_to_linear_ast` (taken from the coefficient KINDS, never from the variable types),
`post_constraint_kind`, `materialize_constraint_kind` (`LinearInt`, `LinearFloat` with the
strictness epsilon `precision_to_step_size(6) = 1e-6`, `post_var_val_constraint`,
`post_val_var_constraint` with float singleton variables, `get_expr_var`,
`post_expression_constraint`), `apply_var_eq_bounds` (integer variables only), validation of the
variable domains.

Import-free apart from Model files (linked into `selen_model`).
-/
import SelenModel.Model.Lower
import SelenModel.Model.FloatCore

namespace Selen
open Num

/-! ### `Val` / `LinearCoefficient` helpers -/

namespace FVal
variable {α : Type} [Num α]

/-- `matches!(c, LinearCoefficient::Int(_))` -/
def isI : FVal α → Bool
  | .i _ => true
  | .f _ => false

/-- `match c { Int(i) => i, _ => 0 }` -/
def toI : FVal α → Int
  | .i v => v
  | .f _ => 0

/-- the divisor test of `impl Div for Val`: an integer `0`, or a float with `|b| < f64::EPSILON`
(`ulp 0 = f64::EPSILON` at `Float`; at `Rat` only zero itself) -/
def zeroish : FVal α → Bool
  | .i b => b == 0
  | .f b => lt (abs b) (ulp (zero : α)) || feq b zero

/-- `Val / Val`: always a float quotient (`a as f64 / b as f64` in all four arms); `none` when the
divisor is "zero" (the code then folds to `±inf`, which this model does not follow) -/
def vdiv (a b : FVal α) : Option (FVal α) :=
  if b.zeroish then none else some (.f (a.toF / b.toF))

def finite : FVal α → Bool
  | .i _ => true
  | .f x => isFinite x

end FVal

/-! ### expression and constraint trees -/

inductive FExpr (α : Type) where
  | var (i : Nat)
  | val (v : FVal α)
  | add (a b : FExpr α)
  | sub (a b : FExpr α)
  | mul (a b : FExpr α)
  | div (a b : FExpr α)
  | mod (a b : FExpr α)

inductive FCon (α : Type) where
  | bin (l : FExpr α) (op : CmpOp) (r : FExpr α)
  | and (a b : FCon α)
  | or (a b : FCon α)
  | not (a : FCon α)

namespace FExpr
variable {α : Type} [Num α]

/-- `ExprBuilder::add`: two constants are folded with `Val + Val` -/
def mkAdd : FExpr α → FExpr α → FExpr α
  | .val a, .val b => .val (a.add b)
  | a, b => .add a b

/-- `ExprBuilder::sub` -/
def mkSub : FExpr α → FExpr α → FExpr α
  | .val a, .val b => .val (a.sub b)
  | a, b => .sub a b

/-- `ExprBuilder::mul`: fold, then `* int(1)` / `int(1) *` identities (`as_int() == Some(1)`: the
float literal `1.0` is NOT an identity) -/
def mkMul : FExpr α → FExpr α → FExpr α
  | .val a, .val b => .val (a.mul b)
  | a, .val (.i 1) => a
  | .val (.i 1), b => b
  | a, b => .mul a b

/-- `ExprBuilder::div`: two constants fold to a FLOAT constant; `/ int(1)` identity -/
def mkDiv : FExpr α → FExpr α → Option (FExpr α)
  | .val a, .val b => (a.vdiv b).map .val
  | a, .val (.i 1) => some a
  | a, b => some (.div a b)

def mkMod (a b : FExpr α) : FExpr α := .mod a b

/-- rebuild a written tree with the smart constructors (what the user's method calls do) -/
def build : FExpr α → Option (FExpr α)
  | .var i => some (.var i)
  | .val k => some (.val k)
  | .add a b => do let a ← build a; let b ← build b; pure (mkAdd a b)
  | .sub a b => do let a ← build a; let b ← build b; pure (mkSub a b)
  | .mul a b => do let a ← build a; let b ← build b; pure (mkMul a b)
  | .div a b => do let a ← build a; let b ← build b; mkDiv a b
  | .mod a b => do let a ← build a; let b ← build b; pure (mkMod a b)

/-- every literal of the tree is finite (trees with `inf` / NaN literals are not followed) -/
def finite : FExpr α → Bool
  | .var _ => true
  | .val v => v.finite
  | .add a b => finite a && finite b
  | .sub a b => finite a && finite b
  | .mul a b => finite a && finite b
  | .div a b => finite a && finite b
  | .mod a b => finite a && finite b

def isVar : FExpr α → Bool
  | .var _ => true
  | _ => false

/-- one step of the merging loops of `try_extract_linear_form` / `try_convert_to_linear_ast`:
`sub = false`: `add_coefficients(old, c)` resp. push `c`;
`sub = true`: `subtract_coefficients(old, c)` resp. push `negate_coefficient(c)` -/
def caddTerm (cs : List (FVal α)) (xs : List Nat) (x : Nat) (c : FVal α) (sub : Bool) :
    List (FVal α) × List Nat :=
  match xs.idxOf? x with
  | some i => (cs.set i (if sub then (cs.getD i (.i 0)).sub c else (cs.getD i (.i 0)).add c), xs)
  | none => (cs ++ [if sub then c.neg else c], xs ++ [x])

/-- merge the terms `(rc, rx)` into `(lc, lx)` -/
def mergeTerms (sub : Bool) (lc : List (FVal α)) (lx : List Nat) (rc : List (FVal α)) (rx : List Nat) :
    List (FVal α) × List Nat :=
  (List.zip rx rc).foldl (fun (acc : List (FVal α) × List Nat) (p : Nat × FVal α) =>
    caddTerm acc.1 acc.2 p.1 p.2 sub) (lc, lx)

/-- `try_extract_linear_form`: `(coefficients, variables, constant)` with their KINDS -/
def extractLinear : FExpr α → Option (List (FVal α) × List Nat × FVal α)
  | .var i => some ([.i 1], [i], .i 0)
  | .val v => some ([], [], v)
  | .mul (.var i) (.val v) => some ([v], [i], .i 0)
  | .mul (.val v) (.var i) => some ([v], [i], .i 0)
  | .mul _ _ => none
  | .add a b =>
    match extractLinear a, extractLinear b with
    | some (lc, lx, lk), some (rc, rx, rk) =>
      let r := mergeTerms false lc lx rc rx
      some (r.1, r.2, lk.add rk)
    | _, _ => none
  | .sub a b =>
    match extractLinear a, extractLinear b with
    | some (lc, lx, lk), some (rc, rx, rk) =>
      let r := mergeTerms true lc lx rc rx
      some (r.1, r.2, lk.sub rk)
    | _, _ => none
  | .div _ _ => none
  | .mod _ _ => none

/-- truncation toward zero of a quotient (`fmod` semantics of Rust's `%`) -/
def truncN (x : α) : α := if ge x zero then floor x else ceil x

/-- the arithmetic reading of a tree at an assignment of numbers (`none`: division / remainder by
zero).  `/` is the real quotient (the builder's `Val / Val` is a float division even between
integer literals), `mod` is the remainder of the truncated quotient. -/
def evalN (a : Nat → α) : FExpr α → Option α
  | .var i => some (a i)
  | .val v => some v.toF
  | .add x y => do let p ← evalN a x; let q ← evalN a y; pure (p + q)
  | .sub x y => do let p ← evalN a x; let q ← evalN a y; pure (p - q)
  | .mul x y => do let p ← evalN a x; let q ← evalN a y; pure (p * q)
  | .div x y => do
    let p ← evalN a x; let q ← evalN a y
    if feq q zero then none else pure (p / q)
  | .mod x y => do
    let p ← evalN a x; let q ← evalN a y
    if feq q zero then none else pure (p - q * truncN (p / q))

end FExpr

/-- comparison of two numbers -/
def CmpOp.holdsN {α : Type} [Num α] : CmpOp → α → α → Bool
  | .eq, x, y => feq x y
  | .ne, x, y => !(feq x y)
  | .lt, x, y => Num.lt x y
  | .le, x, y => Num.le x y
  | .gt, x, y => Num.lt y x
  | .ge, x, y => Num.le y x

namespace FCon
variable {α : Type} [Num α]

/-- the relation a constraint tree denotes -/
def evalN (a : Nat → α) : FCon α → Option Bool
  | .bin l op r => do let x ← l.evalN a; let y ← r.evalN a; pure (op.holdsN x y)
  | .and p q => do let x ← evalN a p; let y ← evalN a q; pure (x && y)
  | .or p q => do let x ← evalN a p; let y ← evalN a q; pure (x || y)
  | .not p => do let x ← evalN a p; pure (!x)

/-- `Constraint::not` (since fix 7500ca2), as `Con.mkNot` -/
def mkNot : FCon α → FCon α
  | .bin l op r => .bin l op.neg r
  | .not c => c
  | c => .not c

/-- rebuild every expression of a constraint tree with the smart constructors -/
def build : FCon α → Option (FCon α)
  | .bin l op r => do let l ← l.build; let r ← r.build; pure (.bin l op r)
  | .and a b => do let a ← build a; let b ← build b; pure (.and a b)
  | .or a b => do let a ← build a; let b ← build b; pure (.or a b)
  | .not a => do let a ← build a; pure (mkNot a)

def finite : FCon α → Bool
  | .bin l _ r => l.finite && r.finite
  | .and a b => finite a && finite b
  | .or a b => finite a && finite b
  | .not a => finite a

end FCon

/-! ### the lowered model -/

/-- variable domains: `Var::VarI` (as a duplicate-free sorted list) or `Var::VarF` (`min`, `max`;
the step is `precision_to_step_size(6)` for every variable and is not dumped) -/
inductive FDom (α : Type) where
  | int (d : Dom)
  | flt (lo hi : α)

/-- lowered propagators, as the real `Propagators` holds them after `prepare_for_search` -/
inductive FLP (α : Type) where
  | eqVV (x y : Nat)                 -- Eq { x: VarId, y: VarId }
  | eqKV (k : FVal α) (y : Nat)      -- Eq { x: ValI(k) / ValF(k), y: VarId }
  | neVV (x y : Nat)                 -- NotEquals
  | leVV (x y : Nat)                 -- LessThanOrEquals { x, y }
  | ltVV (x y : Nat)                 -- LessThanOrEquals { x: Next(x), y }
  | addVV (x y s : Nat)
  | subVV (x y s : Nat)
  | mulVV (x y s : Nat)
  | divVV (x y s : Nat)
  | modVV (x y s : Nat)
  | linEq (cs : List Int) (xs : List Nat) (c : Int)    -- IntLinEq
  | linLe (cs : List Int) (xs : List Nat) (c : Int)    -- IntLinLe
  | linNe (cs : List Int) (xs : List Nat) (c : Int)    -- IntLinNe
  | flinEq (cs : List α) (xs : List Nat) (c : α)       -- FloatLinEq
  | flinLe (cs : List α) (xs : List Nat) (c : α)       -- FloatLinLe
  | flinNe (cs : List α) (xs : List Nat) (c : α)       -- FloatLinNe
  | reif (op : CmpOp) (x y b : Nat)                    -- IntEqReif … IntGeReif { x, y, b }
  | boolOr (ops : List Nat) (r : Nat)                  -- BoolOr { operands, result }

/-- pending entries of `Model::pending_constraint_asts` -/
inductive FPending (α : Type) where
  | ast (c : FCon α)
  | lin (cs : List Int) (xs : List Nat) (op : CmpOp) (k : Int)      -- ConstraintKind::LinearInt
  | flin (cs : List α) (xs : List Nat) (op : CmpOp) (k : α)         -- ConstraintKind::LinearFloat

structure FLModel (α : Type) where
  doms : List (FDom α) := []
  props : List (FLP α) := []
  pending : List (FPending α) := []
  /-- a debug assertion of the code was hit while posting (`min()` on an empty integer domain
  inside `apply_var_eq_bounds`; recorded finding `empty-domain-view-panic`) -/
  panicked : Bool := false

namespace FLModel
variable {α : Type} [Num α]

def newVar (m : FLModel α) (d : FDom α) : FLModel α × Nat :=
  ({ m with doms := m.doms ++ [d] }, m.doms.length)

def post (m : FLModel α) (p : FLP α) : FLModel α := { m with props := m.props ++ [p] }

def auxDom : FDom α := .int LModel.auxDom

/-- `model.int(i, i)` / `model.float(f, f)` -/
def single : FVal α → FDom α
  | .i k => .int [k]
  | .f x => .flt x x

def setDom (m : FLModel α) (i : Nat) (d : FDom α) : FLModel α := { m with doms := m.doms.set i d }

/-- comparison of two variables by `op` (shared by the general case, `post_var_val_constraint` and
`post_val_var_constraint`); the same views for integer and float variables -/
def postCmp (m : FLModel α) (op : CmpOp) (l r : Nat) : FLModel α :=
  match op with
  | .eq => m.post (.eqVV l r)
  | .ne => m.post (.neVV l r)
  | .lt => m.post (.ltVV l r)
  | .le => m.post (.leVV l r)
  | .gt => m.post (.ltVV r l)     -- greater_than(l, r) = r.next() <= l
  | .ge => m.post (.leVV r l)

/-- `create_result_var`: ALWAYS an integer variable `-1000..1000`, also below float operands -/
def createResultVar (m : FLModel α) : FExpr α → FLModel α × Nat
  | .var i => (m, i)
  | _ => m.newVar auxDom

/-- `post_expression_constraint` -/
def postExpr (m : FLModel α) : FExpr α → Nat → FLModel α
  | .var v, res => m.post (.eqVV v res)
  | .val k, res => m.post (.eqKV k res)
  | .add l r, res =>
    let (m1, lv) := m.createResultVar l
    let (m2, rv) := m1.createResultVar r
    let m3 := if l.isVar then m2 else postExpr m2 l lv
    let m4 := if r.isVar then m3 else postExpr m3 r rv
    m4.post (.addVV lv rv res)
  | .sub l r, res =>
    let (m1, lv) := m.createResultVar l
    let (m2, rv) := m1.createResultVar r
    let m3 := if l.isVar then m2 else postExpr m2 l lv
    let m4 := if r.isVar then m3 else postExpr m3 r rv
    m4.post (.subVV lv rv res)
  | .mul l r, res =>
    let (m1, lv) := m.createResultVar l
    let (m2, rv) := m1.createResultVar r
    let m3 := if l.isVar then m2 else postExpr m2 l lv
    let m4 := if r.isVar then m3 else postExpr m3 r rv
    m4.post (.mulVV lv rv res)
  | .div l r, res =>
    let (m1, lv) := m.createResultVar l
    let (m2, rv) := m1.createResultVar r
    let m3 := if l.isVar then m2 else postExpr m2 l lv
    let m4 := if r.isVar then m3 else postExpr m3 r rv
    m4.post (.divVV lv rv res)
  | .mod l r, res =>
    let (m1, lv) := m.createResultVar l
    let (m2, rv) := m1.createResultVar r
    let m3 := if l.isVar then m2 else postExpr m2 l lv
    let m4 := if r.isVar then m3 else postExpr m3 r rv
    m4.post (.modVV lv rv res)

/-- `get_expr_var`: a constant becomes a singleton variable of ITS kind -/
def getExprVar (m : FLModel α) : FExpr α → FLModel α × Nat
  | .var i => (m, i)
  | .val k => m.newVar (single k)
  | e =>
    let (m1, res) := m.newVar auxDom
    (postExpr m1 e res, res)

/-- the `LinearInt` arm of `materialize_constraint_kind` -/
def materializeLin (m : FLModel α) (cs : List Int) (xs : List Nat) (op : CmpOp) (k : Int) : FLModel α :=
  match op with
  | .eq => m.post (.linEq cs xs k)
  | .le => m.post (.linLe cs xs k)
  | .ne => m.post (.linNe cs xs k)
  | .ge => m.post (.linLe (LModel.negAll cs) xs (-k))
  | .gt => m.post (.linLe (LModel.negAll cs) xs (-k - 1))
  | .lt => m.post (.linLe cs xs (k - 1))

def negAllF (cs : List α) : List α := cs.map (fun c => -c)

/-- the `LinearFloat` arm of `materialize_constraint_kind`; strict comparisons move the constant by
`epsilon = precision_to_step_size(float_precision_digits) = 1e-6` -/
def materializeFLin (m : FLModel α) (cs : List α) (xs : List Nat) (op : CmpOp) (k : α) : FLModel α :=
  match op with
  | .eq => m.post (.flinEq cs xs k)
  | .le => m.post (.flinLe cs xs k)
  | .ne => m.post (.flinNe cs xs k)
  | .ge => m.post (.flinLe (negAllF cs) xs (-k))
  | .lt => m.post (.flinLe cs xs (k - e6))
  | .gt => m.post (.flinLe (negAllF cs) xs (-k - e6))

/-- the immediate domain edit of `Var == Val` / `Val == Var`: only when variable and literal have
the same kind (`remove_all_but` resp. `min = max = f` when `f` lies in the interval) -/
def eqEdit (m : FLModel α) (v : Nat) (k : FVal α) : FLModel α :=
  match m.doms[v]?, k with
  | some (.int d), .i c => m.setDom v (.int (d.filter (· == c)))
  | some (.flt lo hi), .f x =>
    -- since the repair `fix: x.eq(c) on a float variable narrows the domain only to a value inside
    -- it`: a constant outside the interval leaves the domain alone (the posted `Eq` fails later)
    if Num.le lo x && Num.le x hi then m.setDom v (.flt x x) else m
  | _, _ => m

/-- the `ReifiedBinary` arm of `materialize_constraint_kind`: `b ⇔ (l op r)`, both operands through
`get_expr_var` -/
def postReif (m : FLModel α) (l : FExpr α) (op : CmpOp) (r : FExpr α) (b : Nat) : FLModel α :=
  let (m1, lv) := m.getExprVar l
  let (m2, rv) := m1.getExprVar r
  m2.post (.reif op lv rv b)

/-- `c1.or(c2)` on two comparisons over integer operands (since the repair `fix: or of two
comparisons is a disjunction`), as `LModel.reifOr` -/
def reifOr (m : FLModel α) (l1 : FExpr α) (op1 : CmpOp) (r1 : FExpr α) (l2 : FExpr α) (op2 : CmpOp)
    (r2 : FExpr α) : FLModel α :=
  let (m1, b1) := m.newVar (.int LModel.boolDom)
  let (m2, b2) := m1.newVar (.int LModel.boolDom)
  let (m3, one) := m2.newVar (.int [1])
  let m4 := m3.postReif l1 op1 r1 b1
  let m5 := m4.postReif l2 op2 r2 b2
  m5.post (.boolOr [b1, b2] one)

/-- `is_int_expr`: only INTEGER variables of the model and integer literals (here the variable
TYPES are consulted: the reified comparison propagators are integer propagators) -/
def isIntExpr (m : FLModel α) : FExpr α → Bool
  | .var i => match m.doms[i]? with
    | some (.int _) => true
    | _ => false
  | .val (.i _) => true
  | .val (.f _) => false
  | .add a b => isIntExpr m a && isIntExpr m b
  | .sub a b => isIntExpr m a && isIntExpr m b
  | .mul a b => isIntExpr m a && isIntExpr m b
  | .div a b => isIntExpr m a && isIntExpr m b
  | .mod a b => isIntExpr m a && isIntExpr m b

/-- the special case of the `Or` arm: `x == p or x == q` on ONE variable with INTEGER literals -/
def sameVarEq : FExpr α → CmpOp → FExpr α → FExpr α → CmpOp → FExpr α → Option (Nat × Int × Int)
  | .var x, .eq, .val (.i p), .var y, .eq, .val (.i q) => if x = y then some (x, p, q) else none
  | _, _, _, _, _, _ => none

/-- `materialize_constraint_kind` for `Binary` / `And` / `Or` / `Not` -/
def materialize (m : FLModel α) : FCon α → FLModel α
  | .bin l op r =>
    let m0 :=
      match op, l, r with
      | .eq, .var v, .val k => m.eqEdit v k
      | .eq, .val k, .var v => m.eqEdit v k
      | _, _, _ => m
    match l, r with
    | .var v, .val k =>
      let (m1, kv) := m0.newVar (single k)
      m1.postCmp op v kv
    | .val k, .var v =>
      let (m1, kv) := m0.newVar (single k)
      m1.postCmp op kv v
    | _, _ =>
      let (m1, lv) := m0.getExprVar l
      let (m2, rv) := m1.getExprVar r
      m2.postCmp op lv rv
  | .and a b => materialize (materialize m a) b
  | .or a b =>
    match a, b with
    | .bin l1 op1 r1, .bin l2 op2 r2 =>
      match sameVarEq l1 op1 r1 l2 op2 r2 with
      | some (x, p, q) =>
        /- `x == p or x == q` with INTEGER literals: a fresh set variable unified with `x` -/
        let d : Dom := if p = q then [p] else if p < q then [p, q] else [q, p]
        let (m1, dv) := m.newVar (.int d)
        m1.post (.eqVV x dv)
      | none =>
        /- two comparisons over integer operands: reified disjunction; a float variable or a float
        literal anywhere, and every other shape: still "both constraints are posted" -/
        if m.isIntExpr l1 && m.isIntExpr r1 && m.isIntExpr l2 && m.isIntExpr r2 then
          m.reifOr l1 op1 r1 l2 op2 r2
        else materialize (materialize m a) b
    | _, _ => materialize (materialize m a) b
  | .not a => materialize m a

/-- `apply_var_eq_bounds`: integer variables only; reading the bounds of an EMPTY integer domain
trips a debug assertion (also when the other variable is a float); indices outside the model are
ignored -/
def applyVarEqBounds (m : FLModel α) (a b : Nat) : FLModel α :=
  match m.doms[a]?, m.doms[b]? with
  | some (.int da), some (.int db) =>
    if da.isEmpty || db.isEmpty then { m with panicked := true } else
    let lo := if da.dmin > db.dmin then da.dmin else db.dmin
    let hi := if da.dmax < db.dmax then da.dmax else db.dmax
    if lo ≤ hi then
      (m.setDom a (.int (da.filter (fun v => decide (lo ≤ v) && decide (v ≤ hi))))).setDom b
        (.int (db.filter (fun v => decide (lo ≤ v) && decide (v ≤ hi))))
    else m
  | some (.int da), some (.flt _ _) => if da.isEmpty then { m with panicked := true } else m
  | some (.flt _ _), some (.int db) => if db.isEmpty then { m with panicked := true } else m
  | _, _ => m

/-- `try_convert_to_linear_ast` on a `Binary` node: both sides linear → ONE row `left - right op
-(lk - rk)`; it is an INTEGER row iff every coefficient of the left side, every coefficient of the
right side and the final constant are `LinearCoefficient::Int` (`all_ints`) -/
def linearise (l : FExpr α) (op : CmpOp) (r : FExpr α) : Option (FPending α) :=
  match l.extractLinear, r.extractLinear with
  | some (lc, lx, lk), some (rc, rx, rk) =>
    let row := FExpr.mergeTerms true lc lx rc rx
    let k := (lk.sub rk).neg
    let allInts := lc.all FVal.isI && rc.all FVal.isI && k.isI
    if allInts then some (.lin (row.1.map FVal.toI) row.2 op k.toI)
    else some (.flin (row.1.map FVal.toF) row.2 op k.toF)
  | _, _ => none

/-- `post_constraint_kind` (`m.new(c)`) -/
def postCon (m : FLModel α) (c : FCon α) : FLModel α :=
  match c with
  | .bin l op r =>
    let m0 := match op, l, r with
      | .eq, .var a, .var b => m.applyVarEqBounds a b
      | _, _, _ => m
    let immediate := match op, l, r with
      | .eq, .var _, .val _ => true
      | .eq, .val _, .var _ => true
      | _, _, _ => false
    if immediate then m0.materialize c
    else match linearise l op r with
      | some p => { m0 with pending := m0.pending ++ [p] }
      | none => { m0 with pending := m0.pending ++ [.ast c] }
  | _ => { m with pending := m.pending ++ [.ast c] }

def lowerStep (acc : FLModel α) (p : FPending α) : FLModel α :=
  match p with
  | .ast c => acc.materialize c
  | .lin cs xs op k => acc.materializeLin cs xs op k
  | .flin cs xs op k => acc.materializeFLin cs xs op k

/-- `materialize_pending_asts` -/
def lower (m : FLModel α) : FLModel α :=
  m.pending.foldl lowerStep { m with pending := [] }

/-- `ModelValidator::validate_variable_domains`: an empty integer domain, reversed / infinite / NaN
float bounds are reported as `InvalidDomain` -/
def badDom : FDom α → Bool
  | .int d => d.isEmpty
  | .flt lo hi => gt lo hi || isInf lo || isInf hi || isNaN lo || isNaN hi

/-- the divisor variable of a `Div` / `Modulo` propagator -/
def divisorOf : FLP α → Option Nat
  | .divVV _ y _ => some y
  | .modVV _ y _ => some y
  | _ => none

/-- `validate_constraint_parameters`: a `Div` / `Modulo` propagator whose divisor is an INTEGER
variable that can be zero is reported as `InvalidConstraint` (float divisors are not looked at) -/
def zeroDivisor (m : FLModel α) (p : FLP α) : Bool :=
  match divisorOf p with
  | some y => match m.doms[y]? with
    | some (.int d) => d.contains 0
    | _ => false
  | none => false

def validateErr (m : FLModel α) : Option String :=
  if m.doms.any badDom then some "InvalidDomain"
  else if m.props.any m.zeroDivisor then some "InvalidConstraint"
  else none

end FLModel

/-! ### the INTEGER linear propagators over a store with float variables

`impl Prune for IntLinEq / IntLinLe / IntLinNe` (`constraints/props/linear.rs`) as they behave when
the lowering hands them float variables: the accumulation over the other variables executes
`_ => return Some(())` as soon as it meets a variable whose bounds are not both `ValI` — the WHOLE
prune returns successfully with whatever was pruned so far; a float variable at the pivot position
is tightened with INTEGER bounds (`div_euclid`, `div_floor`, `div_ceil`) through the `(VarF, ValI)`
arms of `try_set_min/max`.  (`i32` arithmetic on unbounded `Int`; saturation is not modelled.) -/

namespace ILin
variable {α : Type} [Num α]

/-- `(lb, ub)` when both are `ValI` -/
def ib (st : FStore α) (x : Nat) : Option (Int × Int) :=
  match st x with
  | .int d => some (ilmin d, ilmax d)
  | .flt _ => none

/-- `(min_other, max_other)` over `j ≠ i`; `none`: a float variable was met (`return Some(())`) -/
def others (st : FStore α) (i : Nat) : Nat → List Int → List Nat → Int × Int → Option (Int × Int)
  | _, [], _, acc => some acc
  | _, _, [], acc => some acc
  | j, cj :: cs, xj :: xs, acc =>
    if j = i then others st i (j + 1) cs xs acc
    else
      match ib st xj with
      | none => none
      | some (l, u) =>
        let t : Int × Int := if cj > 0 then (cj * l, cj * u) else (cj * u, cj * l)
        others st i (j + 1) cs xs (acc.1 + t.1, acc.2 + t.2)

/-- `div_floor` -/
def divFloor (a b : Int) : Int :=
  let q := Int.tdiv a b
  if Int.tmod a b ≠ 0 && (decide (a < 0) != decide (b < 0)) then q - 1 else q

/-- `div_ceil` -/
def divCeil (a b : Int) : Int :=
  let q := Int.tdiv a b
  if Int.tmod a b ≠ 0 && (decide (a < 0) == decide (b < 0)) then q + 1 else q

/-- the loop of `IntLinLe::prune` from index `i` on -/
def leLoop (cs : List Int) (xs : List Nat) (k : Int) : Nat → List (Int × Nat) → FCtx α → Option (FCtx α)
  | _, [], c => some c
  | i, (ci, xi) :: rest, c =>
    if ci = 0 then leLoop cs xs k (i + 1) rest c
    else
      match others c.st i 0 cs xs (0, 0) with
      | none => some c
      | some o =>
        let remaining := k - o.1
        let r := if ci > 0 then FPK.setMax xi (.i (remaining / ci)) c else FPK.setMin xi (.i (remaining / ci)) c
        match r with
        | none => none
        | some c' => leLoop cs xs k (i + 1) rest c'

def pruneLe (cs : List Int) (xs : List Nat) (k : Int) (c : FCtx α) : Option (FCtx α) :=
  leLoop cs xs k 0 (cs.zip xs) c

/-- the loop of `IntLinEq::prune` from index `i` on -/
def eqLoop (cs : List Int) (xs : List Nat) (k : Int) : Nat → List (Int × Nat) → FCtx α → Option (FCtx α)
  | _, [], c => some c
  | i, (ci, xi) :: rest, c =>
    if ci = 0 then eqLoop cs xs k (i + 1) rest c
    else
      match others c.st i 0 cs xs (0, 0) with
      | none => some c
      | some o =>
        let tmin := k - o.2
        let tmax := k - o.1
        let nmin := if ci > 0 then divCeil tmin ci else divCeil tmax ci
        let nmax := if ci > 0 then divFloor tmax ci else divFloor tmin ci
        match FPK.setMin xi (.i nmin) c with
        | none => none
        | some c1 =>
          match FPK.setMax xi (.i nmax) c1 with
          | none => none
          | some c2 => eqLoop cs xs k (i + 1) rest c2

def pruneEq (cs : List Int) (xs : List Nat) (k : Int) (c : FCtx α) : Option (FCtx α) :=
  eqLoop cs xs k 0 (cs.zip xs) c

/-- the scan of `IntLinNe::prune`: `none` = `return Some(())` (two unfixed variables, or a float
variable), otherwise the index of the unfixed variable (if any) and `fixed_sum` -/
def neScan (st : FStore α) : Nat → List Int → List Nat → Option Nat × Int → Option (Option Nat × Int)
  | _, [], _, acc => some acc
  | _, _, [], acc => some acc
  | j, cj :: cs, xj :: xs, acc =>
    match ib st xj with
    | none => none
    | some (l, u) =>
      if l = u then neScan st (j + 1) cs xs (acc.1, acc.2 + cj * l)
      else
        match acc.1 with
        | some _ => none
        | none => neScan st (j + 1) cs xs (some j, acc.2)

def pruneNe (cs : List Int) (xs : List Nat) (k : Int) (c : FCtx α) : Option (FCtx α) :=
  match neScan c.st 0 cs xs (none, 0) with
  | none => some c
  | some (none, fsum) => if fsum = k then none else some c
  | some (some idx, fsum) =>
    match cs[idx]?, xs[idx]? with
    | some coeff, some x =>
      if coeff = 0 then (if fsum = k then none else some c)
      else
        let num := k - fsum
        if Int.tmod num coeff = 0 then FPK.excludeValue x (.i (Int.tdiv num coeff)) c else some c
    | _, _ => some c

end ILin

/-- the `prune` of a lowered LINEAR ROW (integer rows: `ILin`, float rows: `FPK.prune` of
`Model/FloatCore.lean`); `none` for the other propagator kinds (not modelled over float stores) -/
def FLP.rowPrune {α : Type} [Num α] : FLP α → Option (FCtx α → Option (FCtx α))
  | .linEq cs xs k => some (ILin.pruneEq cs xs k)
  | .linLe cs xs k => some (ILin.pruneLe cs xs k)
  | .linNe cs xs k => some (ILin.pruneNe cs xs k)
  | .flinEq cs xs k => some (FPK.prune (.linEq cs xs k))
  | .flinLe cs xs k => some (FPK.prune (.linLe cs xs k))
  | .flinNe cs xs k => some (FPK.prune (.linNe cs xs k))
  | _ => none

/-- the store of a lowered model (every float variable has the step `1e-6`) -/
def FLModel.store {α : Type} [Num α] (m : FLModel α) : FStore α := fun i =>
  match m.doms[i]? with
  | some (.int d) => .int d
  | some (.flt lo hi) => .flt { min := lo, max := hi, step := e6 }
  | none => .int []

/-- one pass: every lowered propagator is pruned once, in posting order; `(index of the failing
propagator, context)`; `none` when some propagator is not a linear row -/
def FLModel.prunePass {α : Type} [Num α] (ps : List (FLP α)) (c : FCtx α) : Option (Option Nat × FCtx α) :=
  let rec go : Nat → List (FLP α) → FCtx α → Option (Option Nat × FCtx α)
    | _, [], c => some (none, c)
    | k, p :: ps, c =>
      match p.rowPrune with
      | none => none
      | some f =>
        match f c with
        | none => some (some k, c)
        | some c' => go (k + 1) ps c'
  if ps.all (fun p => p.rowPrune.isSome) then go 0 ps c else none

/-! ### embedding of the integer model (`Model/Lower.lean`) -/

def Expr.toF {α : Type} : Expr → FExpr α
  | .var i => .var i
  | .val k => .val (.i k)
  | .add a b => .add a.toF b.toF
  | .sub a b => .sub a.toF b.toF
  | .mul a b => .mul a.toF b.toF
  | .div a b => .div a.toF b.toF
  | .mod a b => .mod a.toF b.toF

def Con.toF {α : Type} : Con → FCon α
  | .bin l op r => .bin l.toF op r.toF
  | .and a b => .and a.toF b.toF
  | .or a b => .or a.toF b.toF
  | .not a => .not a.toF

def LP.toF {α : Type} : LP → FLP α
  | .eqVV x y => .eqVV x y
  | .eqKV k y => .eqKV (.i k) y
  | .neVV x y => .neVV x y
  | .leVV x y => .leVV x y
  | .ltVV x y => .ltVV x y
  | .addVV x y s => .addVV x y s
  | .subVV x y s => .subVV x y s
  | .mulVV x y s => .mulVV x y s
  | .divVV x y s => .divVV x y s
  | .modVV x y s => .modVV x y s
  | .linEq cs xs c => .linEq cs xs c
  | .linLe cs xs c => .linLe cs xs c
  | .linNe cs xs c => .linNe cs xs c
  | .reif op x y b => .reif op x y b
  | .boolOr ops r => .boolOr ops r

end Selen

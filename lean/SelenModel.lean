import SelenModel.Model.SparseSet
import SelenModel.Model.IntCore

import SelenModel.Model.SparseSet

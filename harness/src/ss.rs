//! `ss.*` ops: the real `SparseSet` driven through its public API, with a
//! `BTreeSet` replay as the implementation-side oracle (C11).
use crate::out::{b, guarded, show_ints, Out};
use crate::rng::Rng;
use selen::variables::domain::sparse_set::{SparseSet, SparseSetState};
use std::collections::{BTreeMap, BTreeSet};

pub fn show(s: &SparseSet) -> String {
    let mm = if s.is_empty() {
        "min=- max=-".to_string()
    } else {
        format!("min={} max={}", s.min(), s.max())
    };
    let opt = |o: Option<i32>| o.map(|v| v.to_string()).unwrap_or_else(|| "-".into());
    format!(
        "off={} n={} size={} vals={} comp={} {} first={} last={} fixed={} usecomp={}",
        s.min_universe_value(),
        s.universe_size(),
        s.size(),
        show_ints(&s.to_vec()),
        show_ints(&s.complement_iter().collect::<Vec<_>>()),
        mm,
        opt(s.first()),
        opt(s.last()),
        b(s.is_fixed()),
        b(s.should_use_complement())
    )
}

struct Snap {
    st: SparseSetState,
    spec: BTreeSet<i32>,
    /// ghost validity: cleared by a union, or by restoring an older snapshot
    valid: bool,
    why: &'static str,
    seq: u64,
}

pub struct Case {
    /// snapshots are taken / restored through `Var` + `VarTrail` (search/trail.rs) instead of
    /// calling the sparse set directly
    pub via_var: bool,
    s: SparseSet,
    spec: BTreeSet<i32>,
    slots: BTreeMap<u32, Snap>,
    seq: u64,
    dead: bool,
}

fn lo_hi(s: &SparseSet) -> (i32, i32) {
    (s.min_universe_value(), s.min_universe_value() + s.universe_size() as i32 - 1)
}

impl Case {
    fn check(&mut self, out: &mut Out, line: usize, what: &str, tag: &str) {
        // compare every observer with the mathematical set
        let s = &self.s;
        let r = guarded(|| {
            let mut v = s.to_vec();
            v.sort();
            let want: Vec<i32> = self.spec.iter().cloned().collect();
            if v != want {
                return Some(format!("{what}: set {:?} expected {:?}", v, want));
            }
            if s.size() != want.len() {
                return Some(format!("{what}: size {} expected {}", s.size(), want.len()));
            }
            if !want.is_empty() {
                if s.min() != want[0] || s.max() != *want.last().unwrap() {
                    return Some(format!("{what}: min/max {}/{} expected {}/{}", s.min(), s.max(), want[0], want.last().unwrap()));
                }
            }
            let (lo, hi) = lo_hi(s);
            for x in (lo - 2)..=(hi + 2) {
                if s.contains(x) != self.spec.contains(&x) {
                    return Some(format!("{what}: contains({x}) = {}", s.contains(x)));
                }
            }
            let mut c: Vec<i32> = s.complement_iter().collect();
            c.sort();
            let wantc: Vec<i32> = (lo..=hi).filter(|x| !self.spec.contains(x)).collect();
            if c != wantc {
                return Some(format!("{what}: complement {:?} expected {:?}", c, wantc));
            }
            if s.complement_size() != wantc.len() {
                return Some(format!("{what}: complement_size"));
            }
            let it: Vec<i32> = s.iter().collect();
            let mut d = it.clone();
            d.sort();
            d.dedup();
            if d.len() != it.len() {
                return Some(format!("{what}: iteration repeats a value"));
            }
            None
        });
        match r {
            None => out.fail(line, "C11", "-", format!("{what}: panic in observer")),
            Some(Some(d)) => out.fail(line, "C11", tag, d),
            Some(None) => {}
        }
    }
}

fn vals_arg(vs: &[i32]) -> String {
    vs.iter().map(|v| v.to_string()).collect::<Vec<_>>().join(" ")
}

/// apply one op line to the real set and the spec; returns false if the case must end
pub fn apply(c: &mut Case, out: &mut Out, op: &str) {
    let ws: Vec<&str> = op.split_whitespace().collect();
    let ints = |from: usize| -> Vec<i32> { ws[from..].iter().map(|w| w.parse().unwrap()).collect() };
    let mut tag = "-".to_string();
    let res: Option<String> = match ws[0] {
        "ss.remove" => {
            let v: i32 = ws[1].parse().unwrap();
            let want = c.spec.remove(&v);
            guarded(|| {
                let r = c.s.remove(v);
                (r, show(&c.s))
            })
            .map(|(r, st)| {
                if r != want {
                    out.fail(out.ops.len(), "C11", "-", format!("remove({v}) returned {r}"));
                }
                format!("ret={} {}", b(r), st)
            })
        }
        "ss.below" => {
            let v: i32 = ws[1].parse().unwrap();
            c.spec.retain(|x| *x >= v);
            guarded(|| {
                c.s.remove_below(v);
                show(&c.s)
            })
        }
        "ss.above" => {
            let v: i32 = ws[1].parse().unwrap();
            c.spec.retain(|x| *x <= v);
            guarded(|| {
                c.s.remove_above(v);
                show(&c.s)
            })
        }
        "ss.only" => {
            let v: i32 = ws[1].parse().unwrap();
            c.spec.retain(|x| *x == v);
            guarded(|| {
                c.s.remove_all_but(v);
                show(&c.s)
            })
        }
        "ss.clear" => {
            c.spec.clear();
            guarded(|| {
                c.s.remove_all();
                show(&c.s)
            })
        }
        "ss.inter" => {
            let vs = ints(1);
            c.spec.retain(|x| vs.contains(x));
            guarded(|| {
                let o = SparseSet::new_from_values(vs.clone());
                c.s.intersect_with(&o);
                show(&c.s)
            })
        }
        "ss.diff" => {
            let vs = ints(1);
            c.spec.retain(|x| !vs.contains(x));
            guarded(|| {
                let o = SparseSet::new_from_values(vs.clone());
                c.s.diff_with(&o);
                show(&c.s)
            })
        }
        "ss.union" => {
            let vs = ints(1);
            let (lo, hi) = lo_hi(&c.s);
            for v in &vs {
                // the documented precondition: compatible universes (values outside are dropped)
                if *v >= lo && *v <= hi && c.s.universe_size() > 0 {
                    c.spec.insert(*v);
                }
            }
            for sn in c.slots.values_mut() {
                if sn.valid {
                    sn.valid = false;
                    sn.why = "restore-after-union";
                }
            }
            guarded(|| {
                let o = SparseSet::new_from_values(vs.clone());
                c.s.union_with(&o);
                show(&c.s)
            })
        }
        "ss.save" => {
            let k: u32 = ws[1].parse().unwrap();
            c.seq += 1;
            let st = if c.via_var {
                use selen::search::trail::{DomainSnapshot, VarTrail};
                match selen::variables::Var::VarI(c.s.clone()).save_snapshot() {
                    DomainSnapshot::IntDomain(st) => st,
                    _ => unreachable!(),
                }
            } else {
                c.s.save_state()
            };
            c.slots.insert(k, Snap { st, spec: c.spec.clone(), valid: true, why: "-", seq: c.seq });
            Some("saved".into())
        }
        "ss.restore" => {
            let k: u32 = ws[1].parse().unwrap();
            match c.slots.get(&k) {
                None => Some("no-slot".into()),
                Some(sn) => {
                    let st = sn.st.clone();
                    c.spec = sn.spec.clone();
                    if !sn.valid {
                        tag = sn.why.to_string();
                    }
                    let seq = sn.seq;
                    // LIFO discipline: snapshots taken after this one are no longer restorable
                    for o in c.slots.values_mut() {
                        if o.seq > seq && o.valid {
                            o.valid = false;
                            o.why = "restore-non-lifo";
                        }
                    }
                    guarded(|| {
                        if c.via_var {
                            use selen::search::trail::{DomainSnapshot, VarTrail};
                            let mut v = selen::variables::Var::VarI(std::mem::replace(&mut c.s, SparseSet::new(0, 0)));
                            v.restore_snapshot(&DomainSnapshot::IntDomain(st.clone()));
                            if let selen::variables::Var::VarI(s) = v {
                                c.s = s;
                            }
                        } else {
                            c.s.restore_state(&st);
                        }
                        show(&c.s)
                    })
                }
            }
        }
        "ss.q" => match ws[1] {
            "contains" => {
                let v: i32 = ws[2].parse().unwrap();
                let r = c.s.contains(v);
                if r != c.spec.contains(&v) {
                    out.fail(out.ops.len(), "C11", "-", format!("contains({v}) = {r}"));
                }
                Some(b(r).into())
            }
            "subset" => {
                let vs = ints(2);
                let o = SparseSet::new_from_values(vs.clone());
                let r = c.s.is_subset_of(&o);
                if r != c.spec.iter().all(|x| vs.contains(x)) {
                    out.fail(out.ops.len(), "C11", "-", format!("is_subset_of {:?} = {r}", vs));
                }
                Some(b(r).into())
            }
            "equals" => {
                let vs = ints(2);
                let o = SparseSet::new_from_values(vs.clone());
                let r = c.s.equals(&o);
                let vset: BTreeSet<i32> = vs.iter().cloned().collect();
                if r != (vset == c.spec) {
                    out.fail(out.ops.len(), "C11", "-", format!("equals {:?} = {r}", vs));
                }
                Some(b(r).into())
            }
            "valid" => {
                let k: u32 = ws[2].parse().unwrap();
                Some(match c.slots.get(&k) {
                    None => "no-slot".into(),
                    Some(sn) => b(sn.valid).into(),
                })
            }
            _ => unreachable!(),
        },
        _ => unreachable!("{op}"),
    };
    match res {
        None => {
            let l = out.emit(op, "panic");
            out.fail(l, "C17", "-", format!("panic in {op}"));
            c.dead = true;
        }
        Some(r) => {
            let l = out.emit(op, r);
            if ws[0] != "ss.q" && ws[0] != "ss.save" {
                c.check(out, l, op, &tag);
            }
            if tag != "-" {
                // the snapshot was not restorable (ghost validity false): the concrete state is
                // no longer related to any set, so the history ends here
                out.stat(&format!("restore.invalid.{tag}"));
                c.dead = true;
            }
        }
    }
}

pub fn create(out: &mut Out, op: &str) -> Option<Case> {
    let ws: Vec<&str> = op.split_whitespace().collect();
    let ints = |from: usize| -> Vec<i32> { ws[from..].iter().map(|w| w.parse().unwrap()).collect() };
    let (s, spec): (Option<SparseSet>, BTreeSet<i32>) = match ws[0] {
        "ss.new" => {
            let (a, z): (i32, i32) = (ws[1].parse().unwrap(), ws[2].parse().unwrap());
            let (lo, hi) = if a > z { (z, a) } else { (a, z) };
            (guarded(|| SparseSet::new(a, z)), (lo..=hi).collect())
        }
        "ss.unchecked" => {
            let (a, z): (i32, i32) = (ws[1].parse().unwrap(), ws[2].parse().unwrap());
            (guarded(|| SparseSet::new_unchecked(a, z)), (a..=z).collect())
        }
        "ss.values" => {
            let vs = ints(1);
            (guarded(|| SparseSet::new_from_values(vs.clone())), vs.iter().cloned().collect())
        }
        _ => unreachable!(),
    };
    match s {
        None => {
            let l = out.emit(op, "panic");
            out.fail(l, "C17", "-", format!("panic in {op}"));
            None
        }
        Some(s) => {
            let l = out.emit(op, show(&s));
            let mut c = Case { via_var: false, s, spec, slots: BTreeMap::new(), seq: 0, dead: false };
            c.check(out, l, op, "-");
            Some(c)
        }
    }
}

fn rand_vals(r: &mut Rng, lo: i32, hi: i32) -> Vec<i32> {
    let k = r.range(0, 5);
    let mut v = Vec::new();
    for _ in 0..k {
        // mostly inside the universe, sometimes just outside
        let x = if r.chance(9, 10) { r.range(lo as i64, hi as i64) } else { r.range(lo as i64 - 3, hi as i64 + 3) };
        v.push(x as i32);
    }
    v
}

fn rand_op(r: &mut Rng, c: &Case, out: &mut Out, allow_union: bool, allow_restore: bool) -> String {
    let (lo, hi) = lo_hi(&c.s);
    let hi = hi.max(lo);
    let v = r.range(lo as i64 - 2, hi as i64 + 2) as i32;
    loop {
        let k = r.below(100);
        let op = match k {
            0..=29 => format!("ss.remove {v}"),
            30..=37 => format!("ss.below {v}"),
            38..=45 => format!("ss.above {v}"),
            46..=48 => format!("ss.only {v}"),
            49 => "ss.clear".to_string(),
            50..=55 => format!("ss.inter {}", vals_arg(&rand_vals(r, lo, hi))),
            56..=61 => format!("ss.diff {}", vals_arg(&rand_vals(r, lo, hi))),
            62..=67 if allow_union => {
                // union operand restricted to the universe (documented precondition)
                let mut vs = rand_vals(r, lo, hi);
                vs.retain(|x| *x >= lo && *x <= hi);
                format!("ss.union {}", vals_arg(&vs))
            }
            68..=75 => format!("ss.save {}", r.below(3)),
            76..=83 if allow_restore => format!("ss.restore {}", r.below(3)),
            84..=87 => format!("ss.q contains {v}"),
            88..=90 => format!("ss.q subset {}", vals_arg(&rand_vals(r, lo, hi))),
            91..=93 => format!("ss.q equals {}", vals_arg(&rand_vals(r, lo, hi))),
            94..=96 => format!("ss.q valid {}", r.below(3)),
            _ => continue,
        };
        out.stat(&format!("op.{}", op.split_whitespace().next().unwrap()));
        return op;
    }
}

pub fn run_case(out: &mut Out, id: &str, create_op: &str, ops: &[String], via_var: bool) {
    out.case(id);
    if let Some(mut c) = create(out, create_op) {
        c.via_var = via_var;
        for op in ops {
            if c.dead {
                break;
            }
            apply(&mut c, out, op);
        }
    }
}

/// random histories
pub fn suite(out: &mut Out, seed: u64, count: u64, maxlen: u64) {
    let mut r = Rng::new(seed ^ 0x5511);
    for i in 0..count {
        let mut r = r.fork();
        out.case(&format!("ss{i}"));
        let create_op = match r.below(10) {
            0..=5 => {
                let lo = r.range(-8, 8);
                let w = if r.chance(1, 8) { r.range(0, 40) } else { r.range(0, 9) };
                if r.chance(1, 10) { format!("ss.new {} {}", lo + w, lo) } else { format!("ss.new {} {}", lo, lo + w) }
            }
            6..=8 => {
                let lo = r.range(-8, 8) as i32;
                let mut vs = rand_vals(&mut r, lo, lo + 9);
                if r.chance(1, 12) {
                    vs.clear();
                }
                format!("ss.values {}", vals_arg(&vs))
            }
            _ => {
                let lo = r.range(-5, 5);
                let hi = lo + r.range(-3, 6);
                format!("ss.unchecked {lo} {hi}")
            }
        };
        out.stat(&format!("create.{}", create_op.split_whitespace().next().unwrap()));
        let Some(mut c) = create(out, &create_op) else { continue };
        c.via_var = r.chance(1, 2);
        out.stat(if c.via_var { "snapshots.via-vartrail" } else { "snapshots.direct" });
        if out.samples.len() < 3 {
            out.samples.push(create_op.clone());
        }
        // 60% of cases are union-free (so that restores are meaningful), 40% mix everything
        let allow_union = r.chance(4, 10);
        let len = r.range(1, maxlen as i64);
        for _ in 0..len {
            if c.dead {
                break;
            }
            let op = rand_op(&mut r, &c, out, allow_union, true);
            apply(&mut c, out, &op);
        }
    }
}

/// every history of length <= depth over a small universe (thorough tier)
pub fn exhaustive(out: &mut Out, lo: i32, width: i32, depth: usize) {
    let hi = lo + width - 1;
    let mut alphabet: Vec<String> = Vec::new();
    for v in (lo - 1)..=(hi + 1) {
        alphabet.push(format!("ss.remove {v}"));
        alphabet.push(format!("ss.below {v}"));
        alphabet.push(format!("ss.above {v}"));
        alphabet.push(format!("ss.only {v}"));
    }
    for v in lo..=hi {
        alphabet.push(format!("ss.union {v}"));
    }
    alphabet.push("ss.clear".into());
    alphabet.push("ss.save 0".into());
    alphabet.push("ss.restore 0".into());
    alphabet.push("ss.save 1".into());
    alphabet.push("ss.restore 1".into());
    let mut idx = vec![0usize; depth];
    let mut n = 0u64;
    loop {
        let ops: Vec<String> = idx.iter().map(|i| alphabet[*i].clone()).collect();
        run_case(out, &format!("ssx{n}"), &format!("ss.new {lo} {hi}"), &ops, n % 2 == 1);
        n += 1;
        // next tuple
        let mut p = depth;
        loop {
            if p == 0 {
                out.stat_n("exhaustive.histories", n);
                return;
            }
            p -= 1;
            idx[p] += 1;
            if idx[p] < alphabet.len() {
                break;
            }
            idx[p] = 0;
        }
    }
}

//! Suite `float` (C12 float part, C06, C07): `FloatInterval` primitives, the float / mixed arms
//! of `Context::try_set_min/max`, float views, `LessThanOrEquals` / `Eq` at float views and the
//! `FloatLin*` propagators, driven directly and compared BIT-EXACTLY with the Lean model
//! (`fl.*` ops; every f64 travels as the decimal value of `to_bits()`, `nan` for NaNs), plus
//! exact-arithmetic oracles (module `ex`) and an API-level oracle stream (`#flapi` lines).
use crate::out::{guarded, Out};
use crate::rng::Rng;
use selen::constraints::props::{PropId, Propagators};
use selen::optimization::ulp_utils::UlpUtils;
use selen::variables::domain::float_interval::{precision_to_step_size, FloatInterval};
use selen::variables::views::{Context, View, ViewExt};
use selen::variables::{Val, Var, VarId, Vars};
use std::cell::RefCell;

// ---------------------------------------------------------------------------------------------
// exact dyadic rationals (sign, magnitude, binary exponent): every finite f64 is one
// ---------------------------------------------------------------------------------------------
pub mod ex {
    use std::cmp::Ordering;

    #[derive(Clone, Debug)]
    pub struct Ex {
        neg: bool,
        mag: Vec<u32>, // little endian, no leading (top) zero words; zero = empty
        exp: i32,
    }

    fn trim(v: &mut Vec<u32>) {
        while v.last() == Some(&0) {
            v.pop();
        }
    }
    fn shl(m: &[u32], bits: u32) -> Vec<u32> {
        if m.is_empty() {
            return vec![];
        }
        let words = (bits / 32) as usize;
        let b = bits % 32;
        let mut r = vec![0u32; words];
        let mut carry = 0u32;
        for w in m {
            if b == 0 {
                r.push(*w);
            } else {
                r.push((w << b) | carry);
                carry = w >> (32 - b);
            }
        }
        if carry != 0 {
            r.push(carry);
        }
        r
    }
    fn cmp_mag(a: &[u32], b: &[u32]) -> Ordering {
        if a.len() != b.len() {
            return a.len().cmp(&b.len());
        }
        for i in (0..a.len()).rev() {
            if a[i] != b[i] {
                return a[i].cmp(&b[i]);
            }
        }
        Ordering::Equal
    }
    fn add_mag(a: &[u32], b: &[u32]) -> Vec<u32> {
        let mut r = Vec::with_capacity(a.len().max(b.len()) + 1);
        let mut c = 0u64;
        for i in 0..a.len().max(b.len()) {
            let s = *a.get(i).unwrap_or(&0) as u64 + *b.get(i).unwrap_or(&0) as u64 + c;
            r.push(s as u32);
            c = s >> 32;
        }
        if c != 0 {
            r.push(c as u32);
        }
        r
    }
    /// a - b, a >= b
    fn sub_mag(a: &[u32], b: &[u32]) -> Vec<u32> {
        let mut r = Vec::with_capacity(a.len());
        let mut borrow = 0i64;
        for i in 0..a.len() {
            let mut d = a[i] as i64 - *b.get(i).unwrap_or(&0) as i64 - borrow;
            if d < 0 {
                d += 1 << 32;
                borrow = 1;
            } else {
                borrow = 0;
            }
            r.push(d as u32);
        }
        trim(&mut r);
        r
    }

    impl Ex {
        pub fn zero() -> Ex {
            Ex { neg: false, mag: vec![], exp: 0 }
        }
        pub fn from_i64(v: i64) -> Ex {
            let a = v.unsigned_abs();
            let mut mag = vec![a as u32, (a >> 32) as u32];
            trim(&mut mag);
            Ex { neg: v < 0, mag, exp: 0 }
        }
        /// exact value of a finite f64
        pub fn from_f64(x: f64) -> Ex {
            assert!(x.is_finite());
            let bits = x.to_bits();
            let e = ((bits >> 52) & 0x7ff) as i32;
            let m = bits & ((1u64 << 52) - 1);
            let (mant, exp) = if e == 0 { (m, -1074) } else { (m | (1u64 << 52), e - 1075) };
            let mut mag = vec![mant as u32, (mant >> 32) as u32];
            trim(&mut mag);
            Ex { neg: (bits >> 63) == 1, mag, exp }
        }
        pub fn is_zero(&self) -> bool {
            self.mag.is_empty()
        }
        pub fn neg(&self) -> Ex {
            Ex { neg: !self.neg && !self.is_zero(), mag: self.mag.clone(), exp: self.exp }
        }
        pub fn abs(&self) -> Ex {
            Ex { neg: false, mag: self.mag.clone(), exp: self.exp }
        }
        fn aligned(&self, o: &Ex) -> (Vec<u32>, Vec<u32>, i32) {
            let e = self.exp.min(o.exp);
            (shl(&self.mag, (self.exp - e) as u32), shl(&o.mag, (o.exp - e) as u32), e)
        }
        pub fn add(&self, o: &Ex) -> Ex {
            if self.is_zero() {
                return o.clone();
            }
            if o.is_zero() {
                return self.clone();
            }
            let (a, b, e) = self.aligned(o);
            if self.neg == o.neg {
                Ex { neg: self.neg, mag: add_mag(&a, &b), exp: e }
            } else {
                match cmp_mag(&a, &b) {
                    Ordering::Equal => Ex::zero(),
                    Ordering::Greater => Ex { neg: self.neg, mag: sub_mag(&a, &b), exp: e },
                    Ordering::Less => Ex { neg: o.neg, mag: sub_mag(&b, &a), exp: e },
                }
            }
        }
        pub fn sub(&self, o: &Ex) -> Ex {
            self.add(&o.neg())
        }
        pub fn mul(&self, o: &Ex) -> Ex {
            if self.is_zero() || o.is_zero() {
                return Ex::zero();
            }
            let mut r = vec![0u32; self.mag.len() + o.mag.len() + 1];
            for (i, a) in self.mag.iter().enumerate() {
                let mut c = 0u64;
                for (j, b) in o.mag.iter().enumerate() {
                    let t = r[i + j] as u64 + (*a as u64) * (*b as u64) + c;
                    r[i + j] = t as u32;
                    c = t >> 32;
                }
                let mut k = i + o.mag.len();
                while c != 0 {
                    let t = r[k] as u64 + c;
                    r[k] = t as u32;
                    c = t >> 32;
                    k += 1;
                }
            }
            trim(&mut r);
            Ex { neg: self.neg != o.neg, mag: r, exp: self.exp + o.exp }
        }
        /// multiply by 2^k
        pub fn scale2(&self, k: i32) -> Ex {
            Ex { neg: self.neg, mag: self.mag.clone(), exp: self.exp + k }
        }
        pub fn cmp(&self, o: &Ex) -> Ordering {
            let d = self.sub(o);
            if d.is_zero() {
                Ordering::Equal
            } else if d.neg {
                Ordering::Less
            } else {
                Ordering::Greater
            }
        }
        pub fn lt(&self, o: &Ex) -> bool {
            self.cmp(o) == Ordering::Less
        }
        pub fn le(&self, o: &Ex) -> bool {
            self.cmp(o) != Ordering::Greater
        }
        pub fn gt(&self, o: &Ex) -> bool {
            self.cmp(o) == Ordering::Greater
        }
        pub fn ge(&self, o: &Ex) -> bool {
            self.cmp(o) != Ordering::Less
        }
        pub fn max(&self, o: &Ex) -> Ex {
            if self.lt(o) { o.clone() } else { self.clone() }
        }
        /// rough f64 rendering for messages only
        pub fn approx(&self) -> f64 {
            let mut v = 0.0f64;
            for w in self.mag.iter().rev() {
                v = v * 4294967296.0 + *w as f64;
            }
            let v = v * (self.exp as f64).exp2();
            if self.neg { -v } else { v }
        }
    }
}
use ex::Ex;
fn exf(x: f64) -> Ex {
    Ex::from_f64(x)
}

// ---------------------------------------------------------------------------------------------
// protocol values
// ---------------------------------------------------------------------------------------------
pub fn sf(x: f64) -> String {
    if x.is_nan() { "nan".into() } else { x.to_bits().to_string() }
}
fn pf(s: &str) -> Option<f64> {
    if s == "nan" { Some(f64::NAN) } else { s.parse::<u64>().ok().map(f64::from_bits) }
}

#[derive(Clone, Copy, Debug, PartialEq)]
pub enum FV {
    I(i32),
    F(f64),
}
impl FV {
    fn tokens(&self) -> String {
        match self {
            FV::I(i) => format!("i {i}"),
            FV::F(f) => format!("f {}", sf(*f)),
        }
    }
    fn val(&self) -> Val {
        match self {
            FV::I(i) => Val::ValI(*i),
            FV::F(f) => Val::ValF(*f),
        }
    }
    fn show(v: Val) -> String {
        match v {
            Val::ValI(i) => format!("i:{i}"),
            Val::ValF(f) => format!("f:{}", sf(f)),
        }
    }
    fn parse<'a>(t: &mut std::slice::Iter<'a, &'a str>) -> Option<FV> {
        match *t.next()? {
            "i" => t.next()?.parse().ok().map(FV::I),
            "f" => pf(t.next()?).map(FV::F),
            _ => None,
        }
    }
    fn as_f64(&self) -> f64 {
        match self {
            FV::I(i) => *i as f64,
            FV::F(f) => *f,
        }
    }
}

#[derive(Clone, Debug)]
pub enum FVS {
    C(FV),
    V(usize),
    Opp(Box<FVS>),
    Plus(FV, Box<FVS>),
    TPos(FV, Box<FVS>),
    Times(FV, Box<FVS>),
    TNeg(FV, Box<FVS>),
    Next(Box<FVS>),
    Prev(Box<FVS>),
}
impl FVS {
    pub fn tokens(&self) -> String {
        match self {
            FVS::C(k) => format!("c {}", k.tokens()),
            FVS::V(i) => format!("v {i}"),
            FVS::Opp(v) => format!("opp {}", v.tokens()),
            FVS::Plus(k, v) => format!("plus {} {}", k.tokens(), v.tokens()),
            FVS::TPos(k, v) => format!("tpos {} {}", k.tokens(), v.tokens()),
            FVS::Times(k, v) => format!("times {} {}", k.tokens(), v.tokens()),
            FVS::TNeg(k, v) => format!("tneg {} {}", k.tokens(), v.tokens()),
            FVS::Next(v) => format!("next {}", v.tokens()),
            FVS::Prev(v) => format!("prev {}", v.tokens()),
        }
    }
    fn depth(&self) -> usize {
        match self {
            FVS::C(_) | FVS::V(_) => 0,
            FVS::Opp(v) | FVS::Plus(_, v) | FVS::TPos(_, v) | FVS::Times(_, v) | FVS::TNeg(_, v) | FVS::Next(v) | FVS::Prev(v) => 1 + v.depth(),
        }
    }
    fn parse<'a>(t: &mut std::slice::Iter<'a, &'a str>) -> Option<FVS> {
        match *t.next()? {
            "c" => FV::parse(t).map(FVS::C),
            "v" => t.next()?.parse().ok().map(FVS::V),
            "opp" => FVS::parse(t).map(|v| FVS::Opp(Box::new(v))),
            "next" => FVS::parse(t).map(|v| FVS::Next(Box::new(v))),
            "prev" => FVS::parse(t).map(|v| FVS::Prev(Box::new(v))),
            k @ ("plus" | "tpos" | "times" | "tneg") => {
                let c = FV::parse(t)?;
                let v = Box::new(FVS::parse(t)?);
                Some(match k {
                    "plus" => FVS::Plus(c, v),
                    "tpos" => FVS::TPos(c, v),
                    "times" => FVS::Times(c, v),
                    _ => FVS::TNeg(c, v),
                })
            }
            _ => None,
        }
    }
    fn max_var(&self) -> Option<usize> {
        match self {
            FVS::C(_) => None,
            FVS::V(i) => Some(*i),
            FVS::Opp(v) | FVS::Plus(_, v) | FVS::TPos(_, v) | FVS::Times(_, v) | FVS::TNeg(_, v) | FVS::Next(v) | FVS::Prev(v) => v.max_var(),
        }
    }
}

/// continuation receiving a concrete view type
trait VK {
    type Out;
    fn call<V: View>(self, v: V) -> Self::Out;
}
fn lvl0<K: VK>(s: &FVS, ids: &[VarId], k: K) -> K::Out {
    match s {
        FVS::C(c) => k.call(c.val()),
        FVS::V(i) => k.call(ids[*i]),
        _ => panic!("view too deep"),
    }
}
macro_rules! flevel {
    ($name:ident, $inner:ident) => {
        fn $name<K: VK>(s: &FVS, ids: &[VarId], k: K) -> K::Out {
            struct OppK<K>(K);
            impl<K: VK> VK for OppK<K> {
                type Out = K::Out;
                fn call<V: View>(self, v: V) -> K::Out { self.0.call(v.opposite()) }
            }
            struct PlusK<K>(K, Val);
            impl<K: VK> VK for PlusK<K> {
                type Out = K::Out;
                fn call<V: View>(self, v: V) -> K::Out { self.0.call(v.plus(self.1)) }
            }
            struct TPosK<K>(K, Val);
            impl<K: VK> VK for TPosK<K> {
                type Out = K::Out;
                fn call<V: View>(self, v: V) -> K::Out { self.0.call(v.times_pos(self.1)) }
            }
            struct TimesK<K>(K, Val);
            impl<K: VK> VK for TimesK<K> {
                type Out = K::Out;
                fn call<V: View>(self, v: V) -> K::Out { self.0.call(v.times(self.1)) }
            }
            struct TNegK<K>(K, Val);
            impl<K: VK> VK for TNegK<K> {
                type Out = K::Out;
                fn call<V: View>(self, v: V) -> K::Out { self.0.call(v.times_neg(self.1)) }
            }
            struct NextK<K>(K);
            impl<K: VK> VK for NextK<K> {
                type Out = K::Out;
                fn call<V: View>(self, v: V) -> K::Out { self.0.call(v.next()) }
            }
            struct PrevK<K>(K);
            impl<K: VK> VK for PrevK<K> {
                type Out = K::Out;
                fn call<V: View>(self, v: V) -> K::Out { self.0.call(v.prev()) }
            }
            match s {
                FVS::C(_) | FVS::V(_) => lvl0(s, ids, k),
                FVS::Opp(v) => $inner(v, ids, OppK(k)),
                FVS::Plus(c, v) => $inner(v, ids, PlusK(k, c.val())),
                FVS::TPos(c, v) => $inner(v, ids, TPosK(k, c.val())),
                FVS::Times(c, v) => $inner(v, ids, TimesK(k, c.val())),
                FVS::TNeg(c, v) => $inner(v, ids, TNegK(k, c.val())),
                FVS::Next(v) => $inner(v, ids, NextK(k)),
                FVS::Prev(v) => $inner(v, ids, PrevK(k)),
            }
        }
    };
}
flevel!(lvl1, lvl0);
flevel!(lvl2, lvl1);

// ---------------------------------------------------------------------------------------------
// the case state
// ---------------------------------------------------------------------------------------------
#[derive(Clone, Debug, PartialEq)]
pub enum VState {
    F(f64, f64, f64),
    I(Vec<i32>),
}

pub struct FCase {
    fi: FloatInterval,
    vars: Vars,
    ids: Vec<VarId>,
    /// a point that later `fl.prune` rows are built around (oracle side only)
    witness: Option<Vec<FV>>,
}

impl FCase {
    pub fn new() -> Self {
        FCase { fi: FloatInterval::with_step_unchecked(0.0, 0.0, 1.0), vars: Vars::new(), ids: vec![], witness: None }
    }
    fn state(&self, i: usize) -> VState {
        match &self.vars[self.ids[i]] {
            Var::VarF(iv) => VState::F(iv.min, iv.max, iv.step),
            Var::VarI(s) => {
                let mut v = s.to_vec();
                v.sort();
                VState::I(v)
            }
        }
    }
    fn states(&self) -> Vec<VState> {
        (0..self.ids.len()).map(|i| self.state(i)).collect()
    }
    fn show_states(&self) -> String {
        self.states()
            .iter()
            .map(|s| match s {
                VState::F(a, b, c) => format!("f:{}:{}:{}", sf(*a), sf(*b), sf(*c)),
                VState::I(v) => format!("i:{}", crate::out::show_ints(v)),
            })
            .collect::<Vec<_>>()
            .join("|")
    }
    fn show_ev(&self, ev: &[VarId]) -> String {
        let e: Vec<String> = ev.iter().map(|e| self.ids.iter().position(|i| i == e).unwrap().to_string()).collect();
        format!("ev=[{}]", e.join(","))
    }
}

fn show_fi(iv: &FloatInterval) -> String {
    format!("fi {} {} {}", sf(iv.min), sf(iv.max), sf(iv.step))
}

fn valid_iv(min: f64, max: f64, step: f64) -> bool {
    min.is_finite() && max.is_finite() && step.is_finite() && step > 0.0 && min <= max
}

// ---------------------------------------------------------------------------------------------
// self test
// ---------------------------------------------------------------------------------------------
fn selftest() -> String {
    use std::hint::black_box as bb;
    let f = |b: u64| bb(f64::from_bits(b));
    let a = f(4591870180066957722); // 0.1
    let b = f(4596373779694328218); // 0.2
    let c = f(4599075939470750515); // 0.3
    let big = f(4845873199050653696); // 2^60
    let nan = bb(f64::NAN);
    let inf = bb(f64::INFINITY);
    let xs: Vec<f64> = vec![
        a + b, a * b, a / c, a - c, (a * b) + c, (a * c) - b, a * a + a * a,
        bb(2.5f64).floor(), bb(-2.5f64).floor(), bb(2.5f64).ceil(), bb(-2.5f64).ceil(),
        bb(2.5f64).round(), bb(-2.5f64).round(), bb(0.5f64).round(), bb(-0.5f64).round(), bb(1.5f64).round(),
        f(4602678819172646911).round(), f(4841369599423283200).round(),
        bb(-0.0f64).abs(), (-a).abs(), -bb(0.0f64),
        a.max(nan), nan.max(a), a.min(nan), nan.min(b), a.max(b), a.min(b),
        UlpUtils::ulp(bb(1.0)), UlpUtils::ulp(bb(0.0)), UlpUtils::ulp(bb(-1.0)), UlpUtils::ulp(big), UlpUtils::ulp(a), UlpUtils::ulp(inf),
        UlpUtils::next_float(bb(1.0)), UlpUtils::next_float(bb(0.0)), UlpUtils::next_float(bb(-0.0)), UlpUtils::next_float(bb(-1.0)), UlpUtils::next_float(-inf),
        UlpUtils::prev_float(bb(1.0)), UlpUtils::prev_float(bb(0.0)), UlpUtils::prev_float(bb(-0.0)), UlpUtils::prev_float(bb(-1.0)), UlpUtils::prev_float(inf),
        1e-4, 1e-5, 1e-6, 1e-9, 1e-12, 0.00000095367432, 0.00000000093132257,
        0.03125, 0.0009765625, 0.00048828125,
        i32::MIN as f64, i32::MAX as f64, 3.0 * a, a / 2.0,
        (a / bb(1e-6)).ceil() * 1e-6, (c / bb(1e-6)).floor() * 1e-6, f(4636737291354636288).abs() * 1e-5,
        big / 512.0, inf - inf, bb(0.0f64) / bb(0.0f64),
    ];
    let is: Vec<i32> = vec![
        bb(2.7f64) as i32, bb(-2.7f64) as i32, bb(1e30f64) as i32, bb(-1e30f64) as i32, nan as i32, inf as i32, (-inf) as i32,
        bb(2147483647.5f64) as i32, bb(-0.0f64) as i32,
    ];
    let us: Vec<usize> = vec![
        bb(2.7f64) as usize, bb(-2.7f64) as usize, bb(1e30f64) as usize, nan as usize, inf as usize, (-inf) as usize, bb(1e15f64) as usize,
    ];
    let bs: Vec<bool> = vec![
        a < nan, nan <= nan, bb(0.0f64) == bb(-0.0f64), nan == nan, inf > big, inf.is_infinite(), (-inf).is_infinite(), nan.is_infinite(),
        nan.is_finite(), big.is_finite(), nan.is_nan(), inf.is_nan(),
    ];
    format!(
        "{} | {} | {} | {}",
        xs.iter().map(|x| sf(*x)).collect::<Vec<_>>().join(" "),
        is.iter().map(|x| x.to_string()).collect::<Vec<_>>().join(" "),
        us.iter().map(|x| x.to_string()).collect::<Vec<_>>().join(" "),
        bs.iter().map(|x| crate::out::b(*x)).collect::<Vec<_>>().join(" ")
    )
}

// ---------------------------------------------------------------------------------------------
// propagator specs
// ---------------------------------------------------------------------------------------------
#[derive(Clone, Debug)]
pub enum FK {
    Leq(FVS, FVS),
    Eq(FVS, FVS),
    Lt(FVS, FVS),
    /// kind 0..5 = lineq, linle, linne, lineqr, linler, linner
    Lin(u8, Vec<f64>, Vec<usize>, f64, Option<usize>),
}
const LIN_NAMES: [&str; 6] = ["lineq", "linle", "linne", "lineqr", "linler", "linner"];
impl FK {
    pub fn tokens(&self) -> String {
        match self {
            FK::Leq(x, y) => format!("leq {} {}", x.tokens(), y.tokens()),
            FK::Eq(x, y) => format!("eq {} {}", x.tokens(), y.tokens()),
            FK::Lt(x, y) => format!("lt {} {}", x.tokens(), y.tokens()),
            FK::Lin(k, cs, xs, c, b) => {
                let mut s = format!(
                    "{} {} {} {} {}",
                    LIN_NAMES[*k as usize],
                    xs.len(),
                    cs.iter().map(|c| sf(*c)).collect::<Vec<_>>().join(" "),
                    xs.iter().map(|x| x.to_string()).collect::<Vec<_>>().join(" "),
                    sf(*c)
                );
                if let Some(b) = b {
                    s.push_str(&format!(" {b}"));
                }
                s
            }
        }
    }
    fn name(&self) -> &'static str {
        match self {
            FK::Leq(..) => "leq",
            FK::Eq(..) => "eq",
            FK::Lt(..) => "lt",
            FK::Lin(k, ..) => LIN_NAMES[*k as usize],
        }
    }
    fn parse(ws: &[&str]) -> Option<FK> {
        let mut t = ws.iter();
        let kind = *t.next()?;
        match kind {
            "leq" | "eq" | "lt" => {
                let x = FVS::parse(&mut t)?;
                let y = FVS::parse(&mut t)?;
                Some(match kind {
                    "leq" => FK::Leq(x, y),
                    "eq" => FK::Eq(x, y),
                    _ => FK::Lt(x, y),
                })
            }
            _ => {
                let k = LIN_NAMES.iter().position(|n| *n == kind)? as u8;
                let n: usize = t.next()?.parse().ok()?;
                let mut cs = vec![];
                for _ in 0..n {
                    cs.push(pf(t.next()?)?);
                }
                let mut xs = vec![];
                for _ in 0..n {
                    xs.push(t.next()?.parse().ok()?);
                }
                let c = pf(t.next()?)?;
                let b = if k >= 3 { Some(t.next()?.parse().ok()?) } else { None };
                Some(FK::Lin(k, cs, xs, c, b))
            }
        }
    }
    fn max_var(&self) -> Option<usize> {
        match self {
            FK::Leq(x, y) | FK::Eq(x, y) | FK::Lt(x, y) => x.max_var().max(y.max_var()),
            FK::Lin(_, _, xs, _, b) => xs.iter().cloned().chain(*b).max(),
        }
    }
    fn post(&self, props: &mut Propagators, ids: &[VarId]) -> PropId {
        struct Bin<'a> { props: &'a mut Propagators, ids: &'a [VarId], y: &'a FVS, kind: u8 }
        impl<'a> VK for Bin<'a> {
            type Out = PropId;
            fn call<V: View>(self, x: V) -> PropId {
                struct Bin2<'a, X: View> { props: &'a mut Propagators, x: X, kind: u8 }
                impl<'a, X: View> VK for Bin2<'a, X> {
                    type Out = PropId;
                    fn call<Y: View>(self, y: Y) -> PropId {
                        match self.kind {
                            0 => self.props.less_than_or_equals(self.x, y),
                            1 => self.props.equals(self.x, y),
                            _ => self.props.less_than(self.x, y),
                        }
                    }
                }
                lvl1(self.y, self.ids, Bin2 { props: self.props, x, kind: self.kind })
            }
        }
        match self {
            FK::Leq(x, y) => lvl1(x, ids, Bin { props, ids, y, kind: 0 }),
            FK::Eq(x, y) => lvl1(x, ids, Bin { props, ids, y, kind: 1 }),
            FK::Lt(x, y) => lvl1(x, ids, Bin { props, ids, y, kind: 2 }),
            FK::Lin(k, cs, xs, c, b) => {
                let vs: Vec<VarId> = xs.iter().map(|x| ids[*x]).collect();
                match k {
                    0 => props.float_lin_eq(cs.clone(), vs, *c),
                    1 => props.float_lin_le(cs.clone(), vs, *c),
                    2 => props.float_lin_ne(cs.clone(), vs, *c),
                    3 => props.float_lin_eq_reif(cs.clone(), vs, *c, ids[b.unwrap()]),
                    4 => props.float_lin_le_reif(cs.clone(), vs, *c, ids[b.unwrap()]),
                    _ => props.float_lin_ne_reif(cs.clone(), vs, *c, ids[b.unwrap()]),
                }
            }
        }
    }
}

// ---------------------------------------------------------------------------------------------
// applying one protocol line to the real code (+ oracles)
// ---------------------------------------------------------------------------------------------

/// never-widen check shared by `fl.ctx.*` and `fl.prune`
fn check_never_widens(out: &mut Out, l: usize, what: &str, before: &[VState], after: &[VState]) {
    for (i, (b, a)) in before.iter().zip(after).enumerate() {
        match (b, a) {
            (VState::F(bl, bh, bs), VState::F(al, ah, as_)) => {
                if !valid_iv(*bl, *bh, *bs) {
                    continue;
                }
                if al < bl || ah > bh || as_.to_bits() != bs.to_bits() {
                    out.fail(l, "C12", "-", format!("{what}: float variable {i} widened: [{bl:e},{bh:e}] -> [{al:e},{ah:e}]"));
                }
            }
            (VState::I(bv), VState::I(av)) => {
                if !av.iter().all(|v| bv.contains(v)) {
                    out.fail(l, "C12", "-", format!("{what}: integer variable {i} grew: {bv:?} -> {av:?}"));
                }
            }
            _ => out.fail(l, "C12", "-", format!("{what}: variable {i} changed its kind")),
        }
    }
}

fn events_vs_changes(out: &mut Out, l: usize, what: &str, fc: &FCase, before: &[VState], after: &[VState], ev: &[VarId]) {
    for i in 0..before.len() {
        let changed = before[i] != after[i] && {
            // bit-level comparison for floats (PartialEq on f64 treats 0.0 == -0.0)
            match (&before[i], &after[i]) {
                (VState::F(a, b, _), VState::F(c, d, _)) => a.to_bits() != c.to_bits() || b.to_bits() != d.to_bits(),
                _ => true,
            }
        };
        let evd = ev.contains(&fc.ids[i]);
        if changed && !evd {
            out.fail(l, "C12", "-", format!("{what}: variable {i} changed without an event"));
        }
        if evd && !changed {
            out.stat("ev.without-change");
        }
    }
}

/// C12 float oracle for a plain float variable and a bound `m` (exact arithmetic)
fn oracle_ctx_float(out: &mut Out, l: usize, is_min: bool, old: (f64, f64, f64), m: f64, int_bound: bool, res: Option<(f64, f64)>) {
    let (lo, hi, step) = old;
    if !valid_iv(lo, hi, step) || !m.is_finite() {
        return;
    }
    let (elo, ehi, es, em) = (exf(lo), exf(hi), exf(step), exf(m));
    let what = format!("try_set_{} {m:e} on [{lo:e},{hi:e}] step {step:e}", if is_min { "min" } else { "max" });
    let tag_inv = if int_bound { "float-int-bound-inverts-interval" } else { "-" };
    // the value that must survive: w = max(lo, m + step) (min) / min(hi, m - step) (max), if inside
    let (w, w_exists) = if is_min {
        let w = elo.max(&em.add(&es));
        let e = w.le(&ehi);
        (w, e)
    } else {
        let t = em.sub(&es);
        let w = if ehi.lt(&t) { ehi.clone() } else { t };
        let e = w.ge(&elo);
        (w, e)
    };
    match res {
        None => {
            out.stat("ctx.f.fail");
            if w_exists {
                out.fail(l, "C12", "-", format!("{what}: failed although the value {:e} lies in the interval one step inside the bound", w.approx()));
            }
        }
        Some((nlo, nhi)) => {
            if nlo > nhi {
                out.fail(l, "C12", tag_inv, format!("{what}: succeeded with the inverted interval [{nlo:e},{nhi:e}]"));
            }
            if w_exists {
                let kept = exf(nlo).le(&w) && w.le(&exf(nhi));
                if !kept {
                    out.fail(l, "C12", "-", format!("{what}: removed {:e} (more than one step inside the bound), new interval [{nlo:e},{nhi:e}]", w.approx()));
                }
            }
        }
    }
}

/// which branch of the (VarF, ValF) arms a call takes (statistics only; mirrors the conditions)
fn branch_stat(out: &mut Out, is_min: bool, old: (f64, f64, f64), m: f64) {
    let (lo, hi, step) = old;
    let tol = step / 2.0;
    if is_min {
        let pt = (3.0 * step).max(hi.abs() * 1e-5);
        let k = if (hi - lo).abs() < tol && (m - lo).abs() < pt {
            "fixed-close"
        } else if m > hi + tol {
            if (m - hi) > pt { "fail-gap" } else { "above-max-tolerated" }
        } else if m > lo + tol {
            if (m / step).ceil() * step > hi { "tighten-clamped" } else { "tighten" }
        } else {
            "nochange"
        };
        out.stat(&format!("branch.min.{k}"));
    } else {
        let pt = (3.0 * step).max(lo.abs() * 1e-5);
        let k = if (hi - lo).abs() < tol && (m - hi).abs() < pt {
            "fixed-close"
        } else if m < lo {
            let d = lo - m;
            if d <= step { "quantization-mismatch" } else if d > pt { "fail-gap" } else { "below-min-tolerated" }
        } else if m < hi - tol {
            if (m / step).floor() * step < lo { "tighten-clamped" } else { "tighten" }
        } else {
            "nochange"
        };
        out.stat(&format!("branch.max.{k}"));
    }
    if step < UlpUtils::ulp(m) {
        out.stat("branch.step-below-ulp");
    }
}

fn apply_ctx(fc: &mut FCase, out: &mut Out, line: &str, is_min: bool, v: &FVS, m: FV) {
    struct K<'a> { vars: &'a mut Vars, is_min: bool, m: Val }
    impl<'a> VK for K<'a> {
        type Out = (Option<Val>, Vec<VarId>);
        fn call<V: View>(self, v: V) -> Self::Out {
            let mut events = Vec::new();
            let r = {
                let mut ctx = Context::verif_new(self.vars, &mut events);
                if self.is_min { v.try_set_min(self.m, &mut ctx) } else { v.try_set_max(self.m, &mut ctx) }
            };
            (r, events)
        }
    }
    let before = fc.states();
    let ids = fc.ids.clone();
    let r = guarded(|| lvl2(v, &ids, K { vars: &mut fc.vars, is_min, m: m.val() }));
    let Some((res, events)) = r else {
        let l = out.emit(line, "panic");
        out.fail(l, "C17", "-", format!("panic in {line}"));
        return;
    };
    let after = fc.states();
    let shown = match &res {
        None => "none".to_string(),
        Some(ret) => format!("some ret={} {} {}", FV::show(*ret), fc.show_states(), fc.show_ev(&events)),
    };
    let l = out.emit(line, shown);
    out.stat(&format!("ctx.depth{}", v.depth()));
    if res.is_some() {
        check_never_widens(out, l, line, &before, &after);
        events_vs_changes(out, l, line, fc, &before, &after, &events);
    }
    // C12 oracle: plain variable
    if let FVS::V(x) = v {
        match (&before[*x], m) {
            (VState::F(lo, hi, st), FV::F(mf)) => {
                out.stat("ctx.arm.FF");
                branch_stat(out, is_min, (*lo, *hi, *st), mf);
                let r = res.map(|_| match &after[*x] { VState::F(a, b, _) => (*a, *b), _ => unreachable!() });
                oracle_ctx_float(out, l, is_min, (*lo, *hi, *st), mf, false, r);
            }
            (VState::F(lo, hi, st), FV::I(mi)) => {
                out.stat("ctx.arm.FI");
                let r = res.map(|_| match &after[*x] { VState::F(a, b, _) => (*a, *b), _ => unreachable!() });
                oracle_ctx_float(out, l, is_min, (*lo, *hi, *st), mi as f64, true, r);
            }
            (VState::I(d), FV::F(mf)) => {
                out.stat("ctx.arm.IF");
                if mf.is_finite() && !d.is_empty() {
                    // exact integer semantics: keep exactly the values >= m (<= m)
                    let keep: Vec<i32> = d.iter().cloned().filter(|w| if is_min { (*w as f64) >= mf } else { (*w as f64) <= mf }).collect();
                    match &res {
                        None => {
                            if !keep.is_empty() {
                                out.fail(l, "C12", "-", format!("{line}: failed although {keep:?} satisfy the bound"));
                            }
                        }
                        Some(_) => {
                            if after[*x] != VState::I(keep.clone()) {
                                out.fail(l, "C12", "-", format!("{line}: left {:?}, exactly {keep:?} satisfy the bound", after[*x]));
                            }
                        }
                    }
                }
            }
            (VState::I(_), FV::I(_)) => out.stat("ctx.arm.II"),
        }
    }
}

fn apply_mm(fc: &mut FCase, out: &mut Out, line: &str, v: &FVS) {
    struct K<'a> { vars: &'a mut Vars }
    impl<'a> VK for K<'a> {
        type Out = (Val, Val, bool);
        fn call<V: View>(self, v: V) -> Self::Out {
            let mut events = Vec::new();
            let ctx = Context::verif_new(self.vars, &mut events);
            (v.min(&ctx), v.max(&ctx), v.result_type(&ctx) == selen::variables::views::ViewType::Float)
        }
    }
    let ids = fc.ids.clone();
    match guarded(|| lvl2(v, &ids, K { vars: &mut fc.vars })) {
        None => {
            let l = out.emit(line, "panic");
            out.fail(l, "C17", "-", format!("panic in {line}"));
        }
        Some((a, b, f)) => {
            out.emit(line, format!("min={} max={} float={}", FV::show(a), FV::show(b), crate::out::b(f)));
        }
    }
}

/// exact check: is `a` inside every variable's domain
fn witness_inside(states: &[VState], a: &[FV]) -> Option<usize> {
    for (i, (s, w)) in states.iter().zip(a).enumerate() {
        let ok = match (s, w) {
            (VState::F(lo, hi, _), w) => *lo <= w.as_f64() && w.as_f64() <= *hi,
            (VState::I(d), FV::I(w)) => d.contains(w),
            (VState::I(_), FV::F(_)) => false,
        };
        if !ok {
            return Some(i);
        }
    }
    None
}

/// for a linear row: exact slack `C - sum c_i a_i` and the margin the oracle demands
fn row_slack(cs: &[f64], xs: &[usize], c: f64, a: &[FV], states: &[VState]) -> Option<(Ex, Ex)> {
    if !c.is_finite() || cs.iter().any(|c| !c.is_finite()) {
        return None;
    }
    let mut sum = Ex::zero();
    let mut sum_abs_c = Ex::zero();
    let mut mag = Ex::zero();
    let mut step_max = Ex::zero();
    for (ci, xi) in cs.iter().zip(xs) {
        let ai = exf(a.get(*xi)?.as_f64());
        sum = sum.add(&exf(*ci).mul(&ai));
        sum_abs_c = sum_abs_c.add(&exf(*ci).abs());
        match &states[*xi] {
            VState::F(lo, hi, st) => {
                if !valid_iv(*lo, *hi, *st) {
                    return None;
                }
                step_max = step_max.max(&exf(*st));
                mag = mag.add(&exf(*ci).abs().mul(&exf(lo.abs().max(hi.abs()))));
            }
            VState::I(d) => {
                let m = d.iter().map(|v| v.unsigned_abs()).max().unwrap_or(0);
                mag = mag.add(&exf(*ci).abs().mul(&Ex::from_i64(m as i64)));
            }
        }
    }
    mag = mag.add(&exf(c).abs());
    // demanded margin: 4 * step_max * sum|c|  +  2^-40 * (sum |c_i| * max|bound_i| + |C|)
    let margin = step_max.mul(&sum_abs_c).scale2(2).add(&mag.scale2(-40));
    Some((exf(c).sub(&sum), margin))
}

fn apply_prune(fc: &mut FCase, out: &mut Out, line: &str, k: &FK) {
    let before = fc.states();
    let ids = fc.ids.clone();
    let r = guarded(|| {
        let mut props = Propagators::default();
        for _ in &ids {
            props.on_new_var();
        }
        let p = k.post(&mut props, &ids);
        let mut events = Vec::new();
        let res = {
            let mut ctx = Context::verif_new(&mut fc.vars, &mut events);
            props.get_state(p).as_ref().prune(&mut ctx)
        };
        res.map(|_| events)
    });
    let Some(res) = r else {
        let l = out.emit(line, "panic");
        out.fail(l, "C17", "-", format!("panic in {line}"));
        return;
    };
    let after = fc.states();
    let shown = match &res {
        None => "none".to_string(),
        Some(ev) => format!("some {} {}", fc.show_states(), fc.show_ev(ev)),
    };
    let l = out.emit(line, shown);
    out.stat(&format!("prune.{}", k.name()));
    out.stat(if res.is_none() { "prune.result.fail" } else if before != after { "prune.result.changed" } else { "prune.result.fixpoint" });
    if let Some(ev) = &res {
        check_never_widens(out, l, line, &before, &after);
        events_vs_changes(out, l, line, fc, &before, &after, ev);
    }
    // C07 oracle: the witness point survives rows it satisfies with margin
    let Some(a) = fc.witness.clone() else { return };
    if a.len() != before.len() || witness_inside(&before, &a).is_some() {
        return;
    }
    if let FK::Lin(kind @ (0 | 1), cs, xs, c, None) = k {
        let Some((slack, margin)) = row_slack(cs, xs, *c, &a, &before) else { return };
        let applies = if *kind == 1 { slack.ge(&margin) } else { slack.is_zero() && on_grid(&a, xs, &before) };
        if !applies {
            out.stat("prune.oracle.witness-not-applicable");
            return;
        }
        out.stat(if *kind == 1 { "prune.oracle.le-margin" } else { "prune.oracle.eq-exact" });
        match &res {
            None => out.fail(l, "C07", "-", format!("{line}: failed although the witness {a:?} satisfies the row with slack {:e} (demanded margin {:e})", slack.approx(), margin.approx())),
            Some(_) => {
                if let Some(i) = witness_inside(&after, &a) {
                    out.fail(l, "C07", "-", format!("{line}: witness value {:?} of variable {i} removed (slack {:e}, demanded margin {:e}); {:?} -> {:?}", a[i], slack.approx(), margin.approx(), before[i], after[i]));
                }
            }
        }
    }
}

/// every float coordinate of the witness used by the row is an exact multiple of a dyadic step
fn on_grid(a: &[FV], xs: &[usize], states: &[VState]) -> bool {
    xs.iter().all(|x| match (&states[*x], a[*x]) {
        (VState::F(_, _, st), FV::F(w)) => {
            let q = w / st;
            // dyadic step: the quotient is exact; demand an integer
            st.to_bits() & ((1u64 << 52) - 1) == 0 && q.fract() == 0.0 && q.abs() < 9.0e15
        }
        (VState::I(_), FV::I(_)) => true,
        _ => false,
    })
}

/// FloatInterval primitive ops: result line + oracle (inside the interval, monotone)
fn apply_fi(fc: &mut FCase, out: &mut Out, line: &str, ws: &[&str]) {
    let iv = fc.fi.clone();
    let valid = valid_iv(iv.min, iv.max, iv.step);
    let arg = |i: usize| ws.get(i).and_then(|s| pf(s));
    let inside = |x: f64| iv.min <= x && x <= iv.max;
    match ws[0] {
        "fl.fi.new" | "fl.fi.step" | "fl.fi.raw" => {
            let (Some(lo), Some(hi)) = (arg(1), arg(2)) else { out.emit(line, "bad-op"); return };
            let r = match ws[0] {
                "fl.fi.new" => FloatInterval::new(lo, hi),
                "fl.fi.step" => FloatInterval::with_step(lo, hi, arg(3).unwrap_or(1.0)),
                _ => FloatInterval::with_step_unchecked(lo, hi, arg(3).unwrap_or(1.0)),
            };
            fc.fi = r.clone();
            out.emit(line, show_fi(&r));
            out.stat(ws[0]);
        }
        "fl.fi.isect" => {
            let (Some(lo), Some(hi), Some(s)) = (arg(1), arg(2), arg(3)) else { out.emit(line, "bad-op"); return };
            let o = FloatInterval::with_step_unchecked(lo, hi, s);
            let r = iv.intersect(&o);
            let l = out.emit(line, format!("{} {}", show_fi(&r), crate::out::b(iv.intersects(&o))));
            if valid && valid_iv(lo, hi, s) && (r.min < iv.min || r.max > iv.max || r.min < lo || r.max > hi) {
                out.fail(l, "C12", "-", format!("{line}: intersection not inside both operands"));
            }
        }
        "fl.fi.mid" => {
            let r = guarded(|| iv.mid());
            let l = out.emit(line, r.map(sf).unwrap_or("panic".into()));
            out.stat("fl.fi.mid");
            match r {
                None => { if valid { out.fail(l, "C17", "-", format!("mid panicked on a valid interval {iv:?}")); } }
                Some(m) => { if valid && !inside(m) { out.fail(l, "C12", "-", format!("mid {m:e} outside {iv:?}")); } }
            }
        }
        "fl.fi.q" => {
            let r = match ws.get(1).copied() {
                Some("fixed") => crate::out::b(iv.is_fixed()).to_string(),
                Some("empty") => crate::out::b(iv.is_empty()).to_string(),
                Some("steps") => iv.step_count().to_string(),
                Some("size") => sf(iv.size()),
                Some("contains") => match arg(2) { Some(x) => crate::out::b(iv.contains(x)).to_string(), None => "bad-op".into() },
                _ => "bad-op".into(),
            };
            let l = out.emit(line, r.clone());
            if valid && ws.get(1) == Some(&"contains") {
                if let Some(x) = arg(2) {
                    if inside(x) && r != "1" {
                        out.fail(l, "C12", "-", format!("contains({x:e}) false for a point inside {iv:?}"));
                    }
                }
            }
        }
        "fl.fi.next" | "fl.fi.prev" | "fl.fi.round" | "fl.fi.floor" | "fl.fi.ceil" => {
            let Some(x) = arg(1) else { out.emit(line, "bad-op"); return };
            let f = |x: f64| -> Option<f64> {
                guarded(|| match ws[0] {
                    "fl.fi.next" => iv.next(x),
                    "fl.fi.prev" => iv.prev(x),
                    "fl.fi.round" => iv.round_to_step(x),
                    "fl.fi.floor" => iv.floor_to_step(x),
                    _ => iv.ceil_to_step(x),
                })
            };
            let r = f(x);
            let l = out.emit(line, r.map(sf).unwrap_or("panic".into()));
            out.stat(ws[0]);
            if !valid || !x.is_finite() {
                return;
            }
            let Some(r) = r else { out.fail(l, "C17", "-", format!("{line}: panic on a valid interval {iv:?}")); return };
            let step_path = !(iv.step < UlpUtils::ulp(x));
            out.stat(if step_path { "fi.step-path" } else { "fi.ulp-path" });
            let is_np = ws[0] == "fl.fi.next" || ws[0] == "fl.fi.prev";
            if (!is_np || inside(x)) && !inside(r) {
                out.fail(l, "C12", "-", format!("{line}: result {r:e} outside {iv:?}"));
            }
            if ws[0] == "fl.fi.next" && inside(x) && r < x {
                out.fail(l, "C12", "-", format!("{line}: next({x:e}) = {r:e} is smaller"));
            }
            if ws[0] == "fl.fi.prev" && inside(x) && r > x {
                out.fail(l, "C12", "-", format!("{line}: prev({x:e}) = {r:e} is larger"));
            }
            // monotone: compare with neighbours of x (deterministic function of the line)
            for x2 in [UlpUtils::next_float(x), x + iv.step / 3.0, x + iv.step, x + 2.5 * iv.step, iv.max, x.abs() * 2.0 + 1.0] {
                if !x2.is_finite() || x2 < x || (is_np && !(inside(x) && inside(x2))) {
                    continue;
                }
                if let Some(r2) = f(x2) {
                    if r2 < r {
                        out.fail(l, "C12", "-", format!("{line}: not monotone: f({x:e}) = {r:e} > f({x2:e}) = {r2:e} on {iv:?}"));
                        break;
                    }
                }
            }
        }
        "fl.fi.below" | "fl.fi.above" | "fl.fi.assign" => {
            let Some(x) = arg(1) else { out.emit(line, "bad-op"); return };
            let mut w = iv.clone();
            let r = guarded(|| {
                match ws[0] {
                    "fl.fi.below" => w.remove_below(x),
                    "fl.fi.above" => w.remove_above(x),
                    _ => w.assign(x),
                }
                w
            });
            out.stat(ws[0]);
            match r {
                None => {
                    let l = out.emit(line, "panic");
                    if valid && x.is_finite() {
                        out.fail(l, "C17", "-", format!("{line}: panic on a valid interval {iv:?}"));
                    }
                }
                Some(w) => {
                    fc.fi = w.clone();
                    let l = out.emit(line, show_fi(&w));
                    if !valid || !x.is_finite() {
                        return;
                    }
                    if w.is_empty() {
                        out.stat("fi.made-empty");
                        // emptied: only allowed when no value one step inside the threshold exists
                        let (es, ex) = (exf(iv.step), exf(x));
                        let survivor_exists = match ws[0] {
                            "fl.fi.below" => exf(iv.max).ge(&ex.add(&es)),
                            "fl.fi.above" => exf(iv.min).le(&ex.sub(&es)),
                            _ => true,
                        };
                        if survivor_exists {
                            out.fail(l, "C12", "-", format!("{line}: interval {iv:?} emptied although values one step inside the threshold exist"));
                        }
                        return;
                    }
                    if w.min < iv.min || w.max > iv.max {
                        out.fail(l, "C12", "-", format!("{line}: {iv:?} widened to {w:?}"));
                    }
                    let (es, ex) = (exf(iv.step), exf(x));
                    // excess over "one step" of at most 4 ulps of the largest magnitude involved is
                    // IEEE rounding of `min + k*step` (known finding `fi-grid-rounding-ulp`)
                    let ulp_mag = UlpUtils::ulp(iv.min.abs().max(iv.max.abs()).max(x.abs()));
                    if ws[0] == "fl.fi.below" {
                        let wv = exf(iv.min).max(&ex.add(&es));
                        if wv.le(&exf(iv.max)) && exf(w.min).gt(&wv) {
                            let tag = if exf(w.min).sub(&wv).le(&exf(4.0 * ulp_mag)) { "fi-grid-rounding-ulp" } else { "-" };
                            out.fail(l, "C12", tag, format!("{line}: removed {:e}, more than one step above the threshold ({iv:?} -> {w:?})", wv.approx()));
                        }
                    }
                    if ws[0] == "fl.fi.above" {
                        let t = ex.sub(&es);
                        let wv = if exf(iv.max).lt(&t) { exf(iv.max) } else { t };
                        if wv.ge(&exf(iv.min)) && exf(w.max).lt(&wv) {
                            let tag = if wv.sub(&exf(w.max)).le(&exf(4.0 * ulp_mag)) { "fi-grid-rounding-ulp" } else { "-" };
                            out.fail(l, "C12", tag, format!("{line}: removed {:e}, more than one step below the threshold ({iv:?} -> {w:?})", wv.approx()));
                        }
                    }
                }
            }
        }
        _ => {
            out.emit(line, "bad-op");
        }
    }
}

pub fn apply(fc: &mut FCase, out: &mut Out, line: &str) {
    let ws: Vec<&str> = line.split_whitespace().collect();
    if ws.is_empty() {
        return;
    }
    match ws[0] {
        "fl.selftest" => {
            out.emit(line, selftest());
        }
        "fl.var" => match ws.get(1).copied() {
            Some("f") => {
                let (Some(lo), Some(hi), Some(st)) = (ws.get(2).and_then(|s| pf(s)), ws.get(3).and_then(|s| pf(s)), ws.get(4).and_then(|s| pf(s))) else {
                    out.emit(line, "bad-op");
                    return;
                };
                let id = fc.vars.new_var_with_bounds_and_step(Val::ValF(lo), Val::ValF(hi), st);
                fc.ids.push(id);
                out.emit(line, format!("var {}", fc.ids.len() - 1));
                out.stat("var.f");
            }
            Some("i") => {
                let vs: Option<Vec<i32>> = ws[2..].iter().map(|s| s.parse().ok()).collect();
                match vs {
                    Some(vs) if !vs.is_empty() => {
                        let id = fc.vars.new_var_with_values(vs);
                        fc.ids.push(id);
                        out.emit(line, format!("var {}", fc.ids.len() - 1));
                        out.stat("var.i");
                    }
                    _ => {
                        out.emit(line, "bad-op");
                    }
                }
            }
            _ => {
                out.emit(line, "bad-op");
            }
        },
        "fl.witness" => {
            let mut t = ws[1..].iter();
            let mut a = vec![];
            while let Some(v) = FV::parse(&mut t) {
                a.push(v);
            }
            fc.witness = Some(a);
            out.emit(line, "ok");
        }
        "fl.ctx.min" | "fl.ctx.max" | "fl.view.mm" => {
            let mut t = ws[1..].iter();
            let Some(v) = FVS::parse(&mut t) else { out.emit(line, "bad-op"); return };
            if v.depth() > 2 || v.max_var().map_or(false, |m| m >= fc.ids.len()) {
                out.emit(line, "bad-op");
                return;
            }
            if ws[0] == "fl.view.mm" {
                apply_mm(fc, out, line, &v);
                return;
            }
            let Some(m) = FV::parse(&mut t) else { out.emit(line, "bad-op"); return };
            apply_ctx(fc, out, line, ws[0] == "fl.ctx.min", &v, m);
        }
        "fl.prune" => {
            let Some(k) = FK::parse(&ws[1..]) else { out.emit(line, "bad-op"); return };
            if k.max_var().map_or(false, |m| m >= fc.ids.len()) {
                out.emit(line, "bad-op");
                return;
            }
            apply_prune(fc, out, line, &k);
        }
        w if w.starts_with("fl.fi.") => apply_fi(fc, out, line, &ws),
        _ => {
            out.emit(line, "bad-op");
        }
    }
}

// ---------------------------------------------------------------------------------------------
// replay
// ---------------------------------------------------------------------------------------------
thread_local! {
    static REPLAY: RefCell<(usize, Option<FCase>)> = RefCell::new((usize::MAX, None));
}

/// replay of one protocol line of this suite inside the current case
pub fn replay_line(out: &mut Out, line: &str) {
    // the current case = the last `case` line already emitted
    let case_idx = out.ops.iter().rposition(|l| l.starts_with("case ")).unwrap_or(0);
    REPLAY.with(|r| {
        let mut r = r.borrow_mut();
        if r.0 != case_idx || r.1.is_none() {
            *r = (case_idx, Some(FCase::new()));
        }
        let fc = r.1.as_mut().unwrap();
        if line.starts_with("#flapi ") {
            api_line(out, line);
        } else {
            apply(fc, out, line);
        }
    });
}

// ---------------------------------------------------------------------------------------------
// generators
// ---------------------------------------------------------------------------------------------
fn ulps(x: f64, k: i64) -> f64 {
    let mut v = x;
    for _ in 0..k.abs() {
        v = if k > 0 { UlpUtils::next_float(v) } else { UlpUtils::prev_float(v) };
    }
    v
}

fn gen_step(r: &mut Rng) -> f64 {
    match r.below(10) {
        0..=3 => (-(r.range(0, 30) as f64)).exp2(),
        4..=7 => precision_to_step_size(r.range(1, 12) as i32),
        8 => *r.pick(&[1.0, 32.0, 0.03125, 0.0009765625, 0.00000095367432, 0.00000000093132257]),
        _ => *r.pick(&[0.1, 0.25, 0.3, 2.0, 0.5]),
    }
}

/// a value near the grid of `step`, scaled to a magnitude class
fn gen_grid_value(r: &mut Rng, step: f64) -> f64 {
    let k = match r.below(8) {
        0 => 0,
        1 => r.range(-3, 3),
        2..=4 => r.range(-2000, 2000),
        5 => r.range(-2_000_000, 2_000_000),
        6 => r.range(-4_000_000_000_000, 4_000_000_000_000), // step may drop below ulp(value)
        _ => r.range(-40, 40),
    };
    let v = k as f64 * step;
    let v = match r.below(8) {
        0 => ulps(v, 1),
        1 => ulps(v, -1),
        2 => v + step / 2.0,
        3 => v + step * (r.below(1000) as f64 / 1000.0),
        _ => v,
    };
    if v == 0.0 && r.chance(1, 2) { -0.0 } else { v }
}

fn gen_interval(r: &mut Rng) -> (f64, f64, f64) {
    let step = gen_step(r);
    let a = gen_grid_value(r, step);
    let b = match r.below(6) {
        0 => a, // fixed
        1 => a + step * r.range(0, 3) as f64,
        2 => a + step * r.range(0, 3000) as f64,
        _ => gen_grid_value(r, step),
    };
    let (lo, hi) = if a <= b { (a, b) } else { (b, a) };
    (lo, hi, step)
}

/// a bound that exercises the branches of the float arms around [lo, hi]
fn gen_bound(r: &mut Rng, lo: f64, hi: f64, step: f64) -> f64 {
    let base = match r.below(4) {
        0 => lo,
        1 => hi,
        2 => lo + (hi - lo) * (r.below(1001) as f64 / 1000.0),
        _ => ((lo + (hi - lo) * (r.below(1001) as f64 / 1000.0)) / step).round() * step,
    };
    let pt_hi = (3.0 * step).max(hi.abs() * 1e-5);
    let pt_lo = (3.0 * step).max(lo.abs() * 1e-5);
    let d = match r.below(14) {
        0 => 0.0,
        1 => step / 2.0,
        2 => -step / 2.0,
        3 => step,
        4 => -step,
        5 => 3.0 * step,
        6 => -3.0 * step,
        7 => pt_hi,
        8 => -pt_lo,
        9 => step * r.range(-5, 5) as f64 * 0.37,
        10 => step * r.range(-2000, 2000) as f64,
        11 => pt_hi * 1.5,
        12 => -pt_lo * 1.5,
        _ => step * 0.999,
    };
    let v = base + d;
    match r.below(6) {
        0 => ulps(v, 1),
        1 => ulps(v, -1),
        2 => ulps(v, r.range(-3, 3)),
        _ => v,
    }
}

fn small_fv(r: &mut Rng, step: f64) -> FV {
    if r.chance(1, 2) {
        FV::I(r.range(-4, 4) as i32)
    } else {
        FV::F(match r.below(4) {
            0 => r.range(-8, 8) as f64 * 0.5,
            1 => r.range(-30, 30) as f64 * step,
            2 => 0.1 * r.range(-20, 20) as f64,
            _ => r.range(1, 4) as f64,
        })
    }
}

fn gen_view(r: &mut Rng, x: usize, step: f64, depth: usize) -> FVS {
    if depth == 0 {
        return FVS::V(x);
    }
    let inner = Box::new(gen_view(r, x, step, depth - 1));
    let nz = |r: &mut Rng, neg: bool| -> FV {
        if r.chance(1, 2) {
            let k = r.range(1, 4) as i32;
            FV::I(if neg { -k } else { k })
        } else {
            let k = *r.pick(&[0.5, 2.0, 1.5, 0.1, 3.0, 1.0]);
            FV::F(if neg { -k } else { k })
        }
    };
    match r.below(8) {
        0 => FVS::Opp(inner),
        1 => FVS::Plus(small_fv(r, step), inner),
        2 => FVS::TPos(nz(r, false), inner),
        3 => {
            let s = match r.below(5) {
                0 => FV::I(0),
                1 => FV::F(0.0),
                2 => nz(r, true),
                _ => nz(r, false),
            };
            FVS::Times(s, inner)
        }
        4 => FVS::TNeg(nz(r, true), inner),
        5 => FVS::Next(inner),
        6 => FVS::Prev(inner),
        _ => FVS::Plus(FV::F(step * r.range(-3, 3) as f64), inner),
    }
}

fn gen_int_dom(r: &mut Rng) -> Vec<i32> {
    let lo = r.range(-6, 4) as i32;
    let n = r.range(1, 6) as i32;
    let mut v: Vec<i32> = (lo..lo + n).filter(|_| r.chance(4, 5)).collect();
    if v.is_empty() {
        v.push(lo);
    }
    v
}

fn case_selftest(out: &mut Out) {
    out.case("selftest");
    let mut fc = FCase::new();
    apply(&mut fc, out, "fl.selftest");
}

fn case_fi(out: &mut Out, r: &mut Rng, id: &str) {
    out.case(id);
    let mut fc = FCase::new();
    let (lo, hi, step) = gen_interval(r);
    if r.chance(1, 4) {
        // the step table of `new`
        let w = *r.pick(&[2.0e6, 20000.0, 1000.0, 100.0, 1.0, 0.01, 0.0001, 16.0, 0.5, 512.0, 16384.0, 1048576.0, 0.00048828125]);
        let a = gen_grid_value(r, 0.5);
        let (x, y) = if r.chance(1, 5) { (a + w, a) } else { (a, a + w) };
        apply(&mut fc, out, &format!("fl.fi.new {} {}", sf(x), sf(y)));
    } else if r.chance(1, 6) {
        apply(&mut fc, out, &format!("fl.fi.step {} {} {}", sf(hi), sf(lo), sf(step)));
    } else {
        apply(&mut fc, out, &format!("fl.fi.step {} {} {}", sf(lo), sf(hi), sf(step)));
    }
    let n = r.range(3, 10);
    for _ in 0..n {
        let iv = fc.fi.clone();
        if iv.is_empty() {
            break;
        }
        let x = gen_bound(r, iv.min, iv.max, iv.step);
        let line = match r.below(16) {
            0 => format!("fl.fi.next {}", sf(x)),
            1 => format!("fl.fi.prev {}", sf(x)),
            2 => format!("fl.fi.round {}", sf(x)),
            3 => format!("fl.fi.floor {}", sf(x)),
            4 => format!("fl.fi.ceil {}", sf(x)),
            5 => "fl.fi.mid".to_string(),
            6 => format!("fl.fi.q contains {}", sf(x)),
            7 => "fl.fi.q fixed".to_string(),
            8 => "fl.fi.q steps".to_string(),
            9 => format!("fl.fi.below {}", sf(x)),
            10 => format!("fl.fi.above {}", sf(x)),
            11 => "fl.fi.q size".to_string(),
            12 => {
                let (a, b, s) = gen_interval(r);
                // Rust's f64::max/min on zeros of different sign is not modelled: avoid zeros
                let nz = |v: f64| if v == 0.0 { iv.step } else { v };
                format!("fl.fi.isect {} {} {}", sf(nz(a)), sf(nz(b).max(nz(a))), sf(s))
            }
            13 => format!("fl.fi.next {}", sf(iv.min + (iv.max - iv.min) * (r.below(11) as f64 / 10.0))),
            14 => format!("fl.fi.prev {}", sf(iv.min + (iv.max - iv.min) * (r.below(11) as f64 / 10.0))),
            _ => if r.chance(1, 3) { format!("fl.fi.assign {}", sf(x)) } else { "fl.fi.q empty".to_string() },
        };
        apply(&mut fc, out, &line);
    }
}

fn add_float_var(fc: &mut FCase, out: &mut Out, lo: f64, hi: f64, step: f64) {
    apply(fc, out, &format!("fl.var f {} {} {}", sf(lo), sf(hi), sf(step)));
}
fn add_int_var(fc: &mut FCase, out: &mut Out, d: &[i32]) {
    apply(fc, out, &format!("fl.var i {}", d.iter().map(|v| v.to_string()).collect::<Vec<_>>().join(" ")));
}

fn last_failed(out: &Out) -> bool {
    matches!(out.imp.last().map(|s| s.as_str()), Some("none") | Some("panic"))
}

fn case_ctx(out: &mut Out, r: &mut Rng, id: &str) {
    out.case(id);
    let mut fc = FCase::new();
    let (lo, hi, step) = gen_interval(r);
    add_float_var(&mut fc, out, lo, hi, step);
    let d = gen_int_dom(r);
    add_int_var(&mut fc, out, &d);
    let n = r.range(1, 6);
    for _ in 0..n {
        let x = if r.chance(4, 5) { 0 } else { 1 };
        let depth = match r.below(10) { 0..=5 => 0, 6..=8 => 1, _ => 2 };
        let v = gen_view(r, x, step, depth);
        let (clo, chi) = match fc.state(0) { VState::F(a, b, _) => (a, b), _ => (lo, hi) };
        let m = if x == 0 && depth == 0 {
            if r.chance(1, 6) {
                let c = if r.chance(1, 2) { clo } else { chi };
                FV::I((c + r.range(-2, 2) as f64 * 0.6).round().clamp(-1.0e9, 1.0e9) as i32)
            } else {
                FV::F(gen_bound(r, clo, chi, step))
            }
        } else if x == 1 && depth == 0 {
            if r.chance(1, 3) { FV::I(r.range(-8, 8) as i32) } else { FV::F(r.range(-16, 16) as f64 * 0.5 + if r.chance(1, 3) { 0.25 } else { 0.0 }) }
        } else if x == 0 {
            match r.below(3) {
                0 => FV::F(gen_bound(r, clo, chi, step)),
                1 => FV::F(gen_bound(r, clo, chi, step) * *r.pick(&[0.5, 2.0, -1.0, 1.0])),
                _ => FV::I((clo + (chi - clo) * 0.5).round().clamp(-1.0e9, 1.0e9) as i32 + r.range(-2, 2) as i32),
            }
        } else {
            small_fv(r, 0.5)
        };
        if r.chance(1, 3) {
            apply(&mut fc, out, &format!("fl.view.mm {}", v.tokens()));
        }
        let op = if r.chance(1, 2) { "fl.ctx.min" } else { "fl.ctx.max" };
        apply(&mut fc, out, &format!("{op} {} {}", v.tokens(), m.tokens()));
        if last_failed(out) {
            out.stat("case.ended-by-failure");
            return;
        }
    }
}

/// a store with a witness point and linear rows / comparisons around it
fn case_prune(out: &mut Out, r: &mut Rng, id: &str) {
    out.case(id);
    let mut fc = FCase::new();
    let nv = r.range(2, 5) as usize;
    let dyadic = r.chance(1, 2);
    let common_step = if dyadic { (-(r.range(0, 20) as f64)).exp2() } else { precision_to_step_size(r.range(1, 9) as i32) };
    let mut wit: Vec<FV> = vec![];
    let mut steps: Vec<f64> = vec![];
    for _ in 0..nv {
        if r.chance(1, 4) {
            let d = gen_int_dom(r);
            wit.push(FV::I(*r.pick(&d)));
            steps.push(0.0);
            add_int_var(&mut fc, out, &d);
        } else {
            let step = if r.chance(3, 4) { common_step } else if dyadic { (-(r.range(0, 20) as f64)).exp2() } else { gen_step(r) };
            let k = r.range(-3000, 3000);
            let w = k as f64 * step;
            let lo = (k - r.range(0, 2000)) as f64 * step;
            let hi = (k + r.range(0, 2000)) as f64 * step;
            let (lo, hi) = if r.chance(1, 8) { (w, w) } else { (lo, hi) };
            wit.push(FV::F(w));
            steps.push(step);
            add_float_var(&mut fc, out, lo, hi, step);
        }
    }
    // reification variable
    let breif = if r.chance(1, 3) {
        let d = match r.below(3) { 0 => vec![0, 1], 1 => vec![1], _ => vec![0] };
        wit.push(FV::I(*d.last().unwrap()));
        add_int_var(&mut fc, out, &d);
        Some(nv)
    } else {
        None
    };
    apply(&mut fc, out, &format!("fl.witness {}", wit.iter().map(|w| w.tokens()).collect::<Vec<_>>().join(" ")));
    let nrows = r.range(1, 4);
    for _ in 0..nrows {
        let kind = r.below(12);
        let line = if kind < 8 || breif.is_none() && kind < 10 {
            // linear row over a random subset
            let n = r.range(1, nv as i64) as usize;
            let mut xs: Vec<usize> = (0..nv).collect();
            for i in 0..nv {
                let j = r.range(i as i64, nv as i64 - 1) as usize;
                xs.swap(i, j);
            }
            xs.truncate(n);
            let cs: Vec<f64> = xs.iter().map(|_| match r.below(8) {
                0 => 0.0,
                1 => 1.0,
                2 => -1.0,
                3 => r.range(-5, 5) as f64,
                4 => r.range(-8, 8) as f64 * 0.5,
                5 => r.range(-30, 30) as f64 * 0.1,
                6 => 1e-13,
                _ => r.range(-400, 400) as f64 * 0.25,
            }).collect();
            let sum: f64 = cs.iter().zip(&xs).map(|(c, x)| c * wit[*x].as_f64()).sum();
            let sum_abs: f64 = cs.iter().map(|c| c.abs()).sum();
            let smax = steps.iter().cloned().fold(0.0, f64::max);
            let lk = if kind < 8 { *r.pick(&[0u8, 1, 1, 1, 2]) } else { 1 };
            let c = match lk {
                1 => match r.below(6) {
                    0 => sum,                                   // tight
                    1 => sum + smax * sum_abs * 0.5,            // below the margin
                    2 => sum - smax * sum_abs * r.range(1, 30) as f64, // violated by the witness
                    _ => sum + smax * sum_abs * r.range(5, 40) as f64 + sum.abs() * 1e-9,
                },
                _ => if r.chance(1, 5) { sum + smax * r.range(-3, 3) as f64 } else { sum },
            };
            match (kind, breif) {
                (8.., Some(b)) | (0..=2, Some(b)) if r.chance(1, 2) => FK::Lin(lk + 3, cs, xs, c, Some(b)).tokens(),
                _ => FK::Lin(lk, cs, xs, c, None).tokens(),
            }
        } else {
            // comparison between two views
            let x = r.below(nv as u64) as usize;
            let y = r.below(nv as u64) as usize;
            let dx = if r.chance(2, 3) { 0 } else { 1 };
            let dy = if r.chance(2, 3) { 0 } else { 1 };
            let vx = gen_view(r, x, common_step, dx);
            let vy = if r.chance(1, 5) { FVS::C(small_fv(r, common_step)) } else { gen_view(r, y, common_step, dy) };
            match r.below(3) {
                0 => FK::Leq(vx, vy).tokens(),
                1 => FK::Eq(vx, vy).tokens(),
                _ => FK::Lt(vx, vy).tokens(),
            }
        };
        apply(&mut fc, out, &format!("fl.prune {line}"));
        if last_failed(out) {
            out.stat("case.ended-by-failure");
            return;
        }
    }
}

/// malformed stream: NaN / inf bounds, zero / negative / NaN steps, inverted intervals (model
/// correspondence incl. panics only; the oracles skip invalid intervals)
fn case_malformed(out: &mut Out, r: &mut Rng, id: &str) {
    out.case(id);
    let mut fc = FCase::new();
    let weird = |r: &mut Rng| -> f64 {
        match r.below(9) {
            0 => f64::NAN,
            1 => f64::INFINITY,
            2 => f64::NEG_INFINITY,
            3 => 0.0,
            4 => -0.0,
            5 => f64::MAX,
            6 => f64::MIN_POSITIVE,
            7 => -1.0,
            _ => r.range(-50, 50) as f64 * 0.25,
        }
    };
    let (lo, hi) = (weird(r), weird(r));
    let step = match r.below(5) { 0 => 0.0, 1 => -0.5, 2 => f64::NAN, 3 => f64::INFINITY, _ => 0.25 };
    apply(&mut fc, out, &format!("fl.fi.raw {} {} {}", sf(lo), sf(hi), sf(step)));
    for _ in 0..r.range(2, 6) {
        let x = if r.chance(1, 2) { weird(r) } else { r.range(-60, 60) as f64 * 0.2 };
        let line = match r.below(12) {
            0 => format!("fl.fi.next {}", sf(x)),
            1 => format!("fl.fi.prev {}", sf(x)),
            2 => format!("fl.fi.round {}", sf(x)),
            3 => format!("fl.fi.floor {}", sf(x)),
            4 => format!("fl.fi.ceil {}", sf(x)),
            5 => "fl.fi.mid".to_string(),
            6 => format!("fl.fi.q contains {}", sf(x)),
            7 => "fl.fi.q fixed".to_string(),
            8 => "fl.fi.q steps".to_string(),
            9 => format!("fl.fi.below {}", sf(x)),
            10 => format!("fl.fi.above {}", sf(x)),
            _ => "fl.fi.q empty".to_string(),
        };
        apply(&mut fc, out, &line);
    }
    add_float_var(&mut fc, out, lo, hi, step);
    add_int_var(&mut fc, out, &[-1, 0, 2]);
    for _ in 0..r.range(1, 4) {
        let m = if r.chance(1, 4) { FV::I(r.range(-3, 3) as i32) } else { FV::F(if r.chance(1, 2) { weird(r) } else { r.range(-60, 60) as f64 * 0.2 }) };
        let x = if r.chance(3, 4) { 0 } else { 1 };
        let dv = if r.chance(2, 3) { 0 } else { 1 };
        let v = gen_view(r, x, 0.25, dv);
        let op = if r.chance(1, 2) { "fl.ctx.min" } else { "fl.ctx.max" };
        apply(&mut fc, out, &format!("{op} {} {}", v.tokens(), m.tokens()));
        if last_failed(out) {
            return;
        }
    }
    if r.chance(1, 2) {
        let cs = vec![weird(r), 1.0];
        let k = FK::Lin(r.below(3) as u8, cs, vec![0, 1], weird(r), None);
        apply(&mut fc, out, &format!("fl.prune {}", k.tokens()));
    }
}

/// small universe, exhaustively: every interval [a*step, b*step] with |a|,|b| <= u, every bound
/// h*step/2 with |h| <= 2u+4, both ops, plain variable
fn suite_exhaustive(out: &mut Out, u: i64) {
    for step in [0.25f64, 0.1, 1e-6] {
        for a in -u..=u {
            for b in a..=u {
                for h in (-2 * u - 4)..=(2 * u + 4) {
                    for is_min in [true, false] {
                        out.case(&format!("exh-{step}-{a}-{b}-{h}-{}", if is_min { "min" } else { "max" }));
                        let mut fc = FCase::new();
                        add_float_var(&mut fc, out, a as f64 * step, b as f64 * step, step);
                        let m = h as f64 * step / 2.0;
                        apply(&mut fc, out, &format!("{} v 0 f {}", if is_min { "fl.ctx.min" } else { "fl.ctx.max" }, sf(m)));
                    }
                }
            }
        }
    }
}

pub fn suite(out: &mut Out, seed: u64, count: u64, args: &[String]) {
    let mode = args.iter().position(|a| a == "--mode").and_then(|i| args.get(i + 1)).cloned().unwrap_or_else(|| "all".into());
    if mode == "replay" {
        // `float --mode replay --ops FILE`: re-run a protocol file of this suite verbatim
        // (incl. the `#flapi` lines, which the generic `replay` of main.rs does not dispatch)
        let path = args.iter().position(|a| a == "--ops").and_then(|i| args.get(i + 1)).cloned().unwrap_or_default();
        let text = std::fs::read_to_string(&path).unwrap_or_default();
        for line in text.lines() {
            if let Some(id) = line.strip_prefix("case ") {
                out.case(id.trim());
            } else if line.starts_with("fl.") || line.starts_with("#flapi ") {
                replay_line(out, line);
            }
        }
        return;
    }
    if mode == "exh" {
        let u: i64 = args.iter().position(|a| a == "--universe").and_then(|i| args.get(i + 1)).and_then(|s| s.parse().ok()).unwrap_or(3);
        case_selftest(out);
        suite_exhaustive(out, u);
        return;
    }
    let mut root = Rng::new(seed ^ 0xF10A7_C0DE);
    case_selftest(out);
    for c in 0..count {
        let mut r = root.fork();
        let id = format!("f{seed}-{c}");
        match (mode.as_str(), c % 10) {
            ("fi", _) | ("all", 0..=2) => case_fi(out, &mut r, &id),
            ("ctx", _) | ("all", 3..=5) => case_ctx(out, &mut r, &id),
            ("prune", _) | ("all", 6..=7) => case_prune(out, &mut r, &id),
            ("malformed", _) | ("all", 8) => case_malformed(out, &mut r, &id),
            _ => case_api(out, &mut r, &id),
        }
    }
}

// ---------------------------------------------------------------------------------------------
// API-level oracle stream (`#flapi` lines): float / mixed models built through
// `selen::prelude::Model` AROUND A WITNESS POINT; C07: solve() must not answer NoSolution;
// C06: the returned point lies in the declared bounds, integer variables take integer values of
// their domain and every row holds within  Σ|cᵢ|·(max(3·step, 1e-5·|xᵢ|) + 1.5·step).
// The Lean model answers `-` to these lines (oracle-only).
// ---------------------------------------------------------------------------------------------
use selen::prelude as sp;
use selen::prelude::{Model, ModelExt, SolverError, VarIdExt};
use selen::verif_hooks as hooks;

#[derive(Clone, Debug)]
enum AVar {
    F(f64, f64, f64), // lo hi witness
    I(i32, i32, i32),
}

#[derive(Clone, Debug)]
enum ARow {
    Le(Vec<f64>, Vec<usize>, f64),
    Eq(Vec<f64>, Vec<usize>, f64),
    VLe(usize, usize),
    VLt(usize, usize),
    VNe(usize, usize),
    VEq(usize, usize),
    CLe(usize, f64),
    CGe(usize, f64),
}

#[derive(Clone, Debug)]
struct AModel {
    digits: i32,
    style: u8,
    vars: Vec<AVar>,
    rows: Vec<ARow>,
}

impl AModel {
    fn line(&self) -> String {
        let vs: Vec<String> = self.vars.iter().map(|v| match v {
            AVar::F(a, b, w) => format!("f {} {} {}", sf(*a), sf(*b), sf(*w)),
            AVar::I(a, b, w) => format!("i {a} {b} {w}"),
        }).collect();
        let lin = |k: &str, cs: &Vec<f64>, xs: &Vec<usize>, c: &f64| {
            format!("{k} {} {} {} {}", xs.len(), cs.iter().map(|c| sf(*c)).collect::<Vec<_>>().join(" "), xs.iter().map(|x| x.to_string()).collect::<Vec<_>>().join(" "), sf(*c))
        };
        let rs: Vec<String> = self.rows.iter().map(|r| match r {
            ARow::Le(cs, xs, c) => lin("le", cs, xs, c),
            ARow::Eq(cs, xs, c) => lin("eq", cs, xs, c),
            ARow::VLe(x, y) => format!("vle {x} {y}"),
            ARow::VLt(x, y) => format!("vlt {x} {y}"),
            ARow::VNe(x, y) => format!("vne {x} {y}"),
            ARow::VEq(x, y) => format!("veq {x} {y}"),
            ARow::CLe(x, k) => format!("cle {x} {}", sf(*k)),
            ARow::CGe(x, k) => format!("cge {x} {}", sf(*k)),
        }).collect();
        format!("#flapi p={} style={} ; {} | {}", self.digits, self.style, vs.join(" ; "), rs.join(" ; "))
    }
    fn parse(line: &str) -> Option<AModel> {
        let rest = line.strip_prefix("#flapi ")?;
        let (head, rows) = rest.split_once(" | ")?;
        let mut parts = head.split(" ; ");
        let h: Vec<&str> = parts.next()?.split_whitespace().collect();
        let digits = h.first()?.strip_prefix("p=")?.parse().ok()?;
        let style = h.get(1)?.strip_prefix("style=")?.parse().ok()?;
        let mut vars = vec![];
        for p in parts {
            let w: Vec<&str> = p.split_whitespace().collect();
            match *w.first()? {
                "f" => vars.push(AVar::F(pf(w.get(1)?)?, pf(w.get(2)?)?, pf(w.get(3)?)?)),
                "i" => vars.push(AVar::I(w.get(1)?.parse().ok()?, w.get(2)?.parse().ok()?, w.get(3)?.parse().ok()?)),
                _ => return None,
            }
        }
        let mut rs = vec![];
        for p in rows.split(" ; ") {
            let w: Vec<&str> = p.split_whitespace().collect();
            let u = |i: usize| -> Option<usize> { w.get(i)?.parse().ok() };
            match *w.first()? {
                k @ ("le" | "eq") => {
                    let n = u(1)?;
                    let cs: Option<Vec<f64>> = (0..n).map(|i| pf(w.get(2 + i)?)).collect();
                    let xs: Option<Vec<usize>> = (0..n).map(|i| u(2 + n + i)).collect();
                    let c = pf(w.get(2 + 2 * n)?)?;
                    rs.push(if k == "le" { ARow::Le(cs?, xs?, c) } else { ARow::Eq(cs?, xs?, c) });
                }
                "vle" => rs.push(ARow::VLe(u(1)?, u(2)?)),
                "vlt" => rs.push(ARow::VLt(u(1)?, u(2)?)),
                "vne" => rs.push(ARow::VNe(u(1)?, u(2)?)),
                "veq" => rs.push(ARow::VEq(u(1)?, u(2)?)),
                "cle" => rs.push(ARow::CLe(u(1)?, pf(w.get(2)?)?)),
                "cge" => rs.push(ARow::CGe(u(1)?, pf(w.get(2)?)?)),
                _ => return None,
            }
        }
        Some(AModel { digits, style, vars, rows: rs })
    }
    fn is_float(&self, x: usize) -> bool {
        matches!(self.vars[x], AVar::F(..))
    }
    /// the witness value of variable `x`
    fn wit(&self, x: usize) -> f64 {
        match self.vars[x] { AVar::F(_, _, w) => w, AVar::I(_, _, w) => w as f64 }
    }
    /// build the selen model; returns the variable handles
    fn build(&self) -> (Model, Vec<sp::VarId>) {
        let cfg = sp::config::SolverConfig::default().with_float_precision(self.digits).with_timeout_ms(800);
        let mut m = Model::with_config(cfg);
        let ids: Vec<sp::VarId> = self.vars.iter().map(|v| match v {
            AVar::F(a, b, _) => m.float(*a, *b),
            AVar::I(a, b, _) => m.int(*a, *b),
        }).collect();
        for r in &self.rows {
            match (r, self.style) {
                (ARow::Le(cs, xs, c), 0) => { let vs: Vec<_> = xs.iter().map(|x| ids[*x]).collect(); m.lin_le(cs, &vs, *c) }
                (ARow::Eq(cs, xs, c), 0) => { let vs: Vec<_> = xs.iter().map(|x| ids[*x]).collect(); m.lin_eq(cs, &vs, *c) }
                (ARow::Le(cs, xs, c), 2) => { let vs: Vec<_> = xs.iter().map(|x| ids[*x]).collect(); sp::lin_le(&mut m, cs, &vs, *c) }
                (ARow::Eq(cs, xs, c), 2) => { let vs: Vec<_> = xs.iter().map(|x| ids[*x]).collect(); sp::lin_eq(&mut m, cs, &vs, *c) }
                (ARow::Le(cs, xs, c), _) | (ARow::Eq(cs, xs, c), _) => {
                    let mut e = ids[xs[0]].mul(sp::float(cs[0]));
                    for (ci, xi) in cs.iter().zip(xs).skip(1) {
                        e = e.add(ids[*xi].mul(sp::float(*ci)));
                    }
                    let k = if matches!(r, ARow::Le(..)) { e.le(sp::float(*c)) } else { e.eq(sp::float(*c)) };
                    m.new(k);
                }
                (ARow::VLe(x, y), 2) => sp::le(&mut m, ids[*x], ids[*y]),
                (ARow::VLt(x, y), 2) => sp::lt(&mut m, ids[*x], ids[*y]),
                (ARow::VNe(x, y), 2) => sp::ne(&mut m, ids[*x], ids[*y]),
                (ARow::VEq(x, y), 2) => sp::eq(&mut m, ids[*x], ids[*y]),
                (ARow::VLe(x, y), 0) => m.lin_le(&[1.0, -1.0], &[ids[*x], ids[*y]], 0.0),
                (ARow::VEq(x, y), 0) => m.lin_eq(&[1.0, -1.0], &[ids[*x], ids[*y]], 0.0),
                (ARow::VNe(x, y), 0) => m.lin_ne(&[1.0, -1.0], &[ids[*x], ids[*y]], 0.0),
                (ARow::VLe(x, y), _) => { m.new(ids[*x].le(ids[*y])); }
                (ARow::VLt(x, y), _) => { m.new(ids[*x].lt(ids[*y])); }
                (ARow::VNe(x, y), _) => { m.new(ids[*x].ne(ids[*y])); }
                (ARow::VEq(x, y), _) => { m.new(ids[*x].eq(ids[*y])); }
                (ARow::CLe(x, k), 0) => m.lin_le(&[1.0], &[ids[*x]], *k),
                (ARow::CGe(x, k), 0) => m.lin_le(&[-1.0], &[ids[*x]], -*k),
                (ARow::CLe(x, k), 2) => sp::le(&mut m, ids[*x], sp::float(*k)),
                (ARow::CGe(x, k), 2) => sp::ge(&mut m, ids[*x], sp::float(*k)),
                (ARow::CLe(x, k), _) => { m.new(ids[*x].le(sp::float(*k))); }
                (ARow::CGe(x, k), _) => { m.new(ids[*x].ge(sp::float(*k))); }
            }
        }
        (m, ids)
    }
    fn row_vars(&self, r: &ARow) -> Vec<(f64, usize)> {
        match r {
            ARow::Le(cs, xs, _) | ARow::Eq(cs, xs, _) => cs.iter().cloned().zip(xs.iter().cloned()).collect(),
            ARow::VLe(x, y) | ARow::VLt(x, y) | ARow::VNe(x, y) | ARow::VEq(x, y) => vec![(1.0, *x), (-1.0, *y)],
            ARow::CLe(x, _) => vec![(1.0, *x)],
            ARow::CGe(x, _) => vec![(-1.0, *x)],
        }
    }
    /// does the value vector `v` satisfy row `r` within the C06 tolerance (exact arithmetic);
    /// returns the violation description
    fn check_row(&self, r: &ARow, v: &[f64]) -> Option<String> {
        let step = precision_to_step_size(self.digits);
        let terms = self.row_vars(r);
        let mut lhs = Ex::zero();
        let mut tol = Ex::zero();
        for (c, x) in &terms {
            lhs = lhs.add(&exf(*c).mul(&exf(v[*x])));
            let t = (3.0 * step).max(1e-5 * v[*x].abs());
            tol = tol.add(&exf(*c).abs().mul(&exf(t).add(&exf(step).add(&exf(step).scale2(-1)))));
        }
        let rhs = match r {
            ARow::Le(_, _, c) | ARow::Eq(_, _, c) => exf(*c),
            ARow::CLe(_, k) => exf(*k),
            ARow::CGe(_, k) => exf(-*k),
            _ => Ex::zero(),
        };
        let d = lhs.sub(&rhs);
        let bad = match r {
            ARow::Le(..) | ARow::VLe(..) | ARow::CLe(..) | ARow::CGe(..) => d.gt(&tol),
            ARow::VLt(..) => d.ge(&tol),
            ARow::Eq(..) | ARow::VEq(..) => d.abs().gt(&tol),
            ARow::VNe(..) => d.is_zero(),
        };
        if bad { Some(format!("lhs-rhs = {:e}, tolerance {:e}", d.approx(), tol.approx())) } else { None }
    }
    /// does the witness satisfy the equality row EXACTLY (exact arithmetic on the f64 values)
    fn eq_exact_at_witness(&self, r: &ARow) -> bool {
        let w = |x: usize| match self.vars[x] { AVar::F(_, _, w) => w, AVar::I(_, _, w) => w as f64 };
        match r {
            ARow::Eq(cs, xs, c) => {
                let mut sum = Ex::zero();
                for (ci, xi) in cs.iter().zip(xs) {
                    sum = sum.add(&exf(*ci).mul(&exf(w(*xi))));
                }
                sum.sub(&exf(*c)).is_zero()
            }
            _ => true,
        }
    }
    fn row_tag(&self, r: &ARow) -> &'static str {
        let terms = self.row_vars(r);
        let all_int = terms.iter().filter(|(c, _)| c.abs() >= 1e-12).all(|(_, x)| !self.is_float(*x));
        match r {
            ARow::VNe(x, y) if self.is_float(*x) || self.is_float(*y) => "float-ne-ignored",
            ARow::Le(..) | ARow::CLe(..) | ARow::CGe(..) | ARow::VLe(..) if all_int => "int-var-in-float-linear",
            ARow::VLe(x, y) | ARow::VLt(x, y) | ARow::VEq(x, y) if self.is_float(*x) || self.is_float(*y) => "float-varvar-cmp-ignored",
            _ => "-",
        }
    }
}

fn api_run(out: &mut Out, am: &AModel) {
    let line = am.line();
    let l = out.emit(line.clone(), "-");
    out.stat("api.models");
    out.stat(&format!("api.style{}", am.style));
    hooks::take_path_flags();
    let solve = |am: &AModel| guarded(|| { let (m, ids) = am.build(); (m.solve(), ids) });
    let Some((res, ids)) = solve(am) else {
        out.fail(l, "C17", "-", format!("panic in solve() of {line}"));
        return;
    };
    let (lp, _fp) = hooks::take_path_flags();
    if lp {
        out.stat("api.root-lp-applied");
    }
    match res {
        Err(SolverError::NoSolution { .. }) => {
            out.stat("api.NoSolution");
            // attribution: does the model solve with the root LP step switched off?
            hooks::set_root_lp_disabled(true);
            let again = solve(am).map(|(r, _)| r.is_ok()).unwrap_or(false);
            hooks::set_root_lp_disabled(false);
            // an equality row that holds at the witness only up to the f64 rounding of its
            // constant is outside the strict hypothesis of C07 ("every equality exactly")
            let inexact = am.rows.iter().any(|r| matches!(r, ARow::Eq(..)) && !am.eq_exact_at_witness(r));
            // a float equality row that also contains an integer variable: the integer bounds are
            // ceil/floor of a quotient that carries the float rounding / quantization error, with
            // no tolerance (known finding `float-eq-int-var-rounding`)
            let mixed_eq = am.rows.iter().any(|r| match r {
                ARow::Eq(cs, xs, _) => {
                    let nz: Vec<usize> = cs.iter().zip(xs).filter(|(c, _)| c.abs() >= 1e-12).map(|(_, x)| *x).collect();
                    nz.iter().any(|x| am.is_float(*x)) && nz.iter().any(|x| !am.is_float(*x))
                }
                _ => false,
            });
            // `x.lt(y)` between a float and an integer variable is lowered to the INTEGER row
            // x - y <= -1 (strictness of one unit): points with 0 < y - x < 1 are lost
            let mixed_strict = am.rows.iter().any(|r| matches!(r, ARow::VLt(x, y) if am.is_float(*x) != am.is_float(*y) && (am.wit(*y) - am.wit(*x)) < 1.0));
            let tag = if again { "root-lp" } else if mixed_eq { "float-eq-int-var-rounding" } else if mixed_strict { "mixed-strict-cmp-int-lowered" } else if inexact { "float-eq-inexact-witness" } else { "-" };
            out.fail(l, "C07", tag, "solve() = NoSolution although the witness point satisfies every row with margin".to_string());
        }
        Err(e) => {
            out.stat(&format!("api.err.{}", match e { SolverError::Timeout { .. } => "Timeout", SolverError::InvalidConstraint { .. } => "InvalidConstraint", _ => "other" }));
            if !matches!(e, SolverError::Timeout { .. } | SolverError::MemoryLimit { .. }) {
                out.fail(l, "C07", "-", format!("solve() = Err({e}) on a satisfiable float model"));
            }
        }
        Ok(sol) => {
            out.stat("api.Ok");
            let mut v = vec![];
            for (i, d) in am.vars.iter().enumerate() {
                match (d, sol[ids[i]]) {
                    (AVar::F(lo, hi, _), sp::Val::ValF(f)) => {
                        if !(f >= *lo && f <= *hi) {
                            out.fail(l, "C06", "-", format!("float variable {i} = {f:e} outside its declared bounds [{lo:e},{hi:e}]"));
                        }
                        v.push(f);
                    }
                    (AVar::I(lo, hi, _), sp::Val::ValI(k)) => {
                        if k < *lo || k > *hi {
                            out.fail(l, "C06", "-", format!("integer variable {i} = {k} outside {lo}..{hi}"));
                        }
                        v.push(k as f64);
                    }
                    (AVar::F(..), sp::Val::ValI(k)) => {
                        out.stat("api.float-var-reported-as-int");
                        v.push(k as f64);
                    }
                    (AVar::I(..), sp::Val::ValF(f)) => {
                        out.fail(l, "C06", "-", format!("integer variable {i} reported with the float value {f:e}"));
                        v.push(f);
                    }
                }
            }
            for r in &am.rows {
                if let Some(d) = am.check_row(r, &v) {
                    let mut tag = am.row_tag(r);
                    if tag == "-" && lp {
                        tag = "root-lp";
                    }
                    out.fail(l, "C06", tag, format!("row {r:?} violated by the returned point {v:?}: {d}"));
                }
            }
        }
    }
}

fn case_api(out: &mut Out, r: &mut Rng, id: &str) {
    out.case(id);
    let digits = *r.pick(&[2, 3, 4, 6, 6, 6]);
    let step = precision_to_step_size(digits);
    let nv = r.range(1, 4) as usize;
    let mut vars = vec![];
    for _ in 0..nv {
        if r.chance(1, 4) {
            let lo = r.range(-6, 3) as i32;
            let hi = lo + r.range(0, 8) as i32;
            vars.push(AVar::I(lo, hi, r.range(lo as i64, hi as i64) as i32));
        } else {
            let scale = *r.pick(&[1.0, 1.0, 10.0, 100.0, 1000.0]);
            let lo = (r.range(-2000, 1000) as f64) * 0.01 * scale;
            let hi = lo + (r.range(0, 3000) as f64) * 0.01 * scale;
            let k = ((lo + (hi - lo) * (r.below(1001) as f64 / 1000.0)) / step).round();
            let mut w = (k * step).clamp(lo, hi);
            if r.chance(1, 2) {
                // a witness that is on the decimal grid AND dyadic (multiple of 1/4), if there is one
                let q = (w * 4.0).round() / 4.0;
                if q >= lo && q <= hi { w = q; }
            }
            vars.push(AVar::F(lo, hi, w));
        }
    }
    let wv = |x: usize| match vars[x] { AVar::F(_, _, w) => w, AVar::I(_, _, w) => w as f64 };
    let mut rows = vec![];
    for _ in 0..r.range(1, 4) {
        let kind = r.below(12);
        let x = r.below(nv as u64) as usize;
        let y = r.below(nv as u64) as usize;
        match kind {
            0..=4 => {
                let n = r.range(1, nv as i64) as usize;
                let mut xs: Vec<usize> = (0..nv).collect();
                for i in 0..nv {
                    let j = r.range(i as i64, nv as i64 - 1) as usize;
                    xs.swap(i, j);
                }
                xs.truncate(n);
                let cs: Vec<f64> = xs.iter().map(|_| match r.below(5) {
                    0 => 1.0,
                    1 => -1.0,
                    2 => r.range(-5, 5) as f64,
                    3 => r.range(-20, 20) as f64 * 0.5,
                    _ => r.range(-30, 30) as f64 * 0.1,
                }).collect();
                let sum: f64 = cs.iter().zip(&xs).map(|(c, x)| c * wv(*x)).sum();
                let sum_abs: f64 = cs.iter().map(|c| c.abs()).sum();
                if kind == 4 {
                    // equalities: prefer small dyadic coefficients so that the row can hold exactly
                    let cs: Vec<f64> = if r.chance(2, 3) { xs.iter().map(|_| *r.pick(&[1.0, -1.0, 2.0, -2.0, 0.5, -0.5, 3.0, 4.0, -3.0])).collect() } else { cs };
                    let sum: f64 = cs.iter().zip(&xs).map(|(c, x)| c * wv(*x)).sum();
                    let row = ARow::Eq(cs, xs, sum);
                    rows.push(row);
                } else {
                    let margin = step * sum_abs * r.range(10, 200) as f64 + sum.abs() * 1e-9;
                    rows.push(ARow::Le(cs, xs, sum + margin));
                }
            }
            5 | 6 => {
                if x != y && wv(x) + 20.0 * step <= wv(y) { rows.push(if kind == 5 { ARow::VLe(x, y) } else { ARow::VLt(x, y) }); }
                else { rows.push(ARow::CLe(x, wv(x) + step * r.range(10, 400) as f64)); }
            }
            7 => {
                if x != y && (wv(x) - wv(y)).abs() >= 20.0 * step { rows.push(ARow::VNe(x, y)); }
                else { rows.push(ARow::CGe(x, wv(x) - step * r.range(10, 400) as f64)); }
            }
            8 => {
                if x != y && wv(x) == wv(y) { rows.push(ARow::VEq(x, y)); }
                else { rows.push(ARow::CGe(x, wv(x) - step * r.range(10, 400) as f64)); }
            }
            9 => rows.push(ARow::CLe(x, wv(x) + step * r.range(10, 400) as f64)),
            _ => rows.push(ARow::CGe(x, wv(x) - step * r.range(10, 400) as f64)),
        }
    }
    let am = AModel { digits, style: r.below(3) as u8, vars, rows };
    for row in &am.rows {
        if matches!(row, ARow::Eq(..)) {
            out.stat(if am.eq_exact_at_witness(row) { "api.eq-row.exact" } else { "api.eq-row.inexact" });
        }
    }
    api_run(out, &am);
}

fn api_line(out: &mut Out, line: &str) {
    match AModel::parse(line) {
        Some(am) => api_run(out, &am),
        None => { out.emit(line, "-"); }
    }
}

//! Suite `float` (C12 float part, C06, C07): `FloatInterval` primitives, the float / mixed arms
//! of `Context::try_set_min/max`, float views, `LessThanOrEquals` / `Eq` at float views and the
//! `FloatLin*` propagators, driven directly and compared BIT-EXACTLY with the Lean model
//! (`fl.*` ops; every f64 travels as the decimal value of `to_bits()`, `nan` for NaNs), plus
//! exact-arithmetic oracles (module `ex`) and an API-level oracle stream (`#flapi` lines).
//!
//! C13 on float / mixed views (`oracle_c13_mm`, `oracle_c13_ctx`): the exact affine form
//! f(x) = a*x + b of a view of depth <= 3 (Next/Prev over a float variable = +- one step of the
//! underlying interval, on integer views +-1, on a float-typed view without a float interval the
//! identity; Times with a zero scale is a constant).  Tolerances: `view.mm` must equal min/max of f
//! over the bounds up to  (sum over the Next/Prev nodes of |outer scale|*step)  [`next`/`prev` clamp
//! at the interval ends]  +  2^-48*(|a|*max|x| + |b|)  [f64 rounding, 0 when everything is an
//! integer];  `ctx.min/max V m` on a float variable must keep every x whose image is more than
//! |a|*step (+ the same rounding allowance) inside the bound and must not fail if such an x exists;
//! on an integer variable exactly the values whose image satisfies the bound remain (values whose
//! image is within the rounding allowance of the bound are free when a ValF takes part).
//! Which arm of every `match (bound, offset)` of views.rs is walked is recorded as `arm.*` stats.
//! Tags: `nextprev-clamps-bound-to-domain`, `prev-int-bound-on-float-view-shifts-by-one`,
//! `timespos-int-division-on-float-view` (C13); `float-row-lowered-to-intlin` (C06/C07, `#flapi`
//! fluent rows `ex ...` with repeated variables / literals of both kinds on both sides; the arms of
//! add_/subtract_coefficients they exercise are recorded as `api.arm.*`).
use crate::out::{guarded, Out};
use crate::rng::Rng;
use selen::constraints::props::{PropId, Propagators};
use selen::optimization::ulp_utils::UlpUtils;
use selen::variables::domain::float_interval::{precision_to_step_size, FloatInterval};
use selen::variables::views::{Context, View, ViewExt};
use selen::variables::{Val, Var, VarId, Vars};
use std::cell::RefCell;

// ---------------------------------------------------------------------------------------------
// exact dyadic rationals (sign, magnitude, binary exponent): every finite f64 is one
// ---------------------------------------------------------------------------------------------
pub mod ex {
    use std::cmp::Ordering;

    #[derive(Clone, Debug)]
    pub struct Ex {
        neg: bool,
        mag: Vec<u32>, // little endian, no leading (top) zero words; zero = empty
        exp: i32,
    }

    fn trim(v: &mut Vec<u32>) {
        while v.last() == Some(&0) {
            v.pop();
        }
    }
    fn shl(m: &[u32], bits: u32) -> Vec<u32> {
        if m.is_empty() {
            return vec![];
        }
        let words = (bits / 32) as usize;
        let b = bits % 32;
        let mut r = vec![0u32; words];
        let mut carry = 0u32;
        for w in m {
            if b == 0 {
                r.push(*w);
            } else {
                r.push((w << b) | carry);
                carry = w >> (32 - b);
            }
        }
        if carry != 0 {
            r.push(carry);
        }
        r
    }
    fn cmp_mag(a: &[u32], b: &[u32]) -> Ordering {
        if a.len() != b.len() {
            return a.len().cmp(&b.len());
        }
        for i in (0..a.len()).rev() {
            if a[i] != b[i] {
                return a[i].cmp(&b[i]);
            }
        }
        Ordering::Equal
    }
    fn add_mag(a: &[u32], b: &[u32]) -> Vec<u32> {
        let mut r = Vec::with_capacity(a.len().max(b.len()) + 1);
        let mut c = 0u64;
        for i in 0..a.len().max(b.len()) {
            let s = *a.get(i).unwrap_or(&0) as u64 + *b.get(i).unwrap_or(&0) as u64 + c;
            r.push(s as u32);
            c = s >> 32;
        }
        if c != 0 {
            r.push(c as u32);
        }
        r
    }
    /// a - b, a >= b
    fn sub_mag(a: &[u32], b: &[u32]) -> Vec<u32> {
        let mut r = Vec::with_capacity(a.len());
        let mut borrow = 0i64;
        for i in 0..a.len() {
            let mut d = a[i] as i64 - *b.get(i).unwrap_or(&0) as i64 - borrow;
            if d < 0 {
                d += 1 << 32;
                borrow = 1;
            } else {
                borrow = 0;
            }
            r.push(d as u32);
        }
        trim(&mut r);
        r
    }

    impl Ex {
        pub fn zero() -> Ex {
            Ex { neg: false, mag: vec![], exp: 0 }
        }
        pub fn from_i64(v: i64) -> Ex {
            let a = v.unsigned_abs();
            let mut mag = vec![a as u32, (a >> 32) as u32];
            trim(&mut mag);
            Ex { neg: v < 0, mag, exp: 0 }
        }
        /// exact value of a finite f64
        pub fn from_f64(x: f64) -> Ex {
            assert!(x.is_finite());
            let bits = x.to_bits();
            let e = ((bits >> 52) & 0x7ff) as i32;
            let m = bits & ((1u64 << 52) - 1);
            let (mant, exp) = if e == 0 { (m, -1074) } else { (m | (1u64 << 52), e - 1075) };
            let mut mag = vec![mant as u32, (mant >> 32) as u32];
            trim(&mut mag);
            Ex { neg: (bits >> 63) == 1, mag, exp }
        }
        pub fn is_zero(&self) -> bool {
            self.mag.is_empty()
        }
        pub fn neg(&self) -> Ex {
            Ex { neg: !self.neg && !self.is_zero(), mag: self.mag.clone(), exp: self.exp }
        }
        pub fn abs(&self) -> Ex {
            Ex { neg: false, mag: self.mag.clone(), exp: self.exp }
        }
        fn aligned(&self, o: &Ex) -> (Vec<u32>, Vec<u32>, i32) {
            let e = self.exp.min(o.exp);
            (shl(&self.mag, (self.exp - e) as u32), shl(&o.mag, (o.exp - e) as u32), e)
        }
        pub fn add(&self, o: &Ex) -> Ex {
            if self.is_zero() {
                return o.clone();
            }
            if o.is_zero() {
                return self.clone();
            }
            let (a, b, e) = self.aligned(o);
            if self.neg == o.neg {
                Ex { neg: self.neg, mag: add_mag(&a, &b), exp: e }
            } else {
                match cmp_mag(&a, &b) {
                    Ordering::Equal => Ex::zero(),
                    Ordering::Greater => Ex { neg: self.neg, mag: sub_mag(&a, &b), exp: e },
                    Ordering::Less => Ex { neg: o.neg, mag: sub_mag(&b, &a), exp: e },
                }
            }
        }
        pub fn sub(&self, o: &Ex) -> Ex {
            self.add(&o.neg())
        }
        pub fn mul(&self, o: &Ex) -> Ex {
            if self.is_zero() || o.is_zero() {
                return Ex::zero();
            }
            let mut r = vec![0u32; self.mag.len() + o.mag.len() + 1];
            for (i, a) in self.mag.iter().enumerate() {
                let mut c = 0u64;
                for (j, b) in o.mag.iter().enumerate() {
                    let t = r[i + j] as u64 + (*a as u64) * (*b as u64) + c;
                    r[i + j] = t as u32;
                    c = t >> 32;
                }
                let mut k = i + o.mag.len();
                while c != 0 {
                    let t = r[k] as u64 + c;
                    r[k] = t as u32;
                    c = t >> 32;
                    k += 1;
                }
            }
            trim(&mut r);
            Ex { neg: self.neg != o.neg, mag: r, exp: self.exp + o.exp }
        }
        /// multiply by 2^k
        pub fn scale2(&self, k: i32) -> Ex {
            Ex { neg: self.neg, mag: self.mag.clone(), exp: self.exp + k }
        }
        pub fn cmp(&self, o: &Ex) -> Ordering {
            let d = self.sub(o);
            if d.is_zero() {
                Ordering::Equal
            } else if d.neg {
                Ordering::Less
            } else {
                Ordering::Greater
            }
        }
        pub fn lt(&self, o: &Ex) -> bool {
            self.cmp(o) == Ordering::Less
        }
        pub fn le(&self, o: &Ex) -> bool {
            self.cmp(o) != Ordering::Greater
        }
        pub fn gt(&self, o: &Ex) -> bool {
            self.cmp(o) == Ordering::Greater
        }
        pub fn ge(&self, o: &Ex) -> bool {
            self.cmp(o) != Ordering::Less
        }
        pub fn max(&self, o: &Ex) -> Ex {
            if self.lt(o) { o.clone() } else { self.clone() }
        }
        /// rough f64 rendering for messages only
        pub fn approx(&self) -> f64 {
            let mut v = 0.0f64;
            for w in self.mag.iter().rev() {
                v = v * 4294967296.0 + *w as f64;
            }
            let v = v * (self.exp as f64).exp2();
            if self.neg { -v } else { v }
        }
    }
}
use ex::Ex;
fn exf(x: f64) -> Ex {
    Ex::from_f64(x)
}

// ---------------------------------------------------------------------------------------------
// protocol values
// ---------------------------------------------------------------------------------------------
pub fn sf(x: f64) -> String {
    if x.is_nan() { "nan".into() } else { x.to_bits().to_string() }
}
fn pf(s: &str) -> Option<f64> {
    if s == "nan" { Some(f64::NAN) } else { s.parse::<u64>().ok().map(f64::from_bits) }
}

#[derive(Clone, Copy, Debug, PartialEq)]
pub enum FV {
    I(i32),
    F(f64),
}
impl FV {
    fn tokens(&self) -> String {
        match self {
            FV::I(i) => format!("i {i}"),
            FV::F(f) => format!("f {}", sf(*f)),
        }
    }
    fn val(&self) -> Val {
        match self {
            FV::I(i) => Val::ValI(*i),
            FV::F(f) => Val::ValF(*f),
        }
    }
    fn show(v: Val) -> String {
        match v {
            Val::ValI(i) => format!("i:{i}"),
            Val::ValF(f) => format!("f:{}", sf(f)),
        }
    }
    fn parse<'a>(t: &mut std::slice::Iter<'a, &'a str>) -> Option<FV> {
        match *t.next()? {
            "i" => t.next()?.parse().ok().map(FV::I),
            "f" => pf(t.next()?).map(FV::F),
            _ => None,
        }
    }
    fn as_f64(&self) -> f64 {
        match self {
            FV::I(i) => *i as f64,
            FV::F(f) => *f,
        }
    }
}

#[derive(Clone, Debug)]
pub enum FVS {
    C(FV),
    V(usize),
    Opp(Box<FVS>),
    Plus(FV, Box<FVS>),
    TPos(FV, Box<FVS>),
    Times(FV, Box<FVS>),
    TNeg(FV, Box<FVS>),
    Next(Box<FVS>),
    Prev(Box<FVS>),
}
impl FVS {
    pub fn tokens(&self) -> String {
        match self {
            FVS::C(k) => format!("c {}", k.tokens()),
            FVS::V(i) => format!("v {i}"),
            FVS::Opp(v) => format!("opp {}", v.tokens()),
            FVS::Plus(k, v) => format!("plus {} {}", k.tokens(), v.tokens()),
            FVS::TPos(k, v) => format!("tpos {} {}", k.tokens(), v.tokens()),
            FVS::Times(k, v) => format!("times {} {}", k.tokens(), v.tokens()),
            FVS::TNeg(k, v) => format!("tneg {} {}", k.tokens(), v.tokens()),
            FVS::Next(v) => format!("next {}", v.tokens()),
            FVS::Prev(v) => format!("prev {}", v.tokens()),
        }
    }
    fn depth(&self) -> usize {
        match self {
            FVS::C(_) | FVS::V(_) => 0,
            FVS::Opp(v) | FVS::Plus(_, v) | FVS::TPos(_, v) | FVS::Times(_, v) | FVS::TNeg(_, v) | FVS::Next(v) | FVS::Prev(v) => 1 + v.depth(),
        }
    }
    fn parse<'a>(t: &mut std::slice::Iter<'a, &'a str>) -> Option<FVS> {
        match *t.next()? {
            "c" => FV::parse(t).map(FVS::C),
            "v" => t.next()?.parse().ok().map(FVS::V),
            "opp" => FVS::parse(t).map(|v| FVS::Opp(Box::new(v))),
            "next" => FVS::parse(t).map(|v| FVS::Next(Box::new(v))),
            "prev" => FVS::parse(t).map(|v| FVS::Prev(Box::new(v))),
            k @ ("plus" | "tpos" | "times" | "tneg") => {
                let c = FV::parse(t)?;
                let v = Box::new(FVS::parse(t)?);
                Some(match k {
                    "plus" => FVS::Plus(c, v),
                    "tpos" => FVS::TPos(c, v),
                    "times" => FVS::Times(c, v),
                    _ => FVS::TNeg(c, v),
                })
            }
            _ => None,
        }
    }
    fn max_var(&self) -> Option<usize> {
        match self {
            FVS::C(_) => None,
            FVS::V(i) => Some(*i),
            FVS::Opp(v) | FVS::Plus(_, v) | FVS::TPos(_, v) | FVS::Times(_, v) | FVS::TNeg(_, v) | FVS::Next(v) | FVS::Prev(v) => v.max_var(),
        }
    }
}

/// continuation receiving a concrete view type
trait VK {
    type Out;
    fn call<V: View>(self, v: V) -> Self::Out;
}
fn lvl0<K: VK>(s: &FVS, ids: &[VarId], k: K) -> K::Out {
    match s {
        FVS::C(c) => k.call(c.val()),
        FVS::V(i) => k.call(ids[*i]),
        _ => panic!("view too deep"),
    }
}
macro_rules! flevel {
    ($name:ident, $inner:ident) => {
        fn $name<K: VK>(s: &FVS, ids: &[VarId], k: K) -> K::Out {
            struct OppK<K>(K);
            impl<K: VK> VK for OppK<K> {
                type Out = K::Out;
                fn call<V: View>(self, v: V) -> K::Out { self.0.call(v.opposite()) }
            }
            struct PlusK<K>(K, Val);
            impl<K: VK> VK for PlusK<K> {
                type Out = K::Out;
                fn call<V: View>(self, v: V) -> K::Out { self.0.call(v.plus(self.1)) }
            }
            struct TPosK<K>(K, Val);
            impl<K: VK> VK for TPosK<K> {
                type Out = K::Out;
                fn call<V: View>(self, v: V) -> K::Out { self.0.call(v.times_pos(self.1)) }
            }
            struct TimesK<K>(K, Val);
            impl<K: VK> VK for TimesK<K> {
                type Out = K::Out;
                fn call<V: View>(self, v: V) -> K::Out { self.0.call(v.times(self.1)) }
            }
            struct TNegK<K>(K, Val);
            impl<K: VK> VK for TNegK<K> {
                type Out = K::Out;
                fn call<V: View>(self, v: V) -> K::Out { self.0.call(v.times_neg(self.1)) }
            }
            struct NextK<K>(K);
            impl<K: VK> VK for NextK<K> {
                type Out = K::Out;
                fn call<V: View>(self, v: V) -> K::Out { self.0.call(v.next()) }
            }
            struct PrevK<K>(K);
            impl<K: VK> VK for PrevK<K> {
                type Out = K::Out;
                fn call<V: View>(self, v: V) -> K::Out { self.0.call(v.prev()) }
            }
            match s {
                FVS::C(_) | FVS::V(_) => lvl0(s, ids, k),
                FVS::Opp(v) => $inner(v, ids, OppK(k)),
                FVS::Plus(c, v) => $inner(v, ids, PlusK(k, c.val())),
                FVS::TPos(c, v) => $inner(v, ids, TPosK(k, c.val())),
                FVS::Times(c, v) => $inner(v, ids, TimesK(k, c.val())),
                FVS::TNeg(c, v) => $inner(v, ids, TNegK(k, c.val())),
                FVS::Next(v) => $inner(v, ids, NextK(k)),
                FVS::Prev(v) => $inner(v, ids, PrevK(k)),
            }
        }
    };
}
flevel!(lvl1, lvl0);
flevel!(lvl2, lvl1);
flevel!(lvl3, lvl2);

// ---------------------------------------------------------------------------------------------
// the case state
// ---------------------------------------------------------------------------------------------
#[derive(Clone, Debug, PartialEq)]
pub enum VState {
    F(f64, f64, f64),
    I(Vec<i32>),
}

pub struct FCase {
    fi: FloatInterval,
    vars: Vars,
    ids: Vec<VarId>,
    /// a point that later `fl.prune` rows are built around (oracle side only)
    witness: Option<Vec<FV>>,
    /// propagators posted by `fl.post` (engine-level cases)
    posts: Vec<FK>,
}

impl FCase {
    pub fn new() -> Self {
        FCase { fi: FloatInterval::with_step_unchecked(0.0, 0.0, 1.0), vars: Vars::new(), ids: vec![], witness: None, posts: vec![] }
    }
    fn state(&self, i: usize) -> VState {
        match &self.vars[self.ids[i]] {
            Var::VarF(iv) => VState::F(iv.min, iv.max, iv.step),
            Var::VarI(s) => {
                let mut v = s.to_vec();
                v.sort();
                VState::I(v)
            }
        }
    }
    fn states(&self) -> Vec<VState> {
        (0..self.ids.len()).map(|i| self.state(i)).collect()
    }
    fn show_states(&self) -> String {
        self.states()
            .iter()
            .map(|s| match s {
                VState::F(a, b, c) => format!("f:{}:{}:{}", sf(*a), sf(*b), sf(*c)),
                VState::I(v) => format!("i:{}", crate::out::show_ints(v)),
            })
            .collect::<Vec<_>>()
            .join("|")
    }
    fn show_ev(&self, ev: &[VarId]) -> String {
        let e: Vec<String> = ev.iter().map(|e| self.ids.iter().position(|i| i == e).unwrap().to_string()).collect();
        format!("ev=[{}]", e.join(","))
    }
}

fn show_fi(iv: &FloatInterval) -> String {
    format!("fi {} {} {}", sf(iv.min), sf(iv.max), sf(iv.step))
}

fn valid_iv(min: f64, max: f64, step: f64) -> bool {
    min.is_finite() && max.is_finite() && step.is_finite() && step > 0.0 && min <= max
}

// ---------------------------------------------------------------------------------------------
// self test
// ---------------------------------------------------------------------------------------------
fn selftest() -> String {
    use std::hint::black_box as bb;
    let f = |b: u64| bb(f64::from_bits(b));
    let a = f(4591870180066957722); // 0.1
    let b = f(4596373779694328218); // 0.2
    let c = f(4599075939470750515); // 0.3
    let big = f(4845873199050653696); // 2^60
    let nan = bb(f64::NAN);
    let inf = bb(f64::INFINITY);
    let xs: Vec<f64> = vec![
        a + b, a * b, a / c, a - c, (a * b) + c, (a * c) - b, a * a + a * a,
        bb(2.5f64).floor(), bb(-2.5f64).floor(), bb(2.5f64).ceil(), bb(-2.5f64).ceil(),
        bb(2.5f64).round(), bb(-2.5f64).round(), bb(0.5f64).round(), bb(-0.5f64).round(), bb(1.5f64).round(),
        f(4602678819172646911).round(), f(4841369599423283200).round(),
        bb(-0.0f64).abs(), (-a).abs(), -bb(0.0f64),
        a.max(nan), nan.max(a), a.min(nan), nan.min(b), a.max(b), a.min(b),
        UlpUtils::ulp(bb(1.0)), UlpUtils::ulp(bb(0.0)), UlpUtils::ulp(bb(-1.0)), UlpUtils::ulp(big), UlpUtils::ulp(a), UlpUtils::ulp(inf),
        UlpUtils::next_float(bb(1.0)), UlpUtils::next_float(bb(0.0)), UlpUtils::next_float(bb(-0.0)), UlpUtils::next_float(bb(-1.0)), UlpUtils::next_float(-inf),
        UlpUtils::prev_float(bb(1.0)), UlpUtils::prev_float(bb(0.0)), UlpUtils::prev_float(bb(-0.0)), UlpUtils::prev_float(bb(-1.0)), UlpUtils::prev_float(inf),
        1e-4, 1e-5, 1e-6, 1e-9, 1e-12, 0.00000095367432, 0.00000000093132257,
        0.03125, 0.0009765625, 0.00048828125,
        i32::MIN as f64, i32::MAX as f64, 3.0 * a, a / 2.0,
        (a / bb(1e-6)).ceil() * 1e-6, (c / bb(1e-6)).floor() * 1e-6, f(4636737291354636288).abs() * 1e-5,
        big / 512.0, inf - inf, bb(0.0f64) / bb(0.0f64),
    ];
    let is: Vec<i32> = vec![
        bb(2.7f64) as i32, bb(-2.7f64) as i32, bb(1e30f64) as i32, bb(-1e30f64) as i32, nan as i32, inf as i32, (-inf) as i32,
        bb(2147483647.5f64) as i32, bb(-0.0f64) as i32,
    ];
    let us: Vec<usize> = vec![
        bb(2.7f64) as usize, bb(-2.7f64) as usize, bb(1e30f64) as usize, nan as usize, inf as usize, (-inf) as usize, bb(1e15f64) as usize,
    ];
    let bs: Vec<bool> = vec![
        a < nan, nan <= nan, bb(0.0f64) == bb(-0.0f64), nan == nan, inf > big, inf.is_infinite(), (-inf).is_infinite(), nan.is_infinite(),
        nan.is_finite(), big.is_finite(), nan.is_nan(), inf.is_nan(),
    ];
    format!(
        "{} | {} | {} | {}",
        xs.iter().map(|x| sf(*x)).collect::<Vec<_>>().join(" "),
        is.iter().map(|x| x.to_string()).collect::<Vec<_>>().join(" "),
        us.iter().map(|x| x.to_string()).collect::<Vec<_>>().join(" "),
        bs.iter().map(|x| crate::out::b(*x)).collect::<Vec<_>>().join(" ")
    )
}

// ---------------------------------------------------------------------------------------------
// propagator specs
// ---------------------------------------------------------------------------------------------
#[derive(Clone, Debug)]
pub enum FK {
    Leq(FVS, FVS),
    Eq(FVS, FVS),
    Lt(FVS, FVS),
    /// kind 0..5 = lineq, linle, linne, lineqr, linler, linner
    Lin(u8, Vec<f64>, Vec<usize>, f64, Option<usize>),
}
const LIN_NAMES: [&str; 6] = ["lineq", "linle", "linne", "lineqr", "linler", "linner"];
impl FK {
    pub fn tokens(&self) -> String {
        match self {
            FK::Leq(x, y) => format!("leq {} {}", x.tokens(), y.tokens()),
            FK::Eq(x, y) => format!("eq {} {}", x.tokens(), y.tokens()),
            FK::Lt(x, y) => format!("lt {} {}", x.tokens(), y.tokens()),
            FK::Lin(k, cs, xs, c, b) => {
                let mut s = format!(
                    "{} {} {} {} {}",
                    LIN_NAMES[*k as usize],
                    xs.len(),
                    cs.iter().map(|c| sf(*c)).collect::<Vec<_>>().join(" "),
                    xs.iter().map(|x| x.to_string()).collect::<Vec<_>>().join(" "),
                    sf(*c)
                );
                if let Some(b) = b {
                    s.push_str(&format!(" {b}"));
                }
                s
            }
        }
    }
    fn name(&self) -> &'static str {
        match self {
            FK::Leq(..) => "leq",
            FK::Eq(..) => "eq",
            FK::Lt(..) => "lt",
            FK::Lin(k, ..) => LIN_NAMES[*k as usize],
        }
    }
    fn parse(ws: &[&str]) -> Option<FK> {
        let mut t = ws.iter();
        let kind = *t.next()?;
        match kind {
            "leq" | "eq" | "lt" => {
                let x = FVS::parse(&mut t)?;
                let y = FVS::parse(&mut t)?;
                Some(match kind {
                    "leq" => FK::Leq(x, y),
                    "eq" => FK::Eq(x, y),
                    _ => FK::Lt(x, y),
                })
            }
            _ => {
                let k = LIN_NAMES.iter().position(|n| *n == kind)? as u8;
                let n: usize = t.next()?.parse().ok()?;
                let mut cs = vec![];
                for _ in 0..n {
                    cs.push(pf(t.next()?)?);
                }
                let mut xs = vec![];
                for _ in 0..n {
                    xs.push(t.next()?.parse().ok()?);
                }
                let c = pf(t.next()?)?;
                let b = if k >= 3 { Some(t.next()?.parse().ok()?) } else { None };
                Some(FK::Lin(k, cs, xs, c, b))
            }
        }
    }
    fn max_var(&self) -> Option<usize> {
        match self {
            FK::Leq(x, y) | FK::Eq(x, y) | FK::Lt(x, y) => x.max_var().max(y.max_var()),
            FK::Lin(_, _, xs, _, b) => xs.iter().cloned().chain(*b).max(),
        }
    }
    fn post(&self, props: &mut Propagators, ids: &[VarId]) -> PropId {
        struct Bin<'a> { props: &'a mut Propagators, ids: &'a [VarId], y: &'a FVS, kind: u8 }
        impl<'a> VK for Bin<'a> {
            type Out = PropId;
            fn call<V: View>(self, x: V) -> PropId {
                struct Bin2<'a, X: View> { props: &'a mut Propagators, x: X, kind: u8 }
                impl<'a, X: View> VK for Bin2<'a, X> {
                    type Out = PropId;
                    fn call<Y: View>(self, y: Y) -> PropId {
                        match self.kind {
                            0 => self.props.less_than_or_equals(self.x, y),
                            1 => self.props.equals(self.x, y),
                            _ => self.props.less_than(self.x, y),
                        }
                    }
                }
                lvl1(self.y, self.ids, Bin2 { props: self.props, x, kind: self.kind })
            }
        }
        match self {
            FK::Leq(x, y) => lvl1(x, ids, Bin { props, ids, y, kind: 0 }),
            FK::Eq(x, y) => lvl1(x, ids, Bin { props, ids, y, kind: 1 }),
            FK::Lt(x, y) => lvl1(x, ids, Bin { props, ids, y, kind: 2 }),
            FK::Lin(k, cs, xs, c, b) => {
                let vs: Vec<VarId> = xs.iter().map(|x| ids[*x]).collect();
                match k {
                    0 => props.float_lin_eq(cs.clone(), vs, *c),
                    1 => props.float_lin_le(cs.clone(), vs, *c),
                    2 => props.float_lin_ne(cs.clone(), vs, *c),
                    3 => props.float_lin_eq_reif(cs.clone(), vs, *c, ids[b.unwrap()]),
                    4 => props.float_lin_le_reif(cs.clone(), vs, *c, ids[b.unwrap()]),
                    _ => props.float_lin_ne_reif(cs.clone(), vs, *c, ids[b.unwrap()]),
                }
            }
        }
    }
}

// ---------------------------------------------------------------------------------------------
// applying one protocol line to the real code (+ oracles)
// ---------------------------------------------------------------------------------------------

/// never-widen check shared by `fl.ctx.*` and `fl.prune`
fn check_never_widens(out: &mut Out, l: usize, what: &str, before: &[VState], after: &[VState]) {
    for (i, (b, a)) in before.iter().zip(after).enumerate() {
        match (b, a) {
            (VState::F(bl, bh, bs), VState::F(al, ah, as_)) => {
                if !valid_iv(*bl, *bh, *bs) {
                    continue;
                }
                if al < bl || ah > bh || as_.to_bits() != bs.to_bits() {
                    out.fail(l, "C12", "-", format!("{what}: float variable {i} widened: [{bl:e},{bh:e}] -> [{al:e},{ah:e}]"));
                }
            }
            (VState::I(bv), VState::I(av)) => {
                if !av.iter().all(|v| bv.contains(v)) {
                    out.fail(l, "C12", "-", format!("{what}: integer variable {i} grew: {bv:?} -> {av:?}"));
                }
            }
            _ => out.fail(l, "C12", "-", format!("{what}: variable {i} changed its kind")),
        }
    }
}

fn events_vs_changes(out: &mut Out, l: usize, what: &str, fc: &FCase, before: &[VState], after: &[VState], ev: &[VarId]) {
    for i in 0..before.len() {
        let changed = before[i] != after[i] && {
            // bit-level comparison for floats (PartialEq on f64 treats 0.0 == -0.0)
            match (&before[i], &after[i]) {
                (VState::F(a, b, _), VState::F(c, d, _)) => a.to_bits() != c.to_bits() || b.to_bits() != d.to_bits(),
                _ => true,
            }
        };
        let evd = ev.contains(&fc.ids[i]);
        if changed && !evd {
            out.fail(l, "C12", "-", format!("{what}: variable {i} changed without an event"));
        }
        if evd && !changed {
            out.stat("ev.without-change");
        }
    }
}

/// C12 float oracle for a plain float variable and a bound `m` (exact arithmetic)
fn oracle_ctx_float(out: &mut Out, l: usize, is_min: bool, old: (f64, f64, f64), m: f64, int_bound: bool, res: Option<(f64, f64)>) {
    let (lo, hi, step) = old;
    if !valid_iv(lo, hi, step) || !m.is_finite() {
        return;
    }
    let (elo, ehi, es, em) = (exf(lo), exf(hi), exf(step), exf(m));
    let what = format!("try_set_{} {m:e} on [{lo:e},{hi:e}] step {step:e}", if is_min { "min" } else { "max" });
    let tag_inv = if int_bound { "float-int-bound-inverts-interval" } else { "-" };
    // the value that must survive: w = max(lo, m + step) (min) / min(hi, m - step) (max), if inside
    let (w, w_exists) = if is_min {
        let w = elo.max(&em.add(&es));
        let e = w.le(&ehi);
        (w, e)
    } else {
        let t = em.sub(&es);
        let w = if ehi.lt(&t) { ehi.clone() } else { t };
        let e = w.ge(&elo);
        (w, e)
    };
    match res {
        None => {
            out.stat("ctx.f.fail");
            if w_exists {
                out.fail(l, "C12", "-", format!("{what}: failed although the value {:e} lies in the interval one step inside the bound", w.approx()));
            }
        }
        Some((nlo, nhi)) => {
            if nlo > nhi {
                out.fail(l, "C12", tag_inv, format!("{what}: succeeded with the inverted interval [{nlo:e},{nhi:e}]"));
            }
            if w_exists {
                let kept = exf(nlo).le(&w) && w.le(&exf(nhi));
                if !kept {
                    // the excess over "one step" is at most 4 ulps of the largest magnitude involved:
                    // IEEE rounding of `ceil(m/step)*step` (same nature as `fi-grid-rounding-ulp`)
                    let ulp4 = exf(4.0 * UlpUtils::ulp(lo.abs().max(hi.abs()).max(m.abs())));
                    let excess = if is_min { exf(nlo).sub(&w) } else { w.sub(&exf(nhi)) };
                    let tag = if excess.le(&ulp4) { "fi-grid-rounding-ulp" } else { "-" };
                    out.fail(l, "C12", tag, format!("{what}: removed {:e} (more than one step inside the bound), new interval [{nlo:e},{nhi:e}]", w.approx()));
                }
            }
        }
    }
}

/// which branch of the (VarF, ValF) arms a call takes (statistics only; mirrors the conditions)
fn branch_stat(out: &mut Out, is_min: bool, old: (f64, f64, f64), m: f64) {
    let (lo, hi, step) = old;
    let tol = step / 2.0;
    if is_min {
        let pt = (3.0 * step).max(hi.abs() * 1e-5);
        let k = if (hi - lo).abs() < tol && (m - lo).abs() < pt {
            "fixed-close"
        } else if m > hi + tol {
            if (m - hi) > pt { "fail-gap" } else { "above-max-tolerated" }
        } else if m > lo + tol {
            if (m / step).ceil() * step > hi { "tighten-clamped" } else { "tighten" }
        } else {
            "nochange"
        };
        out.stat(&format!("branch.min.{k}"));
    } else {
        let pt = (3.0 * step).max(lo.abs() * 1e-5);
        let k = if (hi - lo).abs() < tol && (m - hi).abs() < pt {
            "fixed-close"
        } else if m < lo {
            let d = lo - m;
            if d <= step { "quantization-mismatch" } else if d > pt { "fail-gap" } else { "below-min-tolerated" }
        } else if m < hi - tol {
            if (m / step).floor() * step < lo { "tighten-clamped" } else { "tighten" }
        } else {
            "nochange"
        };
        out.stat(&format!("branch.max.{k}"));
    }
    if step < UlpUtils::ulp(m) {
        out.stat("branch.step-below-ulp");
    }
}

fn apply_ctx(fc: &mut FCase, out: &mut Out, line: &str, is_min: bool, v: &FVS, m: FV) {
    struct K<'a> { vars: &'a mut Vars, is_min: bool, m: Val }
    impl<'a> VK for K<'a> {
        type Out = (Option<Val>, Vec<VarId>);
        fn call<V: View>(self, v: V) -> Self::Out {
            let mut events = Vec::new();
            let r = {
                let mut ctx = Context::verif_new(self.vars, &mut events);
                if self.is_min { v.try_set_min(self.m, &mut ctx) } else { v.try_set_max(self.m, &mut ctx) }
            };
            (r, events)
        }
    }
    let before = fc.states();
    let ids = fc.ids.clone();
    let r = guarded(|| lvl3(v, &ids, K { vars: &mut fc.vars, is_min, m: m.val() }));
    let Some((res, events)) = r else {
        let l = out.emit(line, "panic");
        out.fail(l, "C17", "-", format!("panic in {line}"));
        return;
    };
    let after = fc.states();
    let shown = match &res {
        None => "none".to_string(),
        Some(ret) => format!("some ret={} {} {}", FV::show(*ret), fc.show_states(), fc.show_ev(&events)),
    };
    let l = out.emit(line, shown);
    out.stat(&format!("ctx.depth{}", v.depth()));
    if res.is_some() {
        check_never_widens(out, l, line, &before, &after);
        events_vs_changes(out, l, line, fc, &before, &after, &events);
    }
    oracle_c13_ctx(out, l, line, is_min, v, m, &before, &after, res.is_some());
    // C12 oracle: plain variable
    if let FVS::V(x) = v {
        match (&before[*x], m) {
            (VState::F(lo, hi, st), FV::F(mf)) => {
                out.stat("ctx.arm.FF");
                branch_stat(out, is_min, (*lo, *hi, *st), mf);
                let r = res.map(|_| match &after[*x] { VState::F(a, b, _) => (*a, *b), _ => unreachable!() });
                oracle_ctx_float(out, l, is_min, (*lo, *hi, *st), mf, false, r);
            }
            (VState::F(lo, hi, st), FV::I(mi)) => {
                out.stat("ctx.arm.FI");
                let r = res.map(|_| match &after[*x] { VState::F(a, b, _) => (*a, *b), _ => unreachable!() });
                oracle_ctx_float(out, l, is_min, (*lo, *hi, *st), mi as f64, true, r);
            }
            (VState::I(d), FV::F(mf)) => {
                out.stat("ctx.arm.IF");
                if mf.is_finite() && !d.is_empty() {
                    // exact integer semantics: keep exactly the values >= m (<= m)
                    let keep: Vec<i32> = d.iter().cloned().filter(|w| if is_min { (*w as f64) >= mf } else { (*w as f64) <= mf }).collect();
                    match &res {
                        None => {
                            if !keep.is_empty() {
                                out.fail(l, "C12", "-", format!("{line}: failed although {keep:?} satisfy the bound"));
                            }
                        }
                        Some(_) => {
                            if after[*x] != VState::I(keep.clone()) {
                                out.fail(l, "C12", "-", format!("{line}: left {:?}, exactly {keep:?} satisfy the bound", after[*x]));
                            }
                        }
                    }
                }
            }
            (VState::I(_), FV::I(_)) => out.stat("ctx.arm.II"),
        }
    }
}

fn apply_mm(fc: &mut FCase, out: &mut Out, line: &str, v: &FVS) {
    struct K<'a> { vars: &'a mut Vars }
    impl<'a> VK for K<'a> {
        type Out = (Val, Val, bool);
        fn call<V: View>(self, v: V) -> Self::Out {
            let mut events = Vec::new();
            let ctx = Context::verif_new(self.vars, &mut events);
            (v.min(&ctx), v.max(&ctx), v.result_type(&ctx) == selen::variables::views::ViewType::Float)
        }
    }
    let ids = fc.ids.clone();
    let before = fc.states();
    match guarded(|| lvl3(v, &ids, K { vars: &mut fc.vars })) {
        None => {
            let l = out.emit(line, "panic");
            out.fail(l, "C17", "-", format!("panic in {line}"));
        }
        Some((a, b, f)) => {
            let l = out.emit(line, format!("min={} max={} float={}", FV::show(a), FV::show(b), crate::out::b(f)));
            oracle_c13_mm(out, l, line, v, &before, a, b, f);
        }
    }
}

// ---------------------------------------------------------------------------------------------
// C13 oracle for float / mixed views: the exact affine form f(x) = a*x + b of a view
// ---------------------------------------------------------------------------------------------

/// exact affine form of a view over the current store
struct Aff {
    a: Ex,
    b: Ex,
    /// what the Next/Prev nodes over a float variable contribute (each `|outer scale| * step`):
    /// `next`/`prev` clamp at the interval ends, so min/max may fall short by up to this much
    t: Ex,
    var: Option<usize>,
    /// `result_type == Float`
    is_float: bool,
    /// a ValF constant took part (f64 rounding happens in the code)
    float_const: bool,
    /// a Next/Prev over a float variable sits above a non-identity view: `FloatInterval::next/prev`
    /// then clamps a view-space value against the variable's own bounds
    clamp_space: bool,
}

/// is there, below a Next (`up`) / Prev node, anything but the plain variable and further steps in
/// the SAME direction?  (`FloatInterval::next/prev` clamp the pushed-down bound to the variable's
/// current [min, max]; that is harmless only directly above the variable)
fn aff_contains_transform(v: &FVS, up: bool) -> bool {
    match v {
        FVS::C(_) | FVS::V(_) => false,
        FVS::Next(x) => !up || aff_contains_transform(x, up),
        FVS::Prev(x) => up || aff_contains_transform(x, up),
        _ => true,
    }
}

fn affine(v: &FVS, st: &[VState], out: &mut Out) -> Option<Aff> {
    let fin = |k: &FV| -> Option<Ex> { let x = k.as_f64(); if x.is_finite() { Some(exf(x)) } else { None } };
    Some(match v {
        FVS::C(k) => Aff { a: Ex::zero(), b: fin(k)?, t: Ex::zero(), var: None, is_float: matches!(k, FV::F(_)), float_const: matches!(k, FV::F(_)), clamp_space: false },
        FVS::V(i) => {
            let isf = match &st[*i] {
                VState::F(lo, hi, s) => { if !valid_iv(*lo, *hi, *s) { return None; } true }
                VState::I(d) => { if d.is_empty() { return None; } false }
            };
            Aff { a: Ex::from_i64(1), b: Ex::zero(), t: Ex::zero(), var: Some(*i), is_float: isf, float_const: false, clamp_space: false }
        }
        FVS::Opp(x) => { let f = affine(x, st, out)?; Aff { a: f.a.neg(), b: f.b.neg(), ..f } }
        FVS::Plus(k, x) => {
            let f = affine(x, st, out)?;
            let kf = matches!(k, FV::F(_));
            Aff { b: f.b.add(&fin(k)?), is_float: f.is_float || kf, float_const: f.float_const || kf, ..f }
        }
        FVS::TPos(k, x) | FVS::TNeg(k, x) | FVS::Times(k, x) => {
            let kk = fin(k)?;
            if matches!(v, FVS::Times(..)) && kk.is_zero() {
                // Times::ZeroI / ZeroF: the constant 0 of the scale's kind
                return Some(Aff { a: Ex::zero(), b: Ex::zero(), t: Ex::zero(), var: None, is_float: matches!(k, FV::F(_)), float_const: false, clamp_space: false });
            }
            let f = affine(x, st, out)?;
            let kf = matches!(k, FV::F(_));
            Aff { a: f.a.mul(&kk), b: f.b.mul(&kk), t: f.t.mul(&kk.abs()), is_float: f.is_float || kf, float_const: f.float_const || kf, ..f }
        }
        FVS::Next(x) | FVS::Prev(x) => {
            let f = affine(x, st, out)?;
            let up = matches!(v, FVS::Next(_));
            let step = match f.var { Some(u) => match &st[u] { VState::F(_, _, s) => Some(*s), _ => None }, None => None };
            match step {
                Some(s) => {
                    let d = if up { exf(s) } else { exf(s).neg() };
                    Aff { b: f.b.add(&d), t: f.t.add(&exf(s)), clamp_space: f.clamp_space || aff_contains_transform(x, up), ..f }
                }
                None if !f.is_float => Aff { b: f.b.add(&Ex::from_i64(if up { 1 } else { -1 })), ..f },
                None => {
                    // a float-typed view without a float interval ("no step size"): identity
                    out.stat("c13.nextprev-on-float-view-without-step.identity");
                    f
                }
            }
        }
    })
}

/// f64 rounding allowance in the value space of the view: 2^-48 * (|a|*max|x| + |b| + |m|)
fn c13_rho(f: &Aff, xmag: f64, m: f64) -> Ex {
    if !f.float_const && !f.is_float && m.fract() == 0.0 {
        return Ex::zero();
    }
    let mag = f.a.abs().mul(&exf(xmag)).add(&f.b.abs()).add(&exf(m.abs()));
    mag.scale2(-48)
}

fn val_ex(v: Val) -> Option<Ex> {
    match v {
        Val::ValI(i) => Some(Ex::from_i64(i as i64)),
        Val::ValF(x) if x.is_finite() => Some(exf(x)),
        _ => None,
    }
}

fn c13_tag(f: &Aff) -> &'static str {
    if f.clamp_space { "nextprev-clamps-bound-to-domain" } else { "-" }
}

/// which arms of the `match (base, offset)` blocks of `min_raw` / `max_raw` are evaluated; returns
/// whether the value is a ValF
fn c13_raw_arm_stats(out: &mut Out, v: &FVS, st: &[VState]) -> bool {
    let kk = |b: bool, k: &FV| format!("{}{}", if b { "F" } else { "I" }, if matches!(k, FV::F(_)) { "F" } else { "I" });
    match v {
        FVS::C(k) => matches!(k, FV::F(_)),
        FVS::V(i) => matches!(st[*i], VState::F(..)),
        FVS::Opp(x) => { let b = c13_raw_arm_stats(out, x, st); out.stat(&format!("arm.opp.raw.{}", if b { "F" } else { "I" })); b }
        FVS::Plus(k, x) => { let b = c13_raw_arm_stats(out, x, st); out.stat(&format!("arm.plus.raw.{}", kk(b, k))); b || matches!(k, FV::F(_)) }
        FVS::TPos(k, x) | FVS::TNeg(k, x) => { let b = c13_raw_arm_stats(out, x, st); out.stat(&format!("arm.tpos.raw.{}", kk(b, k))); b || matches!(k, FV::F(_)) }
        FVS::Times(k, x) => {
            if k.as_f64() == 0.0 { out.stat(&format!("arm.times.zero.raw.{}", if matches!(k, FV::F(_)) { "F" } else { "I" })); return matches!(k, FV::F(_)); }
            let b = c13_raw_arm_stats(out, x, st);
            out.stat(&format!("arm.tpos.raw.{}", kk(b, k)));
            b || matches!(k, FV::F(_))
        }
        FVS::Next(x) | FVS::Prev(x) => {
            let b = c13_raw_arm_stats(out, x, st);
            let has_iv = x.max_var().map_or(false, |u| matches!(st[u], VState::F(..))) && !matches!(affine(x, st, &mut Out::default()), Some(Aff { var: None, .. }));
            let nm = if matches!(v, FVS::Next(_)) { "next" } else { "prev" };
            out.stat(&format!("arm.{nm}.raw.{}", if b && has_iv { "ValF.interval-step" } else if b { "ValF.unchanged" } else { "ValI.plus-minus-one" }));
            b
        }
    }
}

/// (a) `view.mm`: min/max of the view equal min/max of f over the variable's bounds
fn oracle_c13_mm(out: &mut Out, l: usize, line: &str, v: &FVS, st: &[VState], rmin: Val, rmax: Val, rfloat: bool) {
    if v.depth() == 0 {
        return;
    }
    let Some(f) = affine(v, st, out) else { return };
    out.stat("c13.mm.checked");
    c13_raw_arm_stats(out, v, st);
    if rfloat != f.is_float {
        out.fail(l, "C13", "-", format!("{line}: result_type float={rfloat}, expected {}", f.is_float));
    }
    let (Some(gmin), Some(gmax)) = (val_ex(rmin), val_ex(rmax)) else { return };
    let (xlo, xhi) = match f.var {
        None => (Ex::zero(), Ex::zero()),
        Some(u) => match &st[u] {
            VState::F(lo, hi, _) => (exf(*lo), exf(*hi)),
            VState::I(d) => (Ex::from_i64(*d.first().unwrap() as i64), Ex::from_i64(*d.last().unwrap() as i64)),
        },
    };
    let (f1, f2) = (f.a.mul(&xlo).add(&f.b), f.a.mul(&xhi).add(&f.b));
    let (emin, emax) = if f1.le(&f2) { (f1, f2) } else { (f2, f1) };
    let xmag = xlo.abs().max(&xhi.abs()).approx();
    let tol = f.t.add(&c13_rho(&f, xmag, 0.5));
    // the exact kind of the reported value: an integer view reports ValI
    if !f.is_float && !(matches!(rmin, Val::ValI(_)) && matches!(rmax, Val::ValI(_))) {
        out.fail(l, "C13", "-", format!("{line}: an integer view reports a float bound"));
    }
    let dmin = gmin.sub(&emin).abs();
    let dmax = gmax.sub(&emax).abs();
    if dmin.gt(&tol) || dmax.gt(&tol) {
        out.fail(l, "C13", c13_tag(&f), format!("{line}: view min/max = {:e}..{:e}, f over the bounds gives {:e}..{:e} (tolerance {:e})", gmin.approx(), gmax.approx(), emin.approx(), emax.approx(), tol.approx()));
    } else if !dmin.is_zero() || !dmax.is_zero() {
        out.stat("c13.mm.within-tolerance");
    } else {
        out.stat("c13.mm.exact");
    }
}

/// which arms of the `match (bound, offset)` blocks of views.rs a `try_set_*` call walks through
fn c13_arm_stats(out: &mut Out, v: &FVS, st: &[VState], bound_is_float: bool, is_min: bool) -> (bool, bool) {
    let mut int_div_on_float = false;
    let mut prev_int_on_float = false;
    let op = if is_min { "min" } else { "max" };
    fn is_float_view(v: &FVS, st: &[VState]) -> bool {
        match v {
            FVS::C(k) => matches!(k, FV::F(_)),
            FVS::V(i) => matches!(st[*i], VState::F(..)),
            FVS::Opp(x) | FVS::Next(x) | FVS::Prev(x) => is_float_view(x, st),
            FVS::Plus(k, x) | FVS::TPos(k, x) | FVS::TNeg(k, x) => is_float_view(x, st) || matches!(k, FV::F(_)),
            FVS::Times(k, x) => if k.as_f64() == 0.0 { matches!(k, FV::F(_)) } else { is_float_view(x, st) || matches!(k, FV::F(_)) },
        }
    }
    fn has_step(v: &FVS, st: &[VState]) -> bool {
        match v {
            FVS::C(_) => false,
            FVS::V(i) => matches!(st[*i], VState::F(..)),
            FVS::Times(k, x) => k.as_f64() != 0.0 && has_step(x, st),
            FVS::Opp(x) | FVS::Next(x) | FVS::Prev(x) | FVS::Plus(_, x) | FVS::TPos(_, x) | FVS::TNeg(_, x) => has_step(x, st),
        }
    }
    let mut bf = bound_is_float;
    let mut cur = v;
    let mut flipped = false; // Opposite swaps min and max
    loop {
        let o = if is_min != flipped { "min" } else { "max" };
        let _ = op;
        let kk = |b: bool, k: &FV| format!("{}{}", if b { "F" } else { "I" }, if matches!(k, FV::F(_)) { "F" } else { "I" });
        match cur {
            FVS::C(k) => { out.stat(&format!("arm.val.set_{o}.{}", kk(bf, k))); break; }
            FVS::V(i) => { out.stat(&format!("arm.var.set_{o}.{}{}", if matches!(st[*i], VState::F(..)) { "VarF" } else { "VarI" }, if bf { "ValF" } else { "ValI" })); break; }
            FVS::Opp(x) => { out.stat(&format!("arm.opp.set_{o}.{}", if bf { "F" } else { "I" })); flipped = !flipped; cur = x; }
            FVS::Plus(k, x) => { out.stat(&format!("arm.plus.set_{o}.{}", kk(bf, k))); bf = bf || matches!(k, FV::F(_)); cur = x; }
            FVS::TPos(k, x) => {
                out.stat(&format!("arm.tpos.set_{o}.{}", kk(bf, k)));
                if !bf && matches!(k, FV::I(_)) && is_float_view(x, st) { int_div_on_float = true; }
                bf = bf || matches!(k, FV::F(_));
                cur = x;
            }
            FVS::TNeg(k, x) => {
                // TimesPos<Opposite<V>>
                out.stat(&format!("arm.tneg.set_{o}.{}", kk(bf, k)));
                if !bf && matches!(k, FV::I(_)) && is_float_view(x, st) { int_div_on_float = true; }
                bf = bf || matches!(k, FV::F(_));
                flipped = !flipped;
                cur = x;
            }
            FVS::Times(k, x) => {
                let kv = k.as_f64();
                if kv == 0.0 {
                    out.stat(&format!("arm.times.zero.set_{o}.{}", kk(bf, k)));
                    break;
                } else if kv < 0.0 {
                    out.stat(&format!("arm.times.neg.set_{o}.{}", kk(bf, k)));
                    flipped = !flipped;
                } else {
                    out.stat(&format!("arm.times.pos.set_{o}.{}", kk(bf, k)));
                }
                if !bf && matches!(k, FV::I(_)) && is_float_view(x, st) { int_div_on_float = true; }
                bf = bf || matches!(k, FV::F(_));
                cur = x;
            }
            FVS::Next(x) | FVS::Prev(x) => {
                let nm = if matches!(cur, FVS::Next(_)) { "next" } else { "prev" };
                let fv = is_float_view(x, st);
                let hs = has_step(x, st);
                let arm = match (bf, fv, hs, nm) {
                    (false, true, true, "next") => { bf = true; "ValI-on-float-view.step" }
                    (false, true, false, "next") => { bf = true; "ValI-on-float-view.nostep" }
                    (false, true, _, _) => { prev_int_on_float = true; "ValI-on-float-view.plus-one" }
                    (false, _, _, _) => "ValI.plus-minus-one",
                    (true, _, true, _) => "ValF.step",
                    (true, false, false, _) => "ValF.int-view.shift-one",
                    (true, true, false, _) => "ValF.float-view-nostep.unchanged",
                };
                out.stat(&format!("arm.{nm}.set_{o}.{arm}"));
                cur = x;
            }
        }
    }
    (int_div_on_float, prev_int_on_float)
}

/// (b) `ctx.min/max V m` through a non-trivial view
fn oracle_c13_ctx(out: &mut Out, l: usize, line: &str, is_min: bool, v: &FVS, m: FV, before: &[VState], after: &[VState], ok: bool) {
    if v.depth() == 0 {
        return;
    }
    let (int_div, prev_int) = c13_arm_stats(out, v, before, matches!(m, FV::F(_)), is_min);
    let mf = m.as_f64();
    if !mf.is_finite() {
        return;
    }
    let Some(f) = affine(v, before, out) else { return };
    // known findings, decided on the path the bound takes through the view:
    //  * an integer bound divided by an integer scale above a FLOAT view uses integer division;
    //  * `Prev` adds 1 to an integer bound even when the view below is a float view
    let tag = if int_div { "timespos-int-division-on-float-view" } else if prev_int { "prev-int-bound-on-float-view-shifts-by-one" } else { c13_tag(&f) };
    let em = exf(mf);
    let what = if is_min { "min" } else { "max" };
    // does the image `y` satisfy the bound with slack `sl` (strictly inside) / violate it by `sl`
    let sat = |y: &Ex, sl: &Ex| if is_min { y.ge(&em.add(sl)) } else { y.le(&em.sub(sl)) };
    let viol = |y: &Ex, sl: &Ex| if is_min { y.lt(&em.sub(sl)) } else { y.gt(&em.add(sl)) };
    match f.var {
        None => {
            out.stat("c13.ctx.const");
            let rho = c13_rho(&f, 0.0, mf);
            if ok && viol(&f.b, &rho) {
                out.fail(l, "C13", tag, format!("{line}: constant view {:e} violates the bound but the call succeeded", f.b.approx()));
            }
            if !ok && sat(&f.b, &rho) {
                out.fail(l, "C13", tag, format!("{line}: constant view {:e} satisfies the bound but the call failed", f.b.approx()));
            }
        }
        Some(u) => match (&before[u], &after[u]) {
            (VState::I(d), VState::I(d2)) => {
                out.stat("c13.ctx.int-var");
                let xmag = d.iter().map(|w| w.unsigned_abs()).max().unwrap_or(0) as f64;
                let rho = c13_rho(&f, xmag, mf);
                out.stat(if rho.is_zero() { "c13.ctx.int-var.exact" } else { "c13.ctx.int-var.float-consts" });
                let img = |w: i32| f.a.mul(&Ex::from_i64(w as i64)).add(&f.b);
                let must_keep: Vec<i32> = d.iter().cloned().filter(|w| sat(&img(*w), &rho)).collect();
                let must_go: Vec<i32> = d.iter().cloned().filter(|w| viol(&img(*w), &rho)).collect();
                if !ok {
                    if !must_keep.is_empty() {
                        out.fail(l, "C13", tag, format!("{line}: failed although the values {must_keep:?} of {d:?} have images satisfying the bound"));
                    }
                    return;
                }
                if let Some(w) = must_keep.iter().find(|w| !d2.contains(w)) {
                    out.fail(l, "C13", tag, format!("{line}: value {w} of {d:?} removed although its image {:e} satisfies the {what} bound {mf:e}; left {d2:?}", img(*w).approx()));
                }
                if let Some(w) = must_go.iter().find(|w| d2.contains(w)) {
                    out.fail(l, "C13", tag, format!("{line}: value {w} of {d:?} kept although its image {:e} violates the {what} bound {mf:e}; left {d2:?}", img(*w).approx()));
                }
            }
            (VState::F(lo, hi, s), VState::F(nlo, nhi, _)) => {
                out.stat("c13.ctx.float-var");
                let xmag = lo.abs().max(hi.abs());
                let rho = c13_rho(&f, xmag, mf);
                // one step inside the bound (in x-space one step = |a|*step in the value space)
                let slack = f.a.abs().mul(&exf(*s)).add(&rho);
                let img = |x: f64| f.a.mul(&exf(x)).add(&f.b);
                // f is monotone: the survivors form an interval that contains the end with the
                // best image, if any
                let incr = !f.a.abs().is_zero() && f.a.ge(&Ex::zero());
                let best = if incr == is_min { *hi } else { *lo };
                let exists = sat(&img(best), &slack);
                if !ok {
                    out.stat("c13.ctx.float-var.fail");
                    if exists {
                        out.fail(l, "C13", tag, format!("{line}: failed although x = {best:e} of [{lo:e},{hi:e}] has the image {:e}, more than one step inside the {what} bound {mf:e}", img(best).approx()));
                    }
                    return;
                }
                if !exists {
                    out.stat("c13.ctx.float-var.no-survivor");
                    return;
                }
                out.stat("c13.ctx.float-var.survivors");
                // the end of the new interval on the cut side must not have cut into the survivors
                let lost = if incr == is_min {
                    // survivors = [x_T, hi]: need nhi >= hi and (nlo <= lo or img(nlo) not strictly inside)
                    nhi < hi || (nlo > lo && sat(&img(*nlo), &slack) && {
                        // nlo itself survives; a smaller survivor exists iff the previous point does:
                        // check the point one ulp below nlo
                        let p = UlpUtils::prev_float(*nlo);
                        p >= *lo && sat(&img(p), &slack)
                    })
                } else {
                    nlo > lo || (nhi < hi && sat(&img(*nhi), &slack) && {
                        let p = UlpUtils::next_float(*nhi);
                        p <= *hi && sat(&img(p), &slack)
                    })
                };
                if lost {
                    out.fail(l, "C13", tag, format!("{line}: [{lo:e},{hi:e}] step {s:e} -> [{nlo:e},{nhi:e}]: values whose image is more than one step inside the {what} bound {mf:e} were removed (f = {:e}*x + {:e})", f.a.approx(), f.b.approx()));
                }
            }
            _ => {}
        },
    }
}

/// exact check: is `a` inside every variable's domain
fn witness_inside(states: &[VState], a: &[FV]) -> Option<usize> {
    for (i, (s, w)) in states.iter().zip(a).enumerate() {
        let ok = match (s, w) {
            (VState::F(lo, hi, _), w) => *lo <= w.as_f64() && w.as_f64() <= *hi,
            (VState::I(d), FV::I(w)) => d.contains(w),
            (VState::I(_), FV::F(_)) => false,
        };
        if !ok {
            return Some(i);
        }
    }
    None
}

/// for a linear row: exact slack `C - sum c_i a_i` and the margin the oracle demands
fn row_slack(cs: &[f64], xs: &[usize], c: f64, a: &[FV], states: &[VState]) -> Option<(Ex, Ex)> {
    if !c.is_finite() || cs.iter().any(|c| !c.is_finite()) {
        return None;
    }
    let mut sum = Ex::zero();
    let mut sum_abs_c = Ex::zero();
    let mut mag = Ex::zero();
    let mut step_max = Ex::zero();
    for (ci, xi) in cs.iter().zip(xs) {
        let ai = exf(a.get(*xi)?.as_f64());
        sum = sum.add(&exf(*ci).mul(&ai));
        sum_abs_c = sum_abs_c.add(&exf(*ci).abs());
        match &states[*xi] {
            VState::F(lo, hi, st) => {
                if !valid_iv(*lo, *hi, *st) {
                    return None;
                }
                step_max = step_max.max(&exf(*st));
                mag = mag.add(&exf(*ci).abs().mul(&exf(lo.abs().max(hi.abs()))));
            }
            VState::I(d) => {
                let m = d.iter().map(|v| v.unsigned_abs()).max().unwrap_or(0);
                mag = mag.add(&exf(*ci).abs().mul(&Ex::from_i64(m as i64)));
            }
        }
    }
    mag = mag.add(&exf(c).abs());
    // demanded margin: 4 * step_max * sum|c|  +  2^-40 * (sum |c_i| * max|bound_i| + |C|)
    let margin = step_max.mul(&sum_abs_c).scale2(2).add(&mag.scale2(-40));
    Some((exf(c).sub(&sum), margin))
}

fn apply_prune(fc: &mut FCase, out: &mut Out, line: &str, k: &FK) {
    let before = fc.states();
    let ids = fc.ids.clone();
    let r = guarded(|| {
        let mut props = Propagators::default();
        for _ in &ids {
            props.on_new_var();
        }
        let p = k.post(&mut props, &ids);
        let mut events = Vec::new();
        let res = {
            let mut ctx = Context::verif_new(&mut fc.vars, &mut events);
            props.get_state(p).as_ref().prune(&mut ctx)
        };
        res.map(|_| events)
    });
    let Some(res) = r else {
        let l = out.emit(line, "panic");
        out.fail(l, "C17", "-", format!("panic in {line}"));
        return;
    };
    let after = fc.states();
    let shown = match &res {
        None => "none".to_string(),
        Some(ev) => format!("some {} {}", fc.show_states(), fc.show_ev(ev)),
    };
    let l = out.emit(line, shown);
    out.stat(&format!("prune.{}", k.name()));
    out.stat(if res.is_none() { "prune.result.fail" } else if before != after { "prune.result.changed" } else { "prune.result.fixpoint" });
    if let Some(ev) = &res {
        check_never_widens(out, l, line, &before, &after);
        events_vs_changes(out, l, line, fc, &before, &after, ev);
    }
    // C07 oracle: the witness point survives rows it satisfies with margin
    let Some(a) = fc.witness.clone() else { return };
    if a.len() != before.len() || witness_inside(&before, &a).is_some() {
        return;
    }
    if let FK::Lin(kind @ (0 | 1), cs, xs, c, None) = k {
        let Some((slack, margin)) = row_slack(cs, xs, *c, &a, &before) else { return };
        let applies = if *kind == 1 { slack.ge(&margin) } else { slack.is_zero() && on_grid(&a, xs, &before) };
        if !applies {
            out.stat("prune.oracle.witness-not-applicable");
            return;
        }
        out.stat(if *kind == 1 { "prune.oracle.le-margin" } else { "prune.oracle.eq-exact" });
        match &res {
            None => out.fail(l, "C07", "-", format!("{line}: failed although the witness {a:?} satisfies the row with slack {:e} (demanded margin {:e})", slack.approx(), margin.approx())),
            Some(_) => {
                if let Some(i) = witness_inside(&after, &a) {
                    out.fail(l, "C07", "-", format!("{line}: witness value {:?} of variable {i} removed (slack {:e}, demanded margin {:e}); {:?} -> {:?}", a[i], slack.approx(), margin.approx(), before[i], after[i]));
                }
            }
        }
    }
}

/// every float coordinate of the witness used by the row is an exact multiple of a dyadic step
fn on_grid(a: &[FV], xs: &[usize], states: &[VState]) -> bool {
    xs.iter().all(|x| match (&states[*x], a[*x]) {
        (VState::F(_, _, st), FV::F(w)) => {
            let q = w / st;
            // dyadic step: the quotient is exact; demand an integer
            st.to_bits() & ((1u64 << 52) - 1) == 0 && q.fract() == 0.0 && q.abs() < 9.0e15
        }
        (VState::I(_), FV::I(_)) => true,
        _ => false,
    })
}

/// FloatInterval primitive ops: result line + oracle (inside the interval, monotone)
fn apply_fi(fc: &mut FCase, out: &mut Out, line: &str, ws: &[&str]) {
    let iv = fc.fi.clone();
    let valid = valid_iv(iv.min, iv.max, iv.step);
    let arg = |i: usize| ws.get(i).and_then(|s| pf(s));
    let inside = |x: f64| iv.min <= x && x <= iv.max;
    match ws[0] {
        "fl.fi.new" | "fl.fi.step" | "fl.fi.raw" => {
            let (Some(lo), Some(hi)) = (arg(1), arg(2)) else { out.emit(line, "bad-op"); return };
            let r = match ws[0] {
                "fl.fi.new" => FloatInterval::new(lo, hi),
                "fl.fi.step" => FloatInterval::with_step(lo, hi, arg(3).unwrap_or(1.0)),
                _ => FloatInterval::with_step_unchecked(lo, hi, arg(3).unwrap_or(1.0)),
            };
            fc.fi = r.clone();
            out.emit(line, show_fi(&r));
            out.stat(ws[0]);
        }
        "fl.fi.isect" => {
            let (Some(lo), Some(hi), Some(s)) = (arg(1), arg(2), arg(3)) else { out.emit(line, "bad-op"); return };
            let o = FloatInterval::with_step_unchecked(lo, hi, s);
            let r = iv.intersect(&o);
            let l = out.emit(line, format!("{} {}", show_fi(&r), crate::out::b(iv.intersects(&o))));
            if valid && valid_iv(lo, hi, s) && (r.min < iv.min || r.max > iv.max || r.min < lo || r.max > hi) {
                out.fail(l, "C12", "-", format!("{line}: intersection not inside both operands"));
            }
        }
        "fl.fi.mid" => {
            let r = guarded(|| iv.mid());
            let l = out.emit(line, r.map(sf).unwrap_or("panic".into()));
            out.stat("fl.fi.mid");
            match r {
                None => { if valid { out.fail(l, "C17", "-", format!("mid panicked on a valid interval {iv:?}")); } }
                Some(m) => { if valid && !inside(m) { out.fail(l, "C12", "-", format!("mid {m:e} outside {iv:?}")); } }
            }
        }
        "fl.fi.q" => {
            let r = match ws.get(1).copied() {
                Some("fixed") => crate::out::b(iv.is_fixed()).to_string(),
                Some("empty") => crate::out::b(iv.is_empty()).to_string(),
                Some("steps") => iv.step_count().to_string(),
                Some("size") => sf(iv.size()),
                Some("contains") => match arg(2) { Some(x) => crate::out::b(iv.contains(x)).to_string(), None => "bad-op".into() },
                _ => "bad-op".into(),
            };
            let l = out.emit(line, r.clone());
            if valid && ws.get(1) == Some(&"contains") {
                if let Some(x) = arg(2) {
                    if inside(x) && r != "1" {
                        out.fail(l, "C12", "-", format!("contains({x:e}) false for a point inside {iv:?}"));
                    }
                }
            }
        }
        "fl.fi.next" | "fl.fi.prev" | "fl.fi.round" | "fl.fi.floor" | "fl.fi.ceil" => {
            let Some(x) = arg(1) else { out.emit(line, "bad-op"); return };
            let f = |x: f64| -> Option<f64> {
                guarded(|| match ws[0] {
                    "fl.fi.next" => iv.next(x),
                    "fl.fi.prev" => iv.prev(x),
                    "fl.fi.round" => iv.round_to_step(x),
                    "fl.fi.floor" => iv.floor_to_step(x),
                    _ => iv.ceil_to_step(x),
                })
            };
            let r = f(x);
            let l = out.emit(line, r.map(sf).unwrap_or("panic".into()));
            out.stat(ws[0]);
            if !valid || !x.is_finite() {
                return;
            }
            let Some(r) = r else { out.fail(l, "C17", "-", format!("{line}: panic on a valid interval {iv:?}")); return };
            let step_path = !(iv.step < UlpUtils::ulp(x));
            out.stat(if step_path { "fi.step-path" } else { "fi.ulp-path" });
            let is_np = ws[0] == "fl.fi.next" || ws[0] == "fl.fi.prev";
            if (!is_np || inside(x)) && !inside(r) {
                out.fail(l, "C12", "-", format!("{line}: result {r:e} outside {iv:?}"));
            }
            if ws[0] == "fl.fi.next" && inside(x) && r < x {
                out.fail(l, "C12", "-", format!("{line}: next({x:e}) = {r:e} is smaller"));
            }
            if ws[0] == "fl.fi.prev" && inside(x) && r > x {
                out.fail(l, "C12", "-", format!("{line}: prev({x:e}) = {r:e} is larger"));
            }
            // monotone: compare with neighbours of x (deterministic function of the line)
            for x2 in [UlpUtils::next_float(x), x + iv.step / 3.0, x + iv.step, x + 2.5 * iv.step, iv.max, x.abs() * 2.0 + 1.0] {
                if !x2.is_finite() || x2 < x || (is_np && !(inside(x) && inside(x2))) {
                    continue;
                }
                if let Some(r2) = f(x2) {
                    if r2 < r {
                        out.fail(l, "C12", "-", format!("{line}: not monotone: f({x:e}) = {r:e} > f({x2:e}) = {r2:e} on {iv:?}"));
                        break;
                    }
                }
            }
        }
        "fl.fi.below" | "fl.fi.above" | "fl.fi.assign" => {
            let Some(x) = arg(1) else { out.emit(line, "bad-op"); return };
            let mut w = iv.clone();
            let r = guarded(|| {
                match ws[0] {
                    "fl.fi.below" => w.remove_below(x),
                    "fl.fi.above" => w.remove_above(x),
                    _ => w.assign(x),
                }
                w
            });
            out.stat(ws[0]);
            match r {
                None => {
                    let l = out.emit(line, "panic");
                    if valid && x.is_finite() {
                        out.fail(l, "C17", "-", format!("{line}: panic on a valid interval {iv:?}"));
                    }
                }
                Some(w) => {
                    fc.fi = w.clone();
                    let l = out.emit(line, show_fi(&w));
                    if !valid || !x.is_finite() {
                        return;
                    }
                    if w.is_empty() {
                        out.stat("fi.made-empty");
                        // emptied: only allowed when no value one step inside the threshold exists
                        let (es, ex) = (exf(iv.step), exf(x));
                        let survivor_exists = match ws[0] {
                            "fl.fi.below" => exf(iv.max).ge(&ex.add(&es)),
                            "fl.fi.above" => exf(iv.min).le(&ex.sub(&es)),
                            _ => true,
                        };
                        if survivor_exists {
                            out.fail(l, "C12", "-", format!("{line}: interval {iv:?} emptied although values one step inside the threshold exist"));
                        }
                        return;
                    }
                    if w.min < iv.min || w.max > iv.max {
                        out.fail(l, "C12", "-", format!("{line}: {iv:?} widened to {w:?}"));
                    }
                    let (es, ex) = (exf(iv.step), exf(x));
                    // excess over "one step" of at most 4 ulps of the largest magnitude involved is
                    // IEEE rounding of `min + k*step` (known finding `fi-grid-rounding-ulp`)
                    let ulp_mag = UlpUtils::ulp(iv.min.abs().max(iv.max.abs()).max(x.abs()));
                    if ws[0] == "fl.fi.below" {
                        let wv = exf(iv.min).max(&ex.add(&es));
                        if wv.le(&exf(iv.max)) && exf(w.min).gt(&wv) {
                            let tag = if exf(w.min).sub(&wv).le(&exf(4.0 * ulp_mag)) { "fi-grid-rounding-ulp" } else { "-" };
                            out.fail(l, "C12", tag, format!("{line}: removed {:e}, more than one step above the threshold ({iv:?} -> {w:?})", wv.approx()));
                        }
                    }
                    if ws[0] == "fl.fi.above" {
                        let t = ex.sub(&es);
                        let wv = if exf(iv.max).lt(&t) { exf(iv.max) } else { t };
                        if wv.ge(&exf(iv.min)) && exf(w.max).lt(&wv) {
                            let tag = if wv.sub(&exf(w.max)).le(&exf(4.0 * ulp_mag)) { "fi-grid-rounding-ulp" } else { "-" };
                            out.fail(l, "C12", tag, format!("{line}: removed {:e}, more than one step below the threshold ({iv:?} -> {w:?})", wv.approx()));
                        }
                    }
                }
            }
        }
        _ => {
            out.emit(line, "bad-op");
        }
    }
}

pub fn apply(fc: &mut FCase, out: &mut Out, line: &str) {
    let ws: Vec<&str> = line.split_whitespace().collect();
    if ws.is_empty() {
        return;
    }
    match ws[0] {
        "fl.selftest" => {
            out.emit(line, selftest());
        }
        "fl.var" => match ws.get(1).copied() {
            Some("f") => {
                let (Some(lo), Some(hi), Some(st)) = (ws.get(2).and_then(|s| pf(s)), ws.get(3).and_then(|s| pf(s)), ws.get(4).and_then(|s| pf(s))) else {
                    out.emit(line, "bad-op");
                    return;
                };
                let id = fc.vars.new_var_with_bounds_and_step(Val::ValF(lo), Val::ValF(hi), st);
                fc.ids.push(id);
                out.emit(line, format!("var {}", fc.ids.len() - 1));
                out.stat("var.f");
            }
            Some("i") => {
                let vs: Option<Vec<i32>> = ws[2..].iter().map(|s| s.parse().ok()).collect();
                match vs {
                    Some(vs) if !vs.is_empty() => {
                        let id = fc.vars.new_var_with_values(vs);
                        fc.ids.push(id);
                        out.emit(line, format!("var {}", fc.ids.len() - 1));
                        out.stat("var.i");
                    }
                    _ => {
                        out.emit(line, "bad-op");
                    }
                }
            }
            _ => {
                out.emit(line, "bad-op");
            }
        },
        "fl.witness" => {
            let mut t = ws[1..].iter();
            let mut a = vec![];
            while let Some(v) = FV::parse(&mut t) {
                a.push(v);
            }
            fc.witness = Some(a);
            out.emit(line, "ok");
        }
        "fl.ctx.min" | "fl.ctx.max" | "fl.view.mm" => {
            let mut t = ws[1..].iter();
            let Some(v) = FVS::parse(&mut t) else { out.emit(line, "bad-op"); return };
            if v.depth() > 3 || v.max_var().map_or(false, |m| m >= fc.ids.len()) {
                out.emit(line, "bad-op");
                return;
            }
            if ws[0] == "fl.view.mm" {
                apply_mm(fc, out, line, &v);
                return;
            }
            let Some(m) = FV::parse(&mut t) else { out.emit(line, "bad-op"); return };
            apply_ctx(fc, out, line, ws[0] == "fl.ctx.min", &v, m);
        }
        "fl.prune" => {
            let Some(k) = FK::parse(&ws[1..]) else { out.emit(line, "bad-op"); return };
            if k.max_var().map_or(false, |m| m >= fc.ids.len()) {
                out.emit(line, "bad-op");
                return;
            }
            apply_prune(fc, out, line, &k);
        }
        "fl.post" => {
            let Some(k) = FK::parse(&ws[1..]) else { out.emit(line, "bad-op"); return };
            let deep = match &k { FK::Leq(x, y) | FK::Eq(x, y) | FK::Lt(x, y) => x.depth() > 1 || y.depth() > 1, _ => false };
            if deep || k.max_var().map_or(false, |m| m >= fc.ids.len()) {
                out.emit(line, "bad-op");
                return;
            }
            out.emit(line, format!("p{}", fc.posts.len()));
            out.stat(&format!("post.{}", k.name()));
            fc.posts.push(k);
        }
        "fl.solve" => {
            let (Some(seed), Some(fuel)) = (ws.get(1).and_then(|s| s.parse::<i64>().ok()), ws.get(2).and_then(|s| s.parse::<usize>().ok())) else {
                out.emit(line, "bad-op");
                return;
            };
            apply_solve(fc, out, line, seed, fuel);
        }
        w if w.starts_with("fl.fi.") => apply_fi(fc, out, line, &ws),
        _ => {
            out.emit(line, "bad-op");
        }
    }
}

// ---------------------------------------------------------------------------------------------
// replay
// ---------------------------------------------------------------------------------------------
thread_local! {
    static REPLAY: RefCell<(usize, Option<FCase>)> = RefCell::new((usize::MAX, None));
}

/// replay of one protocol line of this suite inside the current case
pub fn replay_line(out: &mut Out, line: &str) {
    // the current case = the last `case` line already emitted
    let case_idx = out.ops.iter().rposition(|l| l.starts_with("case ")).unwrap_or(0);
    REPLAY.with(|r| {
        let mut r = r.borrow_mut();
        if r.0 != case_idx || r.1.is_none() {
            *r = (case_idx, Some(FCase::new()));
        }
        let fc = r.1.as_mut().unwrap();
        if line.starts_with("#flapi ") {
            api_line(out, line);
        } else {
            apply(fc, out, line);
        }
    });
}

// ---------------------------------------------------------------------------------------------
// generators
// ---------------------------------------------------------------------------------------------
fn ulps(x: f64, k: i64) -> f64 {
    let mut v = x;
    for _ in 0..k.abs() {
        v = if k > 0 { UlpUtils::next_float(v) } else { UlpUtils::prev_float(v) };
    }
    v
}

fn gen_step(r: &mut Rng) -> f64 {
    match r.below(10) {
        0..=3 => (-(r.range(0, 30) as f64)).exp2(),
        4..=7 => precision_to_step_size(r.range(1, 12) as i32),
        8 => *r.pick(&[1.0, 32.0, 0.03125, 0.0009765625, 0.00000095367432, 0.00000000093132257]),
        _ => *r.pick(&[0.1, 0.25, 0.3, 2.0, 0.5]),
    }
}

/// a value near the grid of `step`, scaled to a magnitude class
fn gen_grid_value(r: &mut Rng, step: f64) -> f64 {
    let k = match r.below(8) {
        0 => 0,
        1 => r.range(-3, 3),
        2..=4 => r.range(-2000, 2000),
        5 => r.range(-2_000_000, 2_000_000),
        6 => r.range(-4_000_000_000_000, 4_000_000_000_000), // step may drop below ulp(value)
        _ => r.range(-40, 40),
    };
    let v = k as f64 * step;
    let v = match r.below(8) {
        0 => ulps(v, 1),
        1 => ulps(v, -1),
        2 => v + step / 2.0,
        3 => v + step * (r.below(1000) as f64 / 1000.0),
        _ => v,
    };
    if v == 0.0 && r.chance(1, 2) { -0.0 } else { v }
}

fn gen_interval(r: &mut Rng) -> (f64, f64, f64) {
    let step = gen_step(r);
    let a = gen_grid_value(r, step);
    let b = match r.below(6) {
        0 => a, // fixed
        1 => a + step * r.range(0, 3) as f64,
        2 => a + step * r.range(0, 3000) as f64,
        _ => gen_grid_value(r, step),
    };
    let (lo, hi) = if a <= b { (a, b) } else { (b, a) };
    (lo, hi, step)
}

/// a bound that exercises the branches of the float arms around [lo, hi]
fn gen_bound(r: &mut Rng, lo: f64, hi: f64, step: f64) -> f64 {
    let base = match r.below(4) {
        0 => lo,
        1 => hi,
        2 => lo + (hi - lo) * (r.below(1001) as f64 / 1000.0),
        _ => ((lo + (hi - lo) * (r.below(1001) as f64 / 1000.0)) / step).round() * step,
    };
    let pt_hi = (3.0 * step).max(hi.abs() * 1e-5);
    let pt_lo = (3.0 * step).max(lo.abs() * 1e-5);
    let d = match r.below(14) {
        0 => 0.0,
        1 => step / 2.0,
        2 => -step / 2.0,
        3 => step,
        4 => -step,
        5 => 3.0 * step,
        6 => -3.0 * step,
        7 => pt_hi,
        8 => -pt_lo,
        9 => step * r.range(-5, 5) as f64 * 0.37,
        10 => step * r.range(-2000, 2000) as f64,
        11 => pt_hi * 1.5,
        12 => -pt_lo * 1.5,
        _ => step * 0.999,
    };
    let v = base + d;
    match r.below(6) {
        0 => ulps(v, 1),
        1 => ulps(v, -1),
        2 => ulps(v, r.range(-3, 3)),
        _ => v,
    }
}

fn small_fv(r: &mut Rng, step: f64) -> FV {
    if r.chance(1, 2) {
        FV::I(r.range(-4, 4) as i32)
    } else {
        FV::F(match r.below(4) {
            0 => r.range(-8, 8) as f64 * 0.5,
            1 => r.range(-30, 30) as f64 * step,
            2 => 0.1 * r.range(-20, 20) as f64,
            _ => r.range(1, 4) as f64,
        })
    }
}

fn gen_view(r: &mut Rng, x: usize, step: f64, depth: usize) -> FVS {
    if depth == 0 {
        // now and then a constant leaf (the `Val` view)
        return if r.chance(1, 25) { FVS::C(small_fv(r, step)) } else { FVS::V(x) };
    }
    let inner = Box::new(gen_view(r, x, step, depth - 1));
    let nz = |r: &mut Rng, neg: bool| -> FV {
        if r.chance(1, 2) {
            let k = r.range(1, 4) as i32;
            FV::I(if neg { -k } else { k })
        } else {
            let k = *r.pick(&[0.5, 2.0, 1.5, 0.1, 3.0, 1.0]);
            FV::F(if neg { -k } else { k })
        }
    };
    match r.below(8) {
        0 => FVS::Opp(inner),
        1 => FVS::Plus(small_fv(r, step), inner),
        2 => FVS::TPos(nz(r, false), inner),
        3 => {
            let s = match r.below(5) {
                0 => FV::I(0),
                1 => FV::F(0.0),
                2 => nz(r, true),
                _ => nz(r, false),
            };
            FVS::Times(s, inner)
        }
        4 => FVS::TNeg(nz(r, true), inner),
        5 => FVS::Next(inner),
        6 => FVS::Prev(inner),
        _ => FVS::Plus(FV::F(step * r.range(-3, 3) as f64), inner),
    }
}

fn gen_int_dom(r: &mut Rng) -> Vec<i32> {
    let lo = r.range(-6, 4) as i32;
    let n = r.range(1, 6) as i32;
    let mut v: Vec<i32> = (lo..lo + n).filter(|_| r.chance(4, 5)).collect();
    if v.is_empty() {
        v.push(lo);
    }
    v
}

fn case_selftest(out: &mut Out) {
    out.case("selftest");
    let mut fc = FCase::new();
    apply(&mut fc, out, "fl.selftest");
}

fn case_fi(out: &mut Out, r: &mut Rng, id: &str) {
    out.case(id);
    let mut fc = FCase::new();
    let (lo, hi, step) = gen_interval(r);
    if r.chance(1, 4) {
        // the step table of `new`
        let w = *r.pick(&[2.0e6, 20000.0, 1000.0, 100.0, 1.0, 0.01, 0.0001, 16.0, 0.5, 512.0, 16384.0, 1048576.0, 0.00048828125]);
        let a = gen_grid_value(r, 0.5);
        let (x, y) = if r.chance(1, 5) { (a + w, a) } else { (a, a + w) };
        apply(&mut fc, out, &format!("fl.fi.new {} {}", sf(x), sf(y)));
    } else if r.chance(1, 6) {
        apply(&mut fc, out, &format!("fl.fi.step {} {} {}", sf(hi), sf(lo), sf(step)));
    } else {
        apply(&mut fc, out, &format!("fl.fi.step {} {} {}", sf(lo), sf(hi), sf(step)));
    }
    let n = r.range(3, 10);
    for _ in 0..n {
        let iv = fc.fi.clone();
        if iv.is_empty() {
            break;
        }
        let x = gen_bound(r, iv.min, iv.max, iv.step);
        let line = match r.below(16) {
            0 => format!("fl.fi.next {}", sf(x)),
            1 => format!("fl.fi.prev {}", sf(x)),
            2 => format!("fl.fi.round {}", sf(x)),
            3 => format!("fl.fi.floor {}", sf(x)),
            4 => format!("fl.fi.ceil {}", sf(x)),
            5 => "fl.fi.mid".to_string(),
            6 => format!("fl.fi.q contains {}", sf(x)),
            7 => "fl.fi.q fixed".to_string(),
            8 => "fl.fi.q steps".to_string(),
            9 => format!("fl.fi.below {}", sf(x)),
            10 => format!("fl.fi.above {}", sf(x)),
            11 => "fl.fi.q size".to_string(),
            12 => {
                let (a, b, s) = gen_interval(r);
                // Rust's f64::max/min on zeros of different sign is not modelled: avoid zeros
                let nz = |v: f64| if v == 0.0 { iv.step } else { v };
                format!("fl.fi.isect {} {} {}", sf(nz(a)), sf(nz(b).max(nz(a))), sf(s))
            }
            13 => format!("fl.fi.next {}", sf(iv.min + (iv.max - iv.min) * (r.below(11) as f64 / 10.0))),
            14 => format!("fl.fi.prev {}", sf(iv.min + (iv.max - iv.min) * (r.below(11) as f64 / 10.0))),
            _ => if r.chance(1, 3) { format!("fl.fi.assign {}", sf(x)) } else { "fl.fi.q empty".to_string() },
        };
        apply(&mut fc, out, &line);
    }
}

fn add_float_var(fc: &mut FCase, out: &mut Out, lo: f64, hi: f64, step: f64) {
    apply(fc, out, &format!("fl.var f {} {} {}", sf(lo), sf(hi), sf(step)));
}
fn add_int_var(fc: &mut FCase, out: &mut Out, d: &[i32]) {
    apply(fc, out, &format!("fl.var i {}", d.iter().map(|v| v.to_string()).collect::<Vec<_>>().join(" ")));
}

fn last_failed(out: &Out) -> bool {
    matches!(out.imp.last().map(|s| s.as_str()), Some("none") | Some("panic"))
}

fn case_ctx(out: &mut Out, r: &mut Rng, id: &str) {
    out.case(id);
    let mut fc = FCase::new();
    let (lo, hi, step) = gen_interval(r);
    add_float_var(&mut fc, out, lo, hi, step);
    let d = gen_int_dom(r);
    add_int_var(&mut fc, out, &d);
    let n = r.range(1, 6);
    for _ in 0..n {
        let x = if r.chance(3, 4) { 0 } else { 1 };
        let depth = match r.below(20) { 0..=7 => 0, 8..=13 => 1, 14..=17 => 2, _ => 3 };
        let v = gen_view(r, x, step, depth);
        let (clo, chi) = match fc.state(0) { VState::F(a, b, _) => (a, b), _ => (lo, hi) };
        let m = if x == 0 && depth == 0 {
            if r.chance(1, 6) {
                let c = if r.chance(1, 2) { clo } else { chi };
                FV::I((c + r.range(-2, 2) as f64 * 0.6).round().clamp(-1.0e9, 1.0e9) as i32)
            } else {
                FV::F(gen_bound(r, clo, chi, step))
            }
        } else if x == 1 && depth == 0 {
            if r.chance(1, 3) { FV::I(r.range(-8, 8) as i32) } else { FV::F(r.range(-16, 16) as f64 * 0.5 + if r.chance(1, 3) { 0.25 } else { 0.0 }) }
        } else {
            // a bound in the VALUE space of the view: the image of a point near the current domain
            // (f64 evaluation of the exact affine form), nudged by fractions of a step
            let st = fc.states();
            let (a, b) = match affine(&v, &st, &mut Out::default()) { Some(f) => (f.a.approx(), f.b.approx()), None => (1.0, 0.0) };
            let (xp, unit) = if x == 0 {
                (gen_bound(r, clo, chi, step), step)
            } else {
                let d = match &st[1] { VState::I(d) => d.clone(), _ => vec![0] };
                ((*r.pick(&d) + r.range(-1, 1) as i32) as f64, 1.0)
            };
            let img = a * xp + b;
            let nudge = a.abs().max(if a == 0.0 { 1.0 } else { 0.0 }) * unit * *r.pick(&[0.0, 0.0, 0.5, -0.5, 1.0, -1.0, 0.25, -0.25, 1.5, -1.5, 3.0, -3.0, 1e-9, -1e-9]);
            let mv = img + nudge;
            if r.chance(1, 4) && mv.abs() < 1.0e9 { FV::I(mv.round() as i32) } else { FV::F(mv) }
        };
        if r.chance(1, 3) {
            apply(&mut fc, out, &format!("fl.view.mm {}", v.tokens()));
        }
        let op = if r.chance(1, 2) { "fl.ctx.min" } else { "fl.ctx.max" };
        apply(&mut fc, out, &format!("{op} {} {}", v.tokens(), m.tokens()));
        if last_failed(out) {
            out.stat("case.ended-by-failure");
            return;
        }
    }
}

/// a store with a witness point and linear rows / comparisons around it
fn case_prune(out: &mut Out, r: &mut Rng, id: &str) {
    out.case(id);
    let mut fc = FCase::new();
    let nv = r.range(2, 5) as usize;
    let dyadic = r.chance(1, 2);
    let common_step = if dyadic { (-(r.range(0, 20) as f64)).exp2() } else { precision_to_step_size(r.range(1, 9) as i32) };
    let mut wit: Vec<FV> = vec![];
    let mut steps: Vec<f64> = vec![];
    for _ in 0..nv {
        if r.chance(1, 4) {
            let d = gen_int_dom(r);
            wit.push(FV::I(*r.pick(&d)));
            steps.push(0.0);
            add_int_var(&mut fc, out, &d);
        } else {
            let step = if r.chance(3, 4) { common_step } else if dyadic { (-(r.range(0, 20) as f64)).exp2() } else { gen_step(r) };
            let k = r.range(-3000, 3000);
            let w = k as f64 * step;
            let lo = (k - r.range(0, 2000)) as f64 * step;
            let hi = (k + r.range(0, 2000)) as f64 * step;
            let (lo, hi) = if r.chance(1, 8) { (w, w) } else { (lo, hi) };
            wit.push(FV::F(w));
            steps.push(step);
            add_float_var(&mut fc, out, lo, hi, step);
        }
    }
    // reification variable
    let breif = if r.chance(1, 3) {
        let d = match r.below(3) { 0 => vec![0, 1], 1 => vec![1], _ => vec![0] };
        wit.push(FV::I(*d.last().unwrap()));
        add_int_var(&mut fc, out, &d);
        Some(nv)
    } else {
        None
    };
    apply(&mut fc, out, &format!("fl.witness {}", wit.iter().map(|w| w.tokens()).collect::<Vec<_>>().join(" ")));
    let nrows = r.range(1, 4);
    for _ in 0..nrows {
        let kind = r.below(12);
        let line = if kind < 8 || breif.is_none() && kind < 10 {
            // linear row over a random subset
            let n = r.range(1, nv as i64) as usize;
            let mut xs: Vec<usize> = (0..nv).collect();
            for i in 0..nv {
                let j = r.range(i as i64, nv as i64 - 1) as usize;
                xs.swap(i, j);
            }
            xs.truncate(n);
            let cs: Vec<f64> = xs.iter().map(|_| match r.below(8) {
                0 => 0.0,
                1 => 1.0,
                2 => -1.0,
                3 => r.range(-5, 5) as f64,
                4 => r.range(-8, 8) as f64 * 0.5,
                5 => r.range(-30, 30) as f64 * 0.1,
                6 => 1e-13,
                _ => r.range(-400, 400) as f64 * 0.25,
            }).collect();
            let sum: f64 = cs.iter().zip(&xs).map(|(c, x)| c * wit[*x].as_f64()).sum();
            let sum_abs: f64 = cs.iter().map(|c| c.abs()).sum();
            let smax = steps.iter().cloned().fold(0.0, f64::max);
            let lk = if kind < 8 { *r.pick(&[0u8, 1, 1, 1, 2]) } else { 1 };
            let c = match lk {
                1 => match r.below(6) {
                    0 => sum,                                   // tight
                    1 => sum + smax * sum_abs * 0.5,            // below the margin
                    2 => sum - smax * sum_abs * r.range(1, 30) as f64, // violated by the witness
                    _ => sum + smax * sum_abs * r.range(5, 40) as f64 + sum.abs() * 1e-9,
                },
                _ => if r.chance(1, 5) { sum + smax * r.range(-3, 3) as f64 } else { sum },
            };
            match (kind, breif) {
                (8.., Some(b)) | (0..=2, Some(b)) if r.chance(1, 2) => FK::Lin(lk + 3, cs, xs, c, Some(b)).tokens(),
                _ => FK::Lin(lk, cs, xs, c, None).tokens(),
            }
        } else {
            // comparison between two views
            let x = r.below(nv as u64) as usize;
            let y = r.below(nv as u64) as usize;
            let dx = if r.chance(2, 3) { 0 } else { 1 };
            let dy = if r.chance(2, 3) { 0 } else { 1 };
            let vx = gen_view(r, x, common_step, dx);
            let vy = if r.chance(1, 5) { FVS::C(small_fv(r, common_step)) } else { gen_view(r, y, common_step, dy) };
            match r.below(3) {
                0 => FK::Leq(vx, vy).tokens(),
                1 => FK::Eq(vx, vy).tokens(),
                _ => FK::Lt(vx, vy).tokens(),
            }
        };
        apply(&mut fc, out, &format!("fl.prune {line}"));
        if last_failed(out) {
            out.stat("case.ended-by-failure");
            return;
        }
    }
}

/// malformed stream: NaN / inf bounds, zero / negative / NaN steps, inverted intervals (model
/// correspondence incl. panics only; the oracles skip invalid intervals)
fn case_malformed(out: &mut Out, r: &mut Rng, id: &str) {
    out.case(id);
    let mut fc = FCase::new();
    let weird = |r: &mut Rng| -> f64 {
        match r.below(9) {
            0 => f64::NAN,
            1 => f64::INFINITY,
            2 => f64::NEG_INFINITY,
            3 => 0.0,
            4 => -0.0,
            5 => f64::MAX,
            6 => f64::MIN_POSITIVE,
            7 => -1.0,
            _ => r.range(-50, 50) as f64 * 0.25,
        }
    };
    let (lo, hi) = (weird(r), weird(r));
    let step = match r.below(5) { 0 => 0.0, 1 => -0.5, 2 => f64::NAN, 3 => f64::INFINITY, _ => 0.25 };
    apply(&mut fc, out, &format!("fl.fi.raw {} {} {}", sf(lo), sf(hi), sf(step)));
    for _ in 0..r.range(2, 6) {
        let x = if r.chance(1, 2) { weird(r) } else { r.range(-60, 60) as f64 * 0.2 };
        let line = match r.below(12) {
            0 => format!("fl.fi.next {}", sf(x)),
            1 => format!("fl.fi.prev {}", sf(x)),
            2 => format!("fl.fi.round {}", sf(x)),
            3 => format!("fl.fi.floor {}", sf(x)),
            4 => format!("fl.fi.ceil {}", sf(x)),
            5 => "fl.fi.mid".to_string(),
            6 => format!("fl.fi.q contains {}", sf(x)),
            7 => "fl.fi.q fixed".to_string(),
            8 => "fl.fi.q steps".to_string(),
            9 => format!("fl.fi.below {}", sf(x)),
            10 => format!("fl.fi.above {}", sf(x)),
            _ => "fl.fi.q empty".to_string(),
        };
        apply(&mut fc, out, &line);
    }
    add_float_var(&mut fc, out, lo, hi, step);
    add_int_var(&mut fc, out, &[-1, 0, 2]);
    for _ in 0..r.range(1, 4) {
        let m = if r.chance(1, 4) { FV::I(r.range(-3, 3) as i32) } else { FV::F(if r.chance(1, 2) { weird(r) } else { r.range(-60, 60) as f64 * 0.2 }) };
        let x = if r.chance(3, 4) { 0 } else { 1 };
        let dv = if r.chance(2, 3) { 0 } else { 1 };
        let v = gen_view(r, x, 0.25, dv);
        let op = if r.chance(1, 2) { "fl.ctx.min" } else { "fl.ctx.max" };
        apply(&mut fc, out, &format!("{op} {} {}", v.tokens(), m.tokens()));
        if last_failed(out) {
            return;
        }
    }
    if r.chance(1, 2) {
        let cs = vec![weird(r), 1.0];
        let k = FK::Lin(r.below(3) as u8, cs, vec![0, 1], weird(r), None);
        apply(&mut fc, out, &format!("fl.prune {}", k.tokens()));
    }
}

/// small universe, exhaustively: every interval [a*step, b*step] with |a|,|b| <= u, every bound
/// h*step/2 with |h| <= 2u+4, both ops, plain variable
fn suite_exhaustive(out: &mut Out, u: i64) {
    for step in [0.25f64, 0.1, 1e-6] {
        for a in -u..=u {
            for b in a..=u {
                for h in (-2 * u - 4)..=(2 * u + 4) {
                    for is_min in [true, false] {
                        out.case(&format!("exh-{step}-{a}-{b}-{h}-{}", if is_min { "min" } else { "max" }));
                        let mut fc = FCase::new();
                        add_float_var(&mut fc, out, a as f64 * step, b as f64 * step, step);
                        let m = h as f64 * step / 2.0;
                        apply(&mut fc, out, &format!("{} v 0 f {}", if is_min { "fl.ctx.min" } else { "fl.ctx.max" }, sf(m)));
                    }
                }
            }
        }
    }
}

pub fn suite(out: &mut Out, seed: u64, count: u64, args: &[String]) {
    let mode = args.iter().position(|a| a == "--mode").and_then(|i| args.get(i + 1)).cloned().unwrap_or_else(|| "all".into());
    if mode == "replay" {
        // `float --mode replay --ops FILE`: re-run a protocol file of this suite verbatim
        // (incl. the `#flapi` lines, which the generic `replay` of main.rs does not dispatch)
        let path = args.iter().position(|a| a == "--ops").and_then(|i| args.get(i + 1)).cloned().unwrap_or_default();
        let text = std::fs::read_to_string(&path).unwrap_or_default();
        for line in text.lines() {
            if let Some(id) = line.strip_prefix("case ") {
                out.case(id.trim());
            } else if line.starts_with("fl.") || line.starts_with("#flapi ") {
                replay_line(out, line);
            }
        }
        return;
    }
    if mode == "probe" {
        suite_probe(out);
        return;
    }
    if mode == "eng-exh" {
        let u: i64 = args.iter().position(|a| a == "--universe").and_then(|i| args.get(i + 1)).and_then(|s| s.parse().ok()).unwrap_or(6);
        suite_engine_exhaustive(out, u);
        return;
    }
    if mode == "exh" {
        let u: i64 = args.iter().position(|a| a == "--universe").and_then(|i| args.get(i + 1)).and_then(|s| s.parse().ok()).unwrap_or(3);
        case_selftest(out);
        suite_exhaustive(out, u);
        return;
    }
    let mut root = Rng::new(seed ^ 0xF10A7_C0DE);
    case_selftest(out);
    for c in 0..count {
        let mut r = root.fork();
        let id = format!("f{seed}-{c}");
        match (mode.as_str(), c % 12) {
            ("fi", _) | ("all", 0..=2) => case_fi(out, &mut r, &id),
            ("ctx", _) | ("all", 3..=5) => case_ctx(out, &mut r, &id),
            ("prune", _) | ("all", 6..=7) => case_prune(out, &mut r, &id),
            ("malformed", _) | ("all", 8) => case_malformed(out, &mut r, &id),
            ("engine", _) | ("all", 10..=11) => case_engine(out, &mut r, &id),
            _ => case_api(out, &mut r, &id),
        }
    }
}

// ---------------------------------------------------------------------------------------------
// API-level oracle stream (`#flapi` lines): float / mixed models built through
// `selen::prelude::Model` AROUND A WITNESS POINT; C07: solve() must not answer NoSolution;
// C06: the returned point lies in the declared bounds, integer variables take integer values of
// their domain and every row holds within  Σ|cᵢ|·(max(3·step, 1e-5·|xᵢ|) + 1.5·step).
// The Lean model answers `-` to these lines (oracle-only).
// ---------------------------------------------------------------------------------------------
use selen::prelude as sp;
use selen::prelude::{Model, ModelExt, SolverError, VarIdExt};
use selen::verif_hooks as hooks;

#[derive(Clone, Debug)]
enum AVar {
    F(f64, f64, f64), // lo hi witness
    I(i32, i32, i32),
}

#[derive(Clone, Debug)]
enum ARow {
    Le(Vec<f64>, Vec<usize>, f64),
    Eq(Vec<f64>, Vec<usize>, f64),
    VLe(usize, usize),
    VLt(usize, usize),
    VNe(usize, usize),
    VEq(usize, usize),
    CLe(usize, f64),
    CGe(usize, f64),
    /// a fluent comparison of two linear expressions (repeated variables, literals on both sides)
    Ex(XRow),
}

/// a literal of a fluent expression: `int(k)` or `float(k)`
#[derive(Clone, Copy, Debug)]
enum Lit {
    I(i32),
    F(f64),
}
impl Lit {
    fn val(&self) -> sp::Val { match self { Lit::I(i) => sp::int(*i), Lit::F(f) => sp::float(*f) } }
    fn f(&self) -> f64 { match self { Lit::I(i) => *i as f64, Lit::F(f) => *f } }
    fn is_f(&self) -> bool { matches!(self, Lit::F(_)) }
    fn tok(&self) -> String { match self { Lit::I(i) => format!("i {i}"), Lit::F(f) => format!("f {}", sf(*f)) } }
}
/// a term of a fluent expression side
#[derive(Clone, Copy, Debug)]
enum XT {
    V(usize),      // x
    M(usize, Lit), // x.mul(lit)
    L(Lit, usize), // lit * x
    K(Lit),        // lit
}
/// `lhs op rhs`, both sides folded left to right with `.add` / `.sub` (`true` = subtracted; the
/// first term of a side is never subtracted); op: 0 le, 1 lt, 2 ge, 3 gt, 4 eq, 5 ne
#[derive(Clone, Debug)]
struct XRow {
    op: u8,
    lhs: Vec<(bool, XT)>,
    rhs: Vec<(bool, XT)>,
}
fn xt_var(t: &XT) -> Option<usize> {
    match t { XT::V(x) | XT::M(x, _) | XT::L(_, x) => Some(*x), XT::K(_) => None }
}
const XOPS: [&str; 6] = ["le", "lt", "ge", "gt", "eq", "ne"];

impl XRow {
    fn side_tok(t: &[(bool, XT)]) -> String {
        let mut s = t.len().to_string();
        for (sub, x) in t {
            s.push_str(if *sub { " - " } else { " + " });
            s.push_str(&match x {
                XT::V(x) => format!("v {x}"),
                XT::M(x, l) => format!("m {x} {}", l.tok()),
                XT::L(l, x) => format!("l {} {x}", l.tok()),
                XT::K(l) => format!("k {}", l.tok()),
            });
        }
        s
    }
    fn tok(&self) -> String {
        format!("ex {} {} {}", XOPS[self.op as usize], XRow::side_tok(&self.lhs), XRow::side_tok(&self.rhs))
    }
    fn parse(w: &[&str]) -> Option<XRow> {
        let opn = *w.get(1)?;
        let op = XOPS.iter().position(|o| *o == opn)? as u8;
        let mut i = 2;
        let lit = |w: &[&str], i: &mut usize| -> Option<Lit> {
            let k = *w.get(*i)?;
            let v = *w.get(*i + 1)?;
            *i += 2;
            match k { "i" => v.parse().ok().map(Lit::I), "f" => pf(v).map(Lit::F), _ => None }
        };
        let side = |i: &mut usize| -> Option<Vec<(bool, XT)>> {
            let n: usize = w.get(*i)?.parse().ok()?;
            *i += 1;
            let mut v = vec![];
            for _ in 0..n {
                let sub = *w.get(*i)? == "-";
                let kind = *w.get(*i + 1)?;
                *i += 2;
                let t = match kind {
                    "v" => { let x = w.get(*i)?.parse().ok()?; *i += 1; XT::V(x) }
                    "m" => { let x = w.get(*i)?.parse().ok()?; *i += 1; XT::M(x, lit(w, i)?) }
                    "l" => { let l = lit(w, i)?; let x = w.get(*i)?.parse().ok()?; *i += 1; XT::L(l, x) }
                    "k" => XT::K(lit(w, i)?),
                    _ => return None,
                };
                v.push((sub, t));
            }
            Some(v)
        };
        let lhs = side(&mut i)?;
        let rhs = side(&mut i)?;
        Some(XRow { op, lhs, rhs })
    }
    fn expr(ids: &[sp::VarId], t: &[(bool, XT)]) -> sp::ExprBuilder {
        let one = |x: &XT| -> sp::ExprBuilder {
            match x {
                XT::V(x) => sp::ExprBuilder::from(ids[*x]),
                XT::M(x, l) => ids[*x].mul(l.val()),
                XT::L(l, x) => sp::ExprBuilder::from(l.val()).mul(ids[*x]),
                XT::K(l) => sp::ExprBuilder::from(l.val()),
            }
        };
        let mut e = one(&t[0].1);
        for (sub, x) in &t[1..] {
            e = if *sub { e.sub(one(x)) } else { e.add(one(x)) };
        }
        e
    }
    /// exact merged linear form of `lhs - rhs`: coefficient per variable and the constant
    fn linear(&self, nv: usize) -> (Vec<Ex>, Ex) {
        let mut cs = vec![Ex::zero(); nv];
        let mut k = Ex::zero();
        for (neg_side, side) in [(false, &self.lhs), (true, &self.rhs)] {
            for (i, (sub, t)) in side.iter().enumerate() {
                let neg = neg_side != (*sub && i > 0);
                let sg = |e: Ex| if neg { e.neg() } else { e };
                match t {
                    XT::V(x) => cs[*x] = cs[*x].add(&sg(Ex::from_i64(1))),
                    XT::M(x, l) | XT::L(l, x) => cs[*x] = cs[*x].add(&sg(exf(l.f()))),
                    XT::K(l) => k = k.add(&sg(exf(l.f()))),
                }
            }
        }
        (cs, k)
    }
    /// simulation of `try_extract_linear_form` / `try_convert_to_linear_ast` on the KINDS of the
    /// coefficients: which arms of add/subtract_coefficients are evaluated (recorded in `stats`);
    /// returns whether the row is lowered to `LinearInt`
    fn lowering(&self, stats: &mut Vec<String>) -> bool {
        let kk = |a: bool, b: bool| format!("{}{}", if a { "Float" } else { "Int" }, if b { "Float" } else { "Int" });
        let mut sides: Vec<(Vec<(usize, bool)>, bool)> = vec![];
        for side in [&self.lhs, &self.rhs] {
            let mut vars: Vec<(usize, bool)> = vec![];
            let mut konst = false; // Int(0)
            for (i, (sub, t)) in side.iter().enumerate() {
                let (tv, tk): (Option<(usize, bool)>, bool) = match t {
                    XT::V(x) => (Some((*x, false)), false),
                    // `mul` by the integer literal 1 is folded to the variable itself
                    XT::M(x, l) | XT::L(l, x) => (Some((*x, l.is_f())), false),
                    XT::K(l) => (None, l.is_f()),
                };
                if i == 0 {
                    if let Some(v) = tv { vars.push(v); }
                    konst = tk;
                    continue;
                }
                let f = if *sub { "subtract_coefficients" } else { "add_coefficients" };
                if let Some((x, isf)) = tv {
                    if let Some(p) = vars.iter().position(|v| v.0 == x) {
                        stats.push(format!("api.arm.{f}.side-merge.{}", kk(vars[p].1, isf)));
                        vars[p].1 = vars[p].1 || isf;
                    } else {
                        vars.push((x, isf));
                    }
                }
                stats.push(format!("api.arm.{f}.const.{}", kk(konst, tk)));
                konst = konst || tk;
            }
            sides.push((vars, konst));
        }
        let (l, r) = (&sides[0], &sides[1]);
        let mut all_ints = l.0.iter().all(|v| !v.1) && r.0.iter().all(|v| !v.1);
        for (x, isf) in &r.0 {
            if let Some(p) = l.0.iter().position(|v| v.0 == *x) {
                stats.push(format!("api.arm.subtract_coefficients.cross-merge.{}", kk(l.0[p].1, *isf)));
            }
        }
        stats.push(format!("api.arm.subtract_coefficients.cross-const.{}", kk(l.1, r.1)));
        if l.1 || r.1 {
            all_ints = false;
        }
        all_ints
    }
}

#[derive(Clone, Debug)]
struct AModel {
    digits: i32,
    style: u8,
    vars: Vec<AVar>,
    rows: Vec<ARow>,
}

impl AModel {
    fn line(&self) -> String {
        let vs: Vec<String> = self.vars.iter().map(|v| match v {
            AVar::F(a, b, w) => format!("f {} {} {}", sf(*a), sf(*b), sf(*w)),
            AVar::I(a, b, w) => format!("i {a} {b} {w}"),
        }).collect();
        let lin = |k: &str, cs: &Vec<f64>, xs: &Vec<usize>, c: &f64| {
            format!("{k} {} {} {} {}", xs.len(), cs.iter().map(|c| sf(*c)).collect::<Vec<_>>().join(" "), xs.iter().map(|x| x.to_string()).collect::<Vec<_>>().join(" "), sf(*c))
        };
        let rs: Vec<String> = self.rows.iter().map(|r| match r {
            ARow::Le(cs, xs, c) => lin("le", cs, xs, c),
            ARow::Eq(cs, xs, c) => lin("eq", cs, xs, c),
            ARow::VLe(x, y) => format!("vle {x} {y}"),
            ARow::VLt(x, y) => format!("vlt {x} {y}"),
            ARow::VNe(x, y) => format!("vne {x} {y}"),
            ARow::VEq(x, y) => format!("veq {x} {y}"),
            ARow::CLe(x, k) => format!("cle {x} {}", sf(*k)),
            ARow::CGe(x, k) => format!("cge {x} {}", sf(*k)),
            ARow::Ex(x) => x.tok(),
        }).collect();
        format!("#flapi p={} style={} ; {} | {}", self.digits, self.style, vs.join(" ; "), rs.join(" ; "))
    }
    fn parse(line: &str) -> Option<AModel> {
        let rest = line.strip_prefix("#flapi ")?;
        let (head, rows) = rest.split_once(" | ")?;
        let mut parts = head.split(" ; ");
        let h: Vec<&str> = parts.next()?.split_whitespace().collect();
        let digits = h.first()?.strip_prefix("p=")?.parse().ok()?;
        let style = h.get(1)?.strip_prefix("style=")?.parse().ok()?;
        let mut vars = vec![];
        for p in parts {
            let w: Vec<&str> = p.split_whitespace().collect();
            match *w.first()? {
                "f" => vars.push(AVar::F(pf(w.get(1)?)?, pf(w.get(2)?)?, pf(w.get(3)?)?)),
                "i" => vars.push(AVar::I(w.get(1)?.parse().ok()?, w.get(2)?.parse().ok()?, w.get(3)?.parse().ok()?)),
                _ => return None,
            }
        }
        let mut rs = vec![];
        for p in rows.split(" ; ") {
            let w: Vec<&str> = p.split_whitespace().collect();
            let u = |i: usize| -> Option<usize> { w.get(i)?.parse().ok() };
            match *w.first()? {
                k @ ("le" | "eq") => {
                    let n = u(1)?;
                    let cs: Option<Vec<f64>> = (0..n).map(|i| pf(w.get(2 + i)?)).collect();
                    let xs: Option<Vec<usize>> = (0..n).map(|i| u(2 + n + i)).collect();
                    let c = pf(w.get(2 + 2 * n)?)?;
                    rs.push(if k == "le" { ARow::Le(cs?, xs?, c) } else { ARow::Eq(cs?, xs?, c) });
                }
                "vle" => rs.push(ARow::VLe(u(1)?, u(2)?)),
                "vlt" => rs.push(ARow::VLt(u(1)?, u(2)?)),
                "vne" => rs.push(ARow::VNe(u(1)?, u(2)?)),
                "veq" => rs.push(ARow::VEq(u(1)?, u(2)?)),
                "cle" => rs.push(ARow::CLe(u(1)?, pf(w.get(2)?)?)),
                "cge" => rs.push(ARow::CGe(u(1)?, pf(w.get(2)?)?)),
                "ex" => rs.push(ARow::Ex(XRow::parse(&w)?)),
                _ => return None,
            }
        }
        Some(AModel { digits, style, vars, rows: rs })
    }
    fn is_float(&self, x: usize) -> bool {
        matches!(self.vars[x], AVar::F(..))
    }
    /// the witness value of variable `x`
    fn wit(&self, x: usize) -> f64 {
        match self.vars[x] { AVar::F(_, _, w) => w, AVar::I(_, _, w) => w as f64 }
    }
    /// build the selen model; returns the variable handles
    fn build(&self) -> (Model, Vec<sp::VarId>) {
        let cfg = sp::config::SolverConfig::default().with_float_precision(self.digits).with_timeout_ms(800);
        let mut m = Model::with_config(cfg);
        let ids: Vec<sp::VarId> = self.vars.iter().map(|v| match v {
            AVar::F(a, b, _) => m.float(*a, *b),
            AVar::I(a, b, _) => m.int(*a, *b),
        }).collect();
        for r in &self.rows {
            match (r, self.style) {
                (ARow::Le(cs, xs, c), 0) => { let vs: Vec<_> = xs.iter().map(|x| ids[*x]).collect(); m.lin_le(cs, &vs, *c) }
                (ARow::Eq(cs, xs, c), 0) => { let vs: Vec<_> = xs.iter().map(|x| ids[*x]).collect(); m.lin_eq(cs, &vs, *c) }
                (ARow::Le(cs, xs, c), 2) => { let vs: Vec<_> = xs.iter().map(|x| ids[*x]).collect(); sp::lin_le(&mut m, cs, &vs, *c) }
                (ARow::Eq(cs, xs, c), 2) => { let vs: Vec<_> = xs.iter().map(|x| ids[*x]).collect(); sp::lin_eq(&mut m, cs, &vs, *c) }
                (ARow::Le(cs, xs, c), _) | (ARow::Eq(cs, xs, c), _) => {
                    let mut e = ids[xs[0]].mul(sp::float(cs[0]));
                    for (ci, xi) in cs.iter().zip(xs).skip(1) {
                        e = e.add(ids[*xi].mul(sp::float(*ci)));
                    }
                    let k = if matches!(r, ARow::Le(..)) { e.le(sp::float(*c)) } else { e.eq(sp::float(*c)) };
                    m.new(k);
                }
                (ARow::VLe(x, y), 2) => sp::le(&mut m, ids[*x], ids[*y]),
                (ARow::VLt(x, y), 2) => sp::lt(&mut m, ids[*x], ids[*y]),
                (ARow::VNe(x, y), 2) => sp::ne(&mut m, ids[*x], ids[*y]),
                (ARow::VEq(x, y), 2) => sp::eq(&mut m, ids[*x], ids[*y]),
                (ARow::VLe(x, y), 0) => m.lin_le(&[1.0, -1.0], &[ids[*x], ids[*y]], 0.0),
                (ARow::VEq(x, y), 0) => m.lin_eq(&[1.0, -1.0], &[ids[*x], ids[*y]], 0.0),
                (ARow::VNe(x, y), 0) => m.lin_ne(&[1.0, -1.0], &[ids[*x], ids[*y]], 0.0),
                (ARow::VLe(x, y), _) => { m.new(ids[*x].le(ids[*y])); }
                (ARow::VLt(x, y), _) => { m.new(ids[*x].lt(ids[*y])); }
                (ARow::VNe(x, y), _) => { m.new(ids[*x].ne(ids[*y])); }
                (ARow::VEq(x, y), _) => { m.new(ids[*x].eq(ids[*y])); }
                (ARow::CLe(x, k), 0) => m.lin_le(&[1.0], &[ids[*x]], *k),
                (ARow::CGe(x, k), 0) => m.lin_le(&[-1.0], &[ids[*x]], -*k),
                (ARow::CLe(x, k), 2) => sp::le(&mut m, ids[*x], sp::float(*k)),
                (ARow::CGe(x, k), 2) => sp::ge(&mut m, ids[*x], sp::float(*k)),
                (ARow::Ex(x), st) => {
                    let (l, r) = (XRow::expr(&ids, &x.lhs), XRow::expr(&ids, &x.rhs));
                    if st == 2 {
                        match x.op { 0 => sp::le(&mut m, l, r), 1 => sp::lt(&mut m, l, r), 2 => sp::ge(&mut m, l, r), 3 => sp::gt(&mut m, l, r), 4 => sp::eq(&mut m, l, r), _ => sp::ne(&mut m, l, r) }
                    } else {
                        let c = match x.op { 0 => l.le(r), 1 => l.lt(r), 2 => l.ge(r), 3 => l.gt(r), 4 => l.eq(r), _ => l.ne(r) };
                        m.new(c);
                    }
                }
                (ARow::CLe(x, k), _) => { m.new(ids[*x].le(sp::float(*k))); }
                (ARow::CGe(x, k), _) => { m.new(ids[*x].ge(sp::float(*k))); }
            }
        }
        (m, ids)
    }
    fn row_vars(&self, r: &ARow) -> Vec<(f64, usize)> {
        match r {
            ARow::Le(cs, xs, _) | ARow::Eq(cs, xs, _) => cs.iter().cloned().zip(xs.iter().cloned()).collect(),
            ARow::VLe(x, y) | ARow::VLt(x, y) | ARow::VNe(x, y) | ARow::VEq(x, y) => vec![(1.0, *x), (-1.0, *y)],
            ARow::CLe(x, _) => vec![(1.0, *x)],
            ARow::CGe(x, _) => vec![(-1.0, *x)],
            ARow::Ex(x) => x.linear(self.vars.len()).0.iter().enumerate().map(|(i, c)| (c.approx(), i)).filter(|(c, _)| *c != 0.0).collect(),
        }
    }
    /// does the value vector `v` satisfy row `r` within the C06 tolerance (exact arithmetic);
    /// returns the violation description
    fn check_row(&self, r: &ARow, v: &[f64]) -> Option<String> {
        let step = precision_to_step_size(self.digits);
        if let ARow::Ex(x) = r {
            let (cs, k) = x.linear(self.vars.len());
            let mut d = k;
            let mut tol = Ex::zero();
            for (i, c) in cs.iter().enumerate() {
                d = d.add(&c.mul(&exf(v[i])));
                let t = (3.0 * step).max(1e-5 * v[i].abs());
                tol = tol.add(&c.abs().mul(&exf(t).add(&exf(step).add(&exf(step).scale2(-1)))));
            }
            let bad = match x.op {
                0 => d.gt(&tol),
                1 => d.ge(&tol),
                2 => d.neg().gt(&tol),
                3 => d.neg().ge(&tol),
                4 => d.abs().gt(&tol),
                _ => d.is_zero(),
            };
            return if bad { Some(format!("lhs-rhs = {:e}, tolerance {:e}", d.approx(), tol.approx())) } else { None };
        }
        let terms = self.row_vars(r);
        let mut lhs = Ex::zero();
        let mut tol = Ex::zero();
        for (c, x) in &terms {
            lhs = lhs.add(&exf(*c).mul(&exf(v[*x])));
            let t = (3.0 * step).max(1e-5 * v[*x].abs());
            tol = tol.add(&exf(*c).abs().mul(&exf(t).add(&exf(step).add(&exf(step).scale2(-1)))));
        }
        let rhs = match r {
            ARow::Le(_, _, c) | ARow::Eq(_, _, c) => exf(*c),
            ARow::CLe(_, k) => exf(*k),
            ARow::CGe(_, k) => exf(-*k),
            _ => Ex::zero(),
        };
        let d = lhs.sub(&rhs);
        let bad = match r {
            ARow::Le(..) | ARow::VLe(..) | ARow::CLe(..) | ARow::CGe(..) => d.gt(&tol),
            ARow::VLt(..) => d.ge(&tol),
            ARow::Eq(..) | ARow::VEq(..) => d.abs().gt(&tol),
            ARow::VNe(..) => d.is_zero(),
            ARow::Ex(..) => false,
        };
        if bad { Some(format!("lhs-rhs = {:e}, tolerance {:e}", d.approx(), tol.approx())) } else { None }
    }
    /// does the witness satisfy the equality row EXACTLY (exact arithmetic on the f64 values)
    fn eq_exact_at_witness(&self, r: &ARow) -> bool {
        let w = |x: usize| match self.vars[x] { AVar::F(_, _, w) => w, AVar::I(_, _, w) => w as f64 };
        match r {
            ARow::Eq(cs, xs, c) => {
                let mut sum = Ex::zero();
                for (ci, xi) in cs.iter().zip(xs) {
                    sum = sum.add(&exf(*ci).mul(&exf(w(*xi))));
                }
                sum.sub(&exf(*c)).is_zero()
            }
            ARow::Ex(x) => {
                let (cs, k) = x.linear(self.vars.len());
                let mut d = k;
                for (i, c) in cs.iter().enumerate() {
                    d = d.add(&c.mul(&exf(w(i))));
                }
                d.is_zero()
            }
            _ => true,
        }
    }
    /// a float variable occurs syntactically in the expression row
    fn ex_has_float_var(&self, x: &XRow) -> bool {
        x.lhs.iter().chain(&x.rhs).any(|(_, t)| xt_var(t).map_or(false, |v| self.is_float(v)))
    }
    /// does the row hold at the witness with a margin of at least `10 * step * sum|c|` (exact)
    fn ex_holds_at_witness(&self, x: &XRow) -> bool {
        let step = precision_to_step_size(self.digits);
        let (cs, k) = x.linear(self.vars.len());
        let mut d = k;
        let mut sum_abs = Ex::zero();
        for (i, c) in cs.iter().enumerate() {
            d = d.add(&c.mul(&exf(self.wit(i))));
            sum_abs = sum_abs.add(&c.abs());
        }
        let mg = sum_abs.mul(&exf(10.0 * step)).add(&exf(1e-12));
        match x.op {
            0 | 1 => d.neg().ge(&mg),
            2 | 3 => d.ge(&mg),
            4 => d.abs().le(&exf(1e-9).mul(&sum_abs.add(&Ex::from_i64(1)))),
            _ => d.abs().ge(&mg),
        }
    }
    fn row_tag(&self, r: &ARow) -> &'static str {
        let terms = self.row_vars(r);
        let all_int = terms.iter().filter(|(c, _)| c.abs() >= 1e-12).all(|(_, x)| !self.is_float(*x));
        if let ARow::Ex(x) = r {
            let any_float = terms.iter().any(|(_, v)| self.is_float(*v));
            let lowered_int = x.lowering(&mut vec![]);
            return if lowered_int && self.ex_has_float_var(x) {
                // all literals are `int(..)`: lowered to an INTEGER linear row (IntLinLe/Eq/Ne), which
                // returns as soon as it meets a float variable (even one whose coefficients cancel)
                "float-row-lowered-to-intlin"
            } else if !lowered_int && x.op == 5 && any_float {
                "float-ne-ignored"
            } else if !lowered_int && x.op < 4 && all_int {
                "int-var-in-float-linear"
            } else {
                "-"
            };
        }
        match r {
            ARow::VNe(x, y) if self.is_float(*x) || self.is_float(*y) => "float-ne-ignored",
            ARow::Le(..) | ARow::CLe(..) | ARow::CGe(..) | ARow::VLe(..) if all_int => "int-var-in-float-linear",
            ARow::VLe(x, y) | ARow::VLt(x, y) | ARow::VEq(x, y) if self.is_float(*x) || self.is_float(*y) => "float-varvar-cmp-ignored",
            _ => "-",
        }
    }
}

fn api_run(out: &mut Out, am: &AModel) {
    let line = am.line();
    let l = out.emit(line.clone(), "-");
    out.stat("api.models");
    out.stat(&format!("api.style{}", am.style));
    hooks::take_path_flags();
    let solve = |am: &AModel| guarded(|| { let (m, ids) = am.build(); (m.solve(), ids) });
    let Some((res, ids)) = solve(am) else {
        out.fail(l, "C17", "-", format!("panic in solve() of {line}"));
        return;
    };
    let (lp, _fp) = hooks::take_path_flags();
    if lp {
        out.stat("api.root-lp-applied");
    }
    match res {
        Err(SolverError::NoSolution { .. }) => {
            out.stat("api.NoSolution");
            // attribution: does the model solve with the root LP step switched off?
            hooks::set_root_lp_disabled(true);
            let again = solve(am).map(|(r, _)| r.is_ok()).unwrap_or(false);
            hooks::set_root_lp_disabled(false);
            // an equality row that holds at the witness only up to the f64 rounding of its
            // constant is outside the strict hypothesis of C07 ("every equality exactly")
            let inexact = am.rows.iter().any(|r| matches!(r, ARow::Eq(..) | ARow::Ex(XRow { op: 4, .. })) && !am.eq_exact_at_witness(r));
            // a float equality row that also contains an integer variable: the integer bounds are
            // ceil/floor of a quotient that carries the float rounding / quantization error, with
            // no tolerance (known finding `float-eq-int-var-rounding`)
            let mixed_eq = am.rows.iter().any(|r| match r {
                ARow::Eq(cs, xs, _) => {
                    let nz: Vec<usize> = cs.iter().zip(xs).filter(|(c, _)| c.abs() >= 1e-12).map(|(_, x)| *x).collect();
                    nz.iter().any(|x| am.is_float(*x)) && nz.iter().any(|x| !am.is_float(*x))
                }
                // a fluent equality lowered to FloatLinEq that contains an integer variable (its
                // merged float coefficients carry rounding, the integer arm has no tolerance)
                ARow::Ex(x) if x.op == 4 && !x.lowering(&mut vec![]) => {
                    x.lhs.iter().chain(&x.rhs).any(|(_, t)| xt_var(t).map_or(false, |v| !am.is_float(v)))
                }
                _ => false,
            });
            // `x.lt(y)` between a float and an integer variable is lowered to the INTEGER row
            // x - y <= -1 (strictness of one unit): points with 0 < y - x < 1 are lost
            let mixed_strict = am.rows.iter().any(|r| matches!(r, ARow::VLt(x, y) if am.is_float(*x) != am.is_float(*y) && (am.wit(*y) - am.wit(*x)) < 1.0));
            // an all-`int(..)`-literal fluent row over a float variable is posted as an INTEGER linear
            // row: with one float variable (or integer others) it tightens the float variable with
            // integer division (x >= 6x + 7 becomes x <= -2 instead of x <= -1.4)
            // attribution: the model solves once those rows are written with `float(..)` literals
            let ex_intlin = am.rows.iter().any(|r| matches!(r, ARow::Ex(x) if x.lowering(&mut vec![]) && am.ex_has_float_var(x))) && {
                let mut am2 = am.clone();
                for r in am2.rows.iter_mut() {
                    if let ARow::Ex(x) = r {
                        for (_, t) in x.lhs.iter_mut().chain(x.rhs.iter_mut()) {
                            let fl = |l: &Lit| Lit::F(l.f());
                            *t = match t { XT::V(v) => XT::M(*v, Lit::F(1.0)), XT::M(v, l) => XT::M(*v, fl(l)), XT::L(l, v) => XT::L(fl(l), *v), XT::K(l) => XT::K(fl(l)) };
                        }
                    }
                }
                solve(&am2).map(|(r, _)| r.is_ok()).unwrap_or(false)
            };
            // second attribution of the same finding: with several integer-lowered rows (some of them
            // strict) rewriting the literals is not enough (the float lowering of a strict mixed row has
            // defects of its own); the model solves once the integer-lowered rows over float variables
            // are REMOVED, i.e. they alone make it infeasible although the witness satisfies them
            let ex_intlin = ex_intlin || (am.rows.iter().any(|r| matches!(r, ARow::Ex(x) if x.lowering(&mut vec![]) && am.ex_has_float_var(x))) && {
                let mut am3 = am.clone();
                am3.rows.retain(|r| !matches!(r, ARow::Ex(x) if x.lowering(&mut vec![]) && am.ex_has_float_var(x)));
                solve(&am3).map(|(r, _)| r.is_ok()).unwrap_or(false)
            });
            let tag = if again { "root-lp" } else if ex_intlin { "float-row-lowered-to-intlin" } else if mixed_eq { "float-eq-int-var-rounding" } else if mixed_strict { "mixed-strict-cmp-int-lowered" } else if inexact { "float-eq-inexact-witness" } else { "-" };
            out.fail(l, "C07", tag, "solve() = NoSolution although the witness point satisfies every row with margin".to_string());
        }
        Err(e) => {
            out.stat(&format!("api.err.{}", match e { SolverError::Timeout { .. } => "Timeout", SolverError::InvalidConstraint { .. } => "InvalidConstraint", _ => "other" }));
            if !matches!(e, SolverError::Timeout { .. } | SolverError::MemoryLimit { .. }) {
                out.fail(l, "C07", "-", format!("solve() = Err({e}) on a satisfiable float model"));
            }
        }
        Ok(sol) => {
            out.stat("api.Ok");
            let mut v = vec![];
            for (i, d) in am.vars.iter().enumerate() {
                match (d, sol[ids[i]]) {
                    (AVar::F(lo, hi, _), sp::Val::ValF(f)) => {
                        if !(f >= *lo && f <= *hi) {
                            out.fail(l, "C06", "-", format!("float variable {i} = {f:e} outside its declared bounds [{lo:e},{hi:e}]"));
                        }
                        v.push(f);
                    }
                    (AVar::I(lo, hi, _), sp::Val::ValI(k)) => {
                        if k < *lo || k > *hi {
                            out.fail(l, "C06", "-", format!("integer variable {i} = {k} outside {lo}..{hi}"));
                        }
                        v.push(k as f64);
                    }
                    (AVar::F(..), sp::Val::ValI(k)) => {
                        out.stat("api.float-var-reported-as-int");
                        v.push(k as f64);
                    }
                    (AVar::I(..), sp::Val::ValF(f)) => {
                        out.fail(l, "C06", "-", format!("integer variable {i} reported with the float value {f:e}"));
                        v.push(f);
                    }
                }
            }
            for r in &am.rows {
                if let Some(d) = am.check_row(r, &v) {
                    let mut tag = am.row_tag(r);
                    if tag == "-" && lp {
                        tag = "root-lp";
                    }
                    out.fail(l, "C06", tag, format!("row {r:?} violated by the returned point {v:?}: {d}"));
                }
            }
        }
    }
}

/// a fluent comparison of two linear expressions around the witness: the same variable may occur
/// on both sides and several times on one side, with `int(..)` and `float(..)` literals mixed,
/// literals on both sides, subtracted terms; the last literal of the right side is chosen so that
/// the row holds at the witness with margin
fn gen_xrow(r: &mut Rng, nv: usize, wv: &dyn Fn(usize) -> f64, step: f64) -> XRow {
    let lit = |r: &mut Rng, want_f: Option<bool>| -> Lit {
        let f = want_f.unwrap_or_else(|| r.chance(1, 2));
        if f {
            Lit::F(*r.pick(&[0.5, 2.5, -1.5, 0.1, 3.0, -0.25, 1.0, 2.0, -2.0, 0.3]))
        } else {
            Lit::I(*r.pick(&[1, 2, 3, -1, -2, 4, -3, 1, 2]))
        }
    };
    let all_int_lits = r.chance(1, 5);
    let kind = |r: &mut Rng| if all_int_lits { Some(false) } else if r.chance(1, 8) { Some(true) } else { None };
    let x0 = r.below(nv as u64) as usize;
    let term = |r: &mut Rng, x: usize| -> XT {
        let k = kind(r);
        let l = lit(r, k);
        match r.below(6) {
            0 => XT::V(x),
            1 | 2 | 3 => XT::M(x, l),
            4 => XT::L(l, x),
            _ => XT::K(l),
        }
    };
    let pickx = |r: &mut Rng| if r.chance(1, 2) { x0 } else { r.below(nv as u64) as usize };
    let mut lhs: Vec<(bool, XT)> = vec![(false, match term(r, x0) { XT::K(_) => XT::V(x0), t => t })];
    for _ in 0..r.range(0, 2) {
        let x = pickx(r);
        lhs.push((r.chance(1, 3), term(r, x)));
    }
    // the same variable on the other side, with the other kind of literal now and then
    let first_r = match (r.below(3), all_int_lits) {
        (0, _) => XT::V(x0),
        (1, false) => XT::M(x0, lit(r, Some(!matches!(lhs[0].1, XT::M(_, Lit::F(_)) | XT::L(Lit::F(_), _))))),
        _ => { let x = pickx(r); match term(r, x) { XT::K(_) => XT::V(x), t => t } }
    };
    let mut rhs: Vec<(bool, XT)> = vec![(false, first_r)];
    for _ in 0..r.range(0, 2) {
        let x = pickx(r);
        rhs.push((r.chance(1, 3), term(r, x)));
    }
    let op = *r.pick(&[0u8, 0, 1, 2, 2, 3, 4, 5]);
    let mut row = XRow { op, lhs, rhs };
    // d = lhs(w) - rhs(w) so far; close the row with a literal K on the right: lhs op rhs + K
    let (cs, k) = row.linear(nv);
    let mut d = k;
    let mut sum_abs = 0.0;
    let mut mag = 0.0;
    for (i, c) in cs.iter().enumerate() {
        d = d.add(&c.mul(&exf(wv(i))));
        sum_abs += c.abs().approx();
        mag += c.abs().approx() * wv(i).abs();
    }
    let d = d.approx();
    let margin = step * sum_abs.max(1.0) * r.range(10, 200) as f64 + mag * 1e-9 + 1e-9;
    let kf = match op {
        0 | 1 => d + margin,      // lhs <= rhs + K
        2 | 3 => d - margin,      // lhs >= rhs + K
        4 => d,
        _ => d + margin * if r.chance(1, 2) { 1.0 } else { -1.0 },
    };
    let use_int = (all_int_lits || r.chance(1, 4)) && kf.abs() < 1.0e8;
    let klit = if use_int {
        Lit::I(match op { 0 | 1 => kf.ceil() as i32 + if op == 1 && kf.ceil() == kf { 1 } else { 0 }, 2 | 3 => kf.floor() as i32 - if op == 3 && kf.floor() == kf { 1 } else { 0 }, _ => kf.round() as i32 })
    } else {
        Lit::F(kf)
    };
    row.rhs.push((false, XT::K(klit)));
    row
}

fn case_api(out: &mut Out, r: &mut Rng, id: &str) {
    out.case(id);
    let digits = *r.pick(&[2, 3, 4, 6, 6, 6]);
    let step = precision_to_step_size(digits);
    let nv = r.range(1, 4) as usize;
    let mut vars = vec![];
    for _ in 0..nv {
        if r.chance(1, 4) {
            let lo = r.range(-6, 3) as i32;
            let hi = lo + r.range(0, 8) as i32;
            vars.push(AVar::I(lo, hi, r.range(lo as i64, hi as i64) as i32));
        } else {
            let scale = *r.pick(&[1.0, 1.0, 10.0, 100.0, 1000.0]);
            let lo = (r.range(-2000, 1000) as f64) * 0.01 * scale;
            let hi = lo + (r.range(0, 3000) as f64) * 0.01 * scale;
            let k = ((lo + (hi - lo) * (r.below(1001) as f64 / 1000.0)) / step).round();
            let mut w = (k * step).clamp(lo, hi);
            if r.chance(1, 2) {
                // a witness that is on the decimal grid AND dyadic (multiple of 1/4), if there is one
                let q = (w * 4.0).round() / 4.0;
                if q >= lo && q <= hi { w = q; }
            }
            vars.push(AVar::F(lo, hi, w));
        }
    }
    let wv = |x: usize| match vars[x] { AVar::F(_, _, w) => w, AVar::I(_, _, w) => w as f64 };
    let mut rows = vec![];
    for _ in 0..r.range(1, 4) {
        let kind = r.below(16);
        let x = r.below(nv as u64) as usize;
        let y = r.below(nv as u64) as usize;
        match kind {
            12..=15 => {
                let row = gen_xrow(r, nv, &wv, step);
                let probe = AModel { digits, style: 0, vars: vars.clone(), rows: vec![] };
                if probe.ex_holds_at_witness(&row) {
                    rows.push(ARow::Ex(row));
                } else {
                    out.stat("api.ex.rejected-not-holding-at-witness");
                    rows.push(ARow::CLe(x, wv(x) + step * r.range(10, 400) as f64));
                }
            }
            0..=4 => {
                let n = r.range(1, nv as i64) as usize;
                let mut xs: Vec<usize> = (0..nv).collect();
                for i in 0..nv {
                    let j = r.range(i as i64, nv as i64 - 1) as usize;
                    xs.swap(i, j);
                }
                xs.truncate(n);
                let cs: Vec<f64> = xs.iter().map(|_| match r.below(5) {
                    0 => 1.0,
                    1 => -1.0,
                    2 => r.range(-5, 5) as f64,
                    3 => r.range(-20, 20) as f64 * 0.5,
                    _ => r.range(-30, 30) as f64 * 0.1,
                }).collect();
                let sum: f64 = cs.iter().zip(&xs).map(|(c, x)| c * wv(*x)).sum();
                let sum_abs: f64 = cs.iter().map(|c| c.abs()).sum();
                if kind == 4 {
                    // equalities: prefer small dyadic coefficients so that the row can hold exactly
                    let cs: Vec<f64> = if r.chance(2, 3) { xs.iter().map(|_| *r.pick(&[1.0, -1.0, 2.0, -2.0, 0.5, -0.5, 3.0, 4.0, -3.0])).collect() } else { cs };
                    let sum: f64 = cs.iter().zip(&xs).map(|(c, x)| c * wv(*x)).sum();
                    let row = ARow::Eq(cs, xs, sum);
                    rows.push(row);
                } else {
                    let margin = step * sum_abs * r.range(10, 200) as f64 + sum.abs() * 1e-9;
                    rows.push(ARow::Le(cs, xs, sum + margin));
                }
            }
            5 | 6 => {
                if x != y && wv(x) + 20.0 * step <= wv(y) { rows.push(if kind == 5 { ARow::VLe(x, y) } else { ARow::VLt(x, y) }); }
                else { rows.push(ARow::CLe(x, wv(x) + step * r.range(10, 400) as f64)); }
            }
            7 => {
                if x != y && (wv(x) - wv(y)).abs() >= 20.0 * step { rows.push(ARow::VNe(x, y)); }
                else { rows.push(ARow::CGe(x, wv(x) - step * r.range(10, 400) as f64)); }
            }
            8 => {
                if x != y && wv(x) == wv(y) { rows.push(ARow::VEq(x, y)); }
                else { rows.push(ARow::CGe(x, wv(x) - step * r.range(10, 400) as f64)); }
            }
            9 => rows.push(ARow::CLe(x, wv(x) + step * r.range(10, 400) as f64)),
            _ => rows.push(ARow::CGe(x, wv(x) - step * r.range(10, 400) as f64)),
        }
    }
    let am = AModel { digits, style: r.below(3) as u8, vars, rows };
    for row in &am.rows {
        if matches!(row, ARow::Eq(..)) {
            out.stat(if am.eq_exact_at_witness(row) { "api.eq-row.exact" } else { "api.eq-row.inexact" });
        }
        if let ARow::Ex(x) = row {
            let mut st = vec![];
            let li = x.lowering(&mut st);
            for k in st {
                out.stat(&k);
            }
            out.stat(if li { "api.ex.lowered.LinearInt" } else { "api.ex.lowered.LinearFloat" });
            out.stat(&format!("api.ex.op.{}", XOPS[x.op as usize]));
            let (cs, _) = x.linear(am.vars.len());
            let both = x.lhs.iter().any(|(_, t)| x.rhs.iter().any(|(_, u)| xt_var(t).is_some() && xt_var(t) == xt_var(u)));
            if both { out.stat("api.ex.same-var-both-sides"); }
            if cs.iter().enumerate().any(|(i, c)| c.is_zero() && x.lhs.iter().chain(&x.rhs).any(|(_, t)| xt_var(t) == Some(i))) {
                out.stat("api.ex.var-cancels");
            }
        }
    }
    api_run(out, &am);
}

fn api_line(out: &mut Out, line: &str) {
    match AModel::parse(line) {
        Some(am) => api_run(out, &am),
        None => { out.emit(line, "-"); }
    }
}

// ---------------------------------------------------------------------------------------------
// engine-level cases (`fl.post`, `fl.solve`): the real search over float / mixed stores
// (C06 / C07 end to end).  `fl.solve <seed> <fuel>`: seed < 0 = FIFO agenda, otherwise hook H3;
// root LP step off (hook H4); `fuel` = depth budget of the model (two units per level).
//
// `Engine::next` cannot be interrupted inside a descent, so the real search is only called after a
// PRE-FLIGHT depth-first search that drives the real components (`split_on_unassigned` and its
// iterator, `Agenda`, `search::propagate`) with the model's depth accounting: if it ends within the
// budget the real `search_with_timeout_and_memory(..).next()` is run and ITS answer is the result
// line (values, propagation_count, node_count; the final store is the pre-flight leaf, and both must
// agree); if the descent exceeds the depth budget the result line is `diverge`.
// ---------------------------------------------------------------------------------------------
use selen::search::agenda::Agenda;
use selen::search::branch::split_on_unassigned;
use selen::search::mode::Enumerate;
use selen::search::{propagate, search_with_timeout_and_memory, Space};

const NODE_BUDGET: usize = 40000;

enum Pre {
    Sol(Vec<VState>, usize, usize),
    NoSol,
    /// depth budget exceeded; `true` = a branch that left every domain unchanged lies on the path
    Diverge(bool),
    Budget,
}

fn mk_space(vars: Vars, props: Propagators) -> Space {
    Space { vars, props, trail: selen::search::trail::Trail::new(), lp_solver_used: false, lp_constraint_count: 0, lp_variable_count: 0, lp_stats: None }
}

fn var_states(vars: &Vars, ids: &[VarId]) -> Vec<VState> {
    ids.iter()
        .map(|id| match &vars[*id] {
            Var::VarF(iv) => VState::F(iv.min, iv.max, iv.step),
            Var::VarI(s) => {
                let mut v = s.to_vec();
                v.sort();
                VState::I(v)
            }
        })
        .collect()
}

fn show_vstates(st: &[VState]) -> String {
    st.iter()
        .map(|s| match s {
            VState::F(a, b, c) => format!("f:{}:{}:{}", sf(*a), sf(*b), sf(*c)),
            VState::I(v) => format!("i:{}", crate::out::show_ints(v)),
        })
        .collect::<Vec<_>>()
        .join("|")
}

fn pre_explore(space: Space, ids: &[VarId], fuel: usize, nodes: &mut usize) -> Pre {
    if fuel == 0 {
        return Pre::Diverge(false);
    }
    let before = var_states(&space.vars, ids);
    let mut it = split_on_unassigned(space);
    while let Some((mut sp, p)) = it.next() {
        if fuel == 1 {
            return Pre::Diverge(false);
        }
        *nodes += 1;
        if *nodes > NODE_BUDGET {
            return Pre::Budget;
        }
        sp.props.increment_node_count();
        let agenda = Agenda::with_props(std::iter::once(p));
        if let Some((stalled, sp2)) = propagate(sp, agenda) {
            if !stalled {
                return Pre::Sol(var_states(&sp2.vars, ids), sp2.get_propagation_count(), sp2.get_node_count());
            }
            let same = var_states(&sp2.vars, ids) == before;
            match pre_explore(sp2, ids, fuel - 2, nodes) {
                Pre::NoSol => {}
                Pre::Diverge(np) => return Pre::Diverge(np || same),
                r => return r,
            }
        }
    }
    Pre::NoSol
}

/// affine form `a*x + b` of a view of depth <= 1 (Next / Prev directly over an integer variable
/// shift by one; over a float variable they move by one step, which the tolerances absorb)
fn view_affine_d(v: &FVS, decl: &[VState]) -> (f64, f64, Option<usize>) {
    match v {
        FVS::Next(i) | FVS::Prev(i) => {
            if let FVS::V(x) = &**i {
                if matches!(decl[*x], VState::I(_)) {
                    return (1.0, if matches!(v, FVS::Next(_)) { 1.0 } else { -1.0 }, Some(*x));
                }
            }
            view_affine(i)
        }
        _ => view_affine(v),
    }
}
fn view_affine(v: &FVS) -> (f64, f64, Option<usize>) {
    match v {
        FVS::C(k) => (0.0, k.as_f64(), None),
        FVS::V(i) => (1.0, 0.0, Some(*i)),
        FVS::Opp(v) => { let (a, b, x) = view_affine(v); (-a, -b, x) }
        FVS::Plus(k, v) => { let (a, b, x) = view_affine(v); (a, b + k.as_f64(), x) }
        FVS::TPos(k, v) | FVS::Times(k, v) | FVS::TNeg(k, v) => { let (a, b, x) = view_affine(v); (a * k.as_f64(), b * k.as_f64(), x) }
        FVS::Next(v) | FVS::Prev(v) => view_affine(v),
    }
}

fn ex_min(a: Ex, b: Ex) -> Ex { if b.lt(&a) { b } else { a } }

/// C06 oracle for one posted row at the returned point (exact arithmetic for linear rows):
///   `<=` row:  Σ cⱼxⱼ ≤ C + minᵢ |cᵢ|·max(3·stepᵢ, 1e-5·(|xᵢ|+2·stepᵢ)) + Σⱼ |cⱼ|·1.5·stepⱼ + 2⁻⁴⁰·magnitude
///   (i over the float variables with |cᵢ| ≥ 1e-12: the tolerance of `C06_solve_within_tolerance`)
fn check_post_row(k: &FK, vals: &[f64], decl: &[VState]) -> Option<(String, &'static str)> {
    let step_of = |x: usize| match &decl[x] { VState::F(_, _, s) => *s, VState::I(_) => 0.0 };
    let pt = |x: usize| (3.0 * step_of(x)).max(1e-5 * (vals[x].abs() + 2.0 * step_of(x)));
    match k {
        FK::Lin(kind @ (0 | 1), cs, xs, c, None) => {
            if !c.is_finite() || cs.iter().any(|c| !c.is_finite()) || xs.iter().any(|x| !vals[*x].is_finite()) {
                return None;
            }
            let mut d = exf(*c).neg();
            let mut widths = Ex::zero();
            let mut mag = exf(*c).abs();
            let mut best: Option<Ex> = None;
            let mut all = Ex::zero();
            for (ci, xi) in cs.iter().zip(xs) {
                d = d.add(&exf(*ci).mul(&exf(vals[*xi])));
                mag = mag.add(&exf(*ci).mul(&exf(vals[*xi])).abs());
                widths = widths.add(&exf(*ci).abs().mul(&exf(1.5 * step_of(*xi))));
                if matches!(decl[*xi], VState::F(..)) && ci.abs() >= 1e-12 {
                    let t = exf(*ci).abs().mul(&exf(pt(*xi)));
                    all = all.add(&t);
                    best = Some(match best { None => t, Some(b) => ex_min(b, t) });
                }
            }
            let round = mag.scale2(-40);
            if *kind == 1 {
                match best {
                    None => if d.gt(&round) { Some((format!("lhs-C = {:e} on a row without float variable", d.approx()), "int-var-in-float-linear")) } else { None },
                    Some(b) => {
                        let tol = b.add(&widths).add(&round);
                        if d.gt(&tol) { Some((format!("lhs-C = {:e}, tolerance {:e}", d.approx(), tol.approx()), "-")) } else { None }
                    }
                }
            } else {
                // equality: both directions, all precision tolerances, plus the 1e-4 "already fixed" skip
                let mut sum_abs = Ex::zero();
                for ci in cs { sum_abs = sum_abs.add(&exf(*ci).abs()); }
                let tol = all.add(&widths).add(&round).add(&sum_abs.mul(&exf(1e-4)));
                if d.abs().gt(&tol) { Some((format!("|lhs-C| = {:e}, tolerance {:e}", d.approx(), tol.approx()), "-")) } else { None }
            }
        }
        FK::Leq(x, y) | FK::Lt(x, y) | FK::Eq(x, y) => {
            let (ax, bx, vx) = view_affine_d(x, decl);
            let (ay, by, vy) = view_affine_d(y, decl);
            let val = |a: f64, b: f64, v: Option<usize>| a * v.map_or(0.0, |i| vals[i]) + b;
            let tolv = |a: f64, v: Option<usize>| v.map_or(0.0, |i| a.abs() * (pt(i) + 2.5 * step_of(i)));
            let d = val(ax, bx, vx) - val(ay, by, vy);
            let tol = tolv(ax, vx) + tolv(ay, vy) + 1e-9 * (val(ax, bx, vx).abs() + val(ay, by, vy).abs());
            let bad = if matches!(k, FK::Eq(..)) { d.abs() > tol } else { d > tol };
            if bad { Some((format!("x-y = {d:e}, tolerance {tol:e}"), "-")) } else { None }
        }
        _ => None,
    }
}

/// does the witness satisfy the posted row with the margin the C07 oracle demands
/// (`<=` rows: `row_slack`; equalities exactly at grid points; comparisons at views: 4 steps)
fn witness_protected(k: &FK, a: &[FV], decl: &[VState]) -> bool {
    let step_of = |x: usize| match &decl[x] { VState::F(_, _, s) => *s, VState::I(_) => 0.0 };
    match k {
        FK::Lin(1, cs, xs, c, None) => row_slack(cs, xs, *c, a, decl).map_or(false, |(s, m)| s.ge(&m)),
        FK::Lin(0, cs, xs, c, None) => row_slack(cs, xs, *c, a, decl).map_or(false, |(s, _)| s.is_zero()) && on_grid(a, xs, decl),
        FK::Leq(x, y) | FK::Lt(x, y) => {
            let (ax, bx, vx) = view_affine_d(x, decl);
            let (ay, by, vy) = view_affine_d(y, decl);
            let val = |a0: f64, b: f64, v: Option<usize>| a0 * v.map_or(0.0, |i| a[i].as_f64()) + b;
            let mg = |a0: f64, v: Option<usize>| v.map_or(0.0, |i| a0.abs() * 4.0 * step_of(i).max(if matches!(decl[i], VState::I(_)) { 0.25 } else { 0.0 }));
            let strict = if matches!(k, FK::Lt(..)) { 1.0 } else { 0.0 };
            val(ax, bx, vx) + mg(ax, vx) + mg(ay, vy) + strict * 1e-9 + 1e-9 * (val(ax, bx, vx).abs() + val(ay, by, vy).abs()) <= val(ay, by, vy)
        }
        _ => false,
    }
}

fn apply_solve(fc: &mut FCase, out: &mut Out, line: &str, seed: i64, fuel: usize) {
    let ids = fc.ids.clone();
    let posts = fc.posts.clone();
    let vars0 = fc.vars.clone();
    let decl = fc.states();
    let build = || {
        let mut props = Propagators::default();
        for _ in &ids {
            props.on_new_var();
        }
        for k in &posts {
            k.post(&mut props, &ids);
        }
        (vars0.clone(), props)
    };
    hooks::set_agenda_seed(if seed < 0 { None } else { Some(seed as u64) });
    hooks::set_root_lp_disabled(true);
    let mut nodes = 0usize;
    let pre = guarded(|| {
        let (vars, props) = build();
        let agenda = Agenda::with_props(props.get_prop_ids_iter());
        match propagate(mk_space(vars, props), agenda) {
            None => Pre::NoSol,
            Some((false, sp)) => Pre::Sol(var_states(&sp.vars, &ids), sp.get_propagation_count(), sp.get_node_count()),
            Some((true, sp)) => pre_explore(sp, &ids, fuel, &mut nodes),
        }
    });
    let reset = || {
        hooks::set_agenda_seed(None);
        hooks::set_root_lp_disabled(false);
    };
    out.stat_n("fe.preflight-nodes", nodes as u64);
    let applies = fc.witness.as_ref().map_or(false, |a| a.len() == decl.len() && witness_inside(&decl, a).is_none() && posts.iter().all(|k| witness_protected(k, a, &decl)));
    out.stat(if applies { "fe.c07.applies" } else { "fe.c07.not-applicable" });
    let pre = match pre {
        None => {
            reset();
            let l = out.emit(line, "panic");
            out.stat("fe.result.panic");
            out.fail(l, "C17", "-", format!("panic in the search of {:?}", posts.iter().map(|k| k.tokens()).collect::<Vec<_>>()));
            return;
        }
        Some(Pre::Budget) => {
            reset();
            // dropped: the model's fuel is a depth, not a node count
            out.emit(line.replacen("fl.solve", "#fl.solve-dropped", 1), "-");
            out.stat("fe.dropped.node-budget");
            return;
        }
        Some(p) => p,
    };
    if let Pre::Diverge(np) = pre {
        reset();
        let l = out.emit(line, "diverge");
        out.stat("fe.result.diverge");
        // matcher of `float-split-no-progress`: some float domain whose step is below the ulp of its bounds
        let sub_ulp = decl.iter().any(|s| matches!(s, VState::F(lo, hi, st) if *st < UlpUtils::ulp(*lo) || *st < UlpUtils::ulp(*hi)));
        let tag = if !np { "-" } else if sub_ulp { "float-split-no-progress" } else { "float-split-half-step-no-progress" };
        out.fail(l, "C07", tag, format!("the depth-first search exceeds depth {} (no-progress branch on the path: {np}); domains {} rows {:?}", fuel / 2, show_vstates(&decl), posts.iter().map(|k| k.tokens()).collect::<Vec<_>>()));
        return;
    }
    // the real search
    let real = guarded(|| {
        let (vars, props) = build();
        let mut it = search_with_timeout_and_memory(vars, props, Enumerate, None, None, vec![], 6);
        it.next().map(|s| (ids.iter().map(|id| s[*id]).collect::<Vec<Val>>(), s.stats.propagation_count, s.stats.node_count))
    });
    reset();
    let Some(real) = real else {
        let l = out.emit(line, "panic");
        out.fail(l, "C17", "-", "panic in search_with_timeout_and_memory".to_string());
        return;
    };
    match (&real, &pre) {
        (None, Pre::NoSol) => {
            let l = out.emit(line, "nosol");
            out.stat("fe.result.nosol");
            if applies {
                let mixed_eq = posts.iter().any(|k| matches!(k, FK::Lin(0, cs, xs, _, None) if {
                    let nz: Vec<usize> = cs.iter().zip(xs).filter(|(c, _)| c.abs() >= 1e-12).map(|(_, x)| *x).collect();
                    nz.iter().any(|x| matches!(decl[*x], VState::F(..))) && nz.iter().any(|x| matches!(decl[*x], VState::I(_)))
                }));
                // `result_type` of a view of depth <= 1
                let is_float = |v: &FVS| -> bool {
                    fn go(v: &FVS, decl: &[VState]) -> bool {
                        match v {
                            FVS::C(k) => matches!(k, FV::F(_)),
                            FVS::V(i) => matches!(decl[*i], VState::F(..)),
                            FVS::Opp(v) | FVS::Next(v) | FVS::Prev(v) => go(v, decl),
                            FVS::Plus(k, v) | FVS::TPos(k, v) | FVS::Times(k, v) | FVS::TNeg(k, v) => go(v, decl) || matches!(k, FV::F(_)),
                        }
                    }
                    go(v, &decl)
                };
                // `Prev` over a float variable bounded by an integer value (known finding, C13)
                let prev_int = posts.iter().any(|k| match k {
                    FK::Leq(x, y) | FK::Lt(x, y) | FK::Eq(x, y) => [(x, y), (y, x)].iter().any(|(p, o)| matches!(p, FVS::Prev(i) if is_float(i)) && !is_float(o)),
                    _ => false,
                });
                // `less_than(x, y)` = `Next(x) <= y`: an integer-typed left side is shifted by a whole
                // unit even when the right side is a float view; witnesses with y - x < 1 are lost
                let lt_int_left = posts.iter().any(|k| match k {
                    FK::Lt(x, y) if !is_float(x) && is_float(y) => {
                        let a = fc.witness.as_ref().unwrap();
                        let val = |v: &FVS| { let (s, b, i) = view_affine_d(v, &decl); s * i.map_or(0.0, |i| a[i].as_f64()) + b };
                        val(y) - val(x) < 1.0
                    }
                    _ => false,
                });
                // TimesPos with an integer scale over a float variable bounded by an integer value: integer
                // division (known finding, C13)
                let tpos_int = posts.iter().any(|k| match k {
                    FK::Leq(x, y) | FK::Lt(x, y) | FK::Eq(x, y) => [(x, y), (y, x)].iter().any(|(p, o)| matches!(p, FVS::TPos(FV::I(_), i) | FVS::Times(FV::I(_), i) | FVS::TNeg(FV::I(_), i) if is_float(i)) && !is_float(o)),
                    _ => false,
                });
                let tag = if mixed_eq { "float-eq-int-var-rounding" } else if tpos_int { "timespos-int-division-on-float-view" } else if prev_int { "prev-int-bound-on-float-view-shifts-by-one" } else if lt_int_left { "strict-cmp-int-left-unit-step" } else { "-" };
                out.fail(l, "C07", tag, format!("search = no solution although the witness {:?} satisfies every row with margin; domains {} rows {:?}", fc.witness, show_vstates(&decl), posts.iter().map(|k| k.tokens()).collect::<Vec<_>>()));
            }
        }
        (Some((vals, pc, nc)), Pre::Sol(st, ppc, pnc)) => {
            let l = out.emit(line, format!("sol pc={pc} nc={nc} v={} st={}", vals.iter().map(|v| FV::show(*v)).collect::<Vec<_>>().join(","), show_vstates(st)));
            out.stat("fe.result.sol");
            out.stat(if *nc == 0 { "fe.sol.at-root" } else { "fe.sol.by-search" });
            out.stat_n("fe.sol.nodes", *nc as u64);
            // harness self-check: the engine and the pre-flight search agree
            let agree = pc == ppc && nc == pnc && vals.iter().zip(st).all(|(v, s)| match (v, s) {
                (Val::ValF(f), VState::F(lo, _, _)) => f.to_bits() == lo.to_bits() || (f.is_nan() && lo.is_nan()),
                (Val::ValI(i), VState::I(d)) => d.len() == 1 && d[0] == *i,
                _ => false,
            });
            if !agree {
                out.fail(l, "C06", "-", format!("Engine::next and the pre-flight search disagree: {vals:?} pc={pc} nc={nc} vs {st:?} pc={ppc} nc={pnc}"));
            }
            // C06: bounds, integrality, rows
            let mut fv = vec![];
            for (i, (v, d)) in vals.iter().zip(&decl).enumerate() {
                match (v, d) {
                    (Val::ValF(f), VState::F(lo, hi, _)) => {
                        if !(*f >= *lo && *f <= *hi) {
                            out.fail(l, "C06", "-", format!("float variable {i} = {f:e} outside its declared bounds [{lo:e},{hi:e}]"));
                        }
                        fv.push(*f);
                    }
                    (Val::ValI(k), VState::I(dom)) => {
                        if !dom.contains(k) {
                            out.fail(l, "C06", "-", format!("integer variable {i} = {k} not in its domain {dom:?}"));
                        }
                        fv.push(*k as f64);
                    }
                    (v, d) => {
                        out.fail(l, "C06", "-", format!("variable {i}: value {v:?} of the wrong kind for {d:?}"));
                        fv.push(match v { Val::ValF(f) => *f, Val::ValI(k) => *k as f64 });
                    }
                }
            }
            for k in &posts {
                if let Some((d, tag)) = check_post_row(k, &fv, &decl) {
                    out.fail(l, "C06", tag, format!("row {} violated by the returned point {fv:?}: {d}", k.tokens()));
                }
            }
        }
        (r, _) => {
            let l = out.emit(line, match r { None => "nosol".to_string(), Some((vals, pc, nc)) => format!("sol pc={pc} nc={nc} v={} st=?", vals.iter().map(|v| FV::show(*v)).collect::<Vec<_>>().join(",")) });
            out.fail(l, "C06", "-", "Engine::next and the pre-flight search disagree on the verdict".to_string());
        }
    }
}

/// a model of 1–4 float / integer variables with `FloatLinLe/Eq` rows and comparisons at views
/// built AROUND A WITNESS point (mostly on the step grid, bounds mostly on the grid)
fn case_engine(out: &mut Out, r: &mut Rng, id: &str) {
    out.case(id);
    let mut fc = FCase::new();
    let nv = r.range(1, 4) as usize;
    let dyadic = r.chance(1, 2);
    let common_step = if dyadic { (-(r.range(0, 12) as f64)).exp2() } else { precision_to_step_size(r.range(1, 6) as i32) };
    let mut wit: Vec<FV> = vec![];
    let mut steps: Vec<f64> = vec![];
    for _ in 0..nv {
        if r.chance(1, 4) {
            let d = if r.chance(1, 2) { gen_int_dom(r) } else { let lo = r.range(-20, 10) as i32; (lo..=lo + r.range(0, 14) as i32).collect() };
            wit.push(FV::I(*r.pick(&d)));
            steps.push(0.0);
            add_int_var(&mut fc, out, &d);
            out.stat("fe.var.int");
        } else {
            let step = if r.chance(3, 4) { common_step } else if dyadic { (-(r.range(0, 12) as f64)).exp2() } else { *r.pick(&[0.1, 0.25, 0.3, 0.5, 1.0, 2.0, 1e-3]) };
            let k = r.range(-3000, 3000);
            let span = match r.below(8) { 0 => 2, 1 | 2 => 6, 3 | 4 => 60, 5 | 6 => 3000, _ => 300000 };
            let mut lo = (k - r.range(0, span)) as f64 * step;
            let mut hi = (k + r.range(0, span)) as f64 * step;
            let offgrid = r.chance(1, 4);
            if offgrid {
                lo += step * *r.pick(&[0.5, 0.25, 0.3, 0.75, 0.5]);
                if r.chance(1, 3) { hi += step * *r.pick(&[0.5, 0.25, 0.3, 0.75]); }
                if lo > hi { hi = lo; }
            }
            if r.chance(1, 12) { hi = lo; }
            let mut w = k as f64 * step;
            if w < lo { w = ((lo / step).ceil() * step).min(hi).max(lo); }
            if w > hi { w = hi; }
            if r.chance(1, 10) {
                let w2 = w + 0.37 * step;
                if w2 <= hi { w = w2; out.stat("fe.witness.off-grid"); }
            }
            wit.push(FV::F(w));
            steps.push(step);
            add_float_var(&mut fc, out, lo, hi, step);
            out.stat(if offgrid { "fe.var.float.bounds-off-grid" } else { "fe.var.float.bounds-on-grid" });
        }
    }
    apply(&mut fc, out, &format!("fl.witness {}", wit.iter().map(|w| w.tokens()).collect::<Vec<_>>().join(" ")));
    let nrows = r.range(0, 4);
    let smax = steps.iter().cloned().fold(0.0, f64::max);
    for _ in 0..nrows {
        let kind = r.below(10);
        let tok = if kind < 6 {
            let n = r.range(1, nv as i64) as usize;
            let mut xs: Vec<usize> = (0..nv).collect();
            for i in 0..nv {
                let j = r.range(i as i64, nv as i64 - 1) as usize;
                xs.swap(i, j);
            }
            xs.truncate(n);
            let is_eq = kind == 5;
            let cs: Vec<f64> = xs.iter().map(|_| if is_eq {
                *r.pick(&[1.0, -1.0, 2.0, -2.0, 0.5, -0.5, 3.0, 4.0, -3.0])
            } else { match r.below(8) {
                0 => 1.0,
                1 => -1.0,
                2 => r.range(-5, 5) as f64,
                3 => r.range(-8, 8) as f64 * 0.5,
                4 => r.range(-30, 30) as f64 * 0.1,
                5 => if r.chance(1, 3) { 1e-13 } else { 0.0 },
                _ => r.range(-40, 40) as f64 * 0.25,
            } }).collect();
            let sum: f64 = cs.iter().zip(&xs).map(|(c, x)| c * wit[*x].as_f64()).sum();
            let sum_abs: f64 = cs.iter().map(|c| c.abs()).sum();
            if is_eq {
                FK::Lin(0, cs, xs, sum, None).tokens()
            } else {
                let c = match r.below(10) {
                    0 => sum,                                                    // tight
                    1 => sum + smax * sum_abs * 0.5,                             // below the margin
                    2 => sum - smax.max(0.25) * sum_abs.max(1.0) * r.range(1, 30) as f64, // violated by the witness
                    _ => sum + smax.max(1e-3) * sum_abs * r.range(5, 60) as f64 + sum.abs() * 1e-9,
                };
                FK::Lin(1, cs, xs, c, None).tokens()
            }
        } else {
            // comparison between two views, oriented so that it holds at the witness
            let x = r.below(nv as u64) as usize;
            let y = r.below(nv as u64) as usize;
            let mk = |r: &mut Rng, v: usize| -> FVS {
                match r.below(8) {
                    0 => FVS::Plus(small_fv(r, common_step), Box::new(FVS::V(v))),
                    1 => FVS::Next(Box::new(FVS::V(v))),
                    2 => FVS::Prev(Box::new(FVS::V(v))),
                    3 => FVS::TPos(if r.chance(1, 2) { FV::I(r.range(1, 3) as i32) } else { FV::F(*r.pick(&[0.5, 2.0, 1.5])) }, Box::new(FVS::V(v))),
                    4 => FVS::Opp(Box::new(FVS::V(v))),
                    _ => FVS::V(v),
                }
            };
            let vx = mk(r, x);
            let vy = if r.chance(1, 4) { FVS::C(small_fv(r, common_step)) } else { mk(r, y) };
            let val = |v: &FVS| { let (a, b, i) = view_affine(v); a * i.map_or(0.0, |i| wit[i].as_f64()) + b };
            let (l, g) = if val(&vx) <= val(&vy) { (vx, vy) } else { (vy, vx) };
            match r.below(4) {
                0 => FK::Lt(l, g).tokens(),
                1 if val(&l) == val(&g) && !matches!(l, FVS::C(_)) => FK::Eq(l, g).tokens(),
                _ => FK::Leq(l, g).tokens(),
            }
        };
        apply(&mut fc, out, &format!("fl.post {tok}"));
    }
    let seed = if r.chance(3, 4) { -1 } else { r.range(0, 1000) };
    apply(&mut fc, out, &format!("fl.solve {seed} 1000"));
}

/// one float variable [a*h, b*h] (h = step/2, so bounds on and off the step grid), alone and with
/// every row `x <= c*h`, `a <= c <= b`: exhaustive over |a|,|b| <= u
fn suite_engine_exhaustive(out: &mut Out, u: i64) {
    for step in [0.25f64, 0.1, 1.0] {
        let h = step / 2.0;
        for a in -u..=u {
            for b in a..=u {
                for c in (a - 1)..=b {
                    out.case(&format!("fex-{step}-{a}-{b}-{c}"));
                    let mut fc = FCase::new();
                    add_float_var(&mut fc, out, a as f64 * h, b as f64 * h, step);
                    if c >= a {
                        apply(&mut fc, out, &format!("fl.post {}", FK::Lin(1, vec![1.0], vec![0], c as f64 * h, None).tokens()));
                    }
                    apply(&mut fc, out, "fl.solve -1 200");
                }
            }
        }
    }
}

/// `--mode probe`: looks for the smallest `Model::float(lo, hi)` declarations (public API, decimal
/// steps 10^-digits) on which the props-level search diverges, then confirms on the PUBLIC API
/// (`Model::solve` with a 300 ms timeout configured) in a watchdog thread that solve() does not
/// return within 3 s.  Reproducer finder for `float-split-half-step-no-progress`; prints to stderr.
fn suite_probe(out: &mut Out) {
    for digits in 1..=6 {
        let step = precision_to_step_size(digits);
        let mut found = 0;
        'k: for k in 0..60i64 {
            for n in 2..80i64 {
                for (lo, hi) in [((k as f64 + 0.5) * step, (k + n) as f64 * step), (k as f64 * step + step / 2.0, k as f64 * step + step / 2.0 + n as f64 * step)] {
                    let before = out.ops.len();
                    out.case(&format!("probe-{digits}-{k}-{n}"));
                    let mut fc = FCase::new();
                    add_float_var(&mut fc, out, lo, hi, step);
                    apply(&mut fc, out, "fl.solve -1 400");
                    if out.imp.last().map(|s| s.as_str()) != Some("diverge") {
                        out.ops.truncate(before);
                        out.imp.truncate(before);
                        out.oracle.retain(|o| o.0 < before);
                        continue;
                    }
                    // public API, watchdog thread
                    let (tx, rx) = std::sync::mpsc::channel();
                    std::thread::spawn(move || {
                        let cfg = sp::config::SolverConfig::default().with_float_precision(digits).with_timeout_ms(300);
                        let mut m = Model::with_config(cfg);
                        let x = m.float(lo, hi);
                        let r = m.solve().map(|s| match s[x] { sp::Val::ValF(f) => f, sp::Val::ValI(i) => i as f64 });
                        let _ = tx.send(format!("{r:?}"));
                    });
                    let verdict = match rx.recv_timeout(std::time::Duration::from_secs(3)) {
                        Ok(r) => format!("returned {r}"),
                        Err(_) => "DID NOT RETURN within 3 s (timeout 300 ms configured)".to_string(),
                    };
                    eprintln!("with_float_precision({digits}); float({lo:?}, {hi:?}); solve(): {verdict}");
                    found += 1;
                    if found >= 2 { break 'k; }
                }
            }
        }
    }
    // the watchdog threads still run: leave without waiting for them
    let _ = out.write(&std::env::args().skip_while(|a| a != "--out").nth(1).unwrap_or_else(|| "/tmp".into()), "float");
    std::process::exit(0);
}

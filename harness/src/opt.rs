//! Suite `opt` (C08): float / mixed optimisation — `Model::minimize` / `Model::maximize` of a
//! variable over models with float (and integer) variables and linear rows posted by any route.
//!
//! `op.*` ops (compared line by line with the Lean model `Model/Opt.lean`):
//!   op.new STEP                    fresh model, float step (bits)
//!   op.var f LO HI | i LO HI       `m.float` / `m.int`; result = the variable as stored
//!   op.post …                      one posted constraint (routes: props-level `cmp` / `plin`, deferred
//!                                  `lin` / `fluent` / `fvv`, immediate `eqimm`); result = all variables,
//!                                  the metadata entries the registry gained, the rows
//!                                  `pending_lp_constraints` gained, the number of deferred ASTs
//!   op.route min|max OBJ PB…       `OptimizationRouter::try_minimize/try_maximize` called directly on
//!                                  the not-yet-lowered model; PB = per variable the result of
//!                                  `ConstraintAwareOptimizer::{min,max}imize_with_constraints`
//!                                  (`-` integer variable, `x` success == false, `LO:HI` bits) —
//!                                  that propagation run is an INPUT of the model
//!   op.entry min|max OBJ PB…       `Model::minimize/maximize`: which path answered (hook flag
//!                                  `fast_path_taken`) and the fast-path point
//!   op.rootlp min|max OBJ          the root LP step of the search path (fast path switched off, engine
//!                                  cut at its first limit check by hook H6): the linear system rebuilt
//!                                  from the code's own pieces (`pending_lp_constraints`, `verif_lower`,
//!                                  `extract_linear_system`, `add_constraint`, `is_suitable_for_lp`) —
//!                                  rows, variable order, position of the objective, eligibility — and,
//!                                  when eligible, the `LpProblem` recorded INSIDE
//!                                  `search_with_timeout_and_memory` by hook H9 (`record_root_lp`):
//!                                  n, A, b, lower / upper bounds, objective vector (bit patterns)
//!   op.lpapply min|max OBJ ST K X… what the LP block then does: ST / X = status code and point the LP
//!                                  solver returned (recorded by H9; an INPUT of the model, `err` = the
//!                                  solver returned `Err`); result = `nosolution` (LP infeasible or
//!                                  `apply_lp_solution` failed), `vars=… applied=1` (the store right
//!                                  after `apply_lp_solution`) or `continue applied=0`
//!   op.apply N SYS… K X…           `apply_lp_solution` called directly with a synthetic `Optimal`
//!                                  solution on the declared variables
//!
//! `#opt` lines (oracle only, the model answers `-`): a whole model + direction + objective; the real
//! `minimize` / `maximize` is judged against an exact oracle (vertex enumeration over i128 rationals of
//! the bit patterns, integer variables enumerated):
//!   (a) Ok  => every variable inside its declared bounds, integer variables integral, every row
//!              within  Σ|cᵢ|·(max(3·step, 1e-5·|xᵢ|) + 1.5·step);
//!   (b) Ok  => |objective − exact optimum| ≤ t = max(3·step, 1e-5·|obj|) + 1.5·step (+ step if a row
//!              is strict); outside that, the objective must still lie in
//!              [opt(tightened) − t, opt(relaxed) + t], `relaxed` / `tightened` moving every row by its
//!              worst-case tolerance of (a) (strict rows one more step) — a point that is feasible only
//!              within the row tolerance may legitimately beat the exact optimum by that much
//!              (counted as `opt.within-band-only`);
//!   (c) Err(NoSolution) — or any error other than a limit — only if the exact model is infeasible
//!       (strict rows taken one step inside).
//! Attribution: a failing fast-path answer is classified by the defect classes of
//! `C08_fast_path_counterexample_*` (Props/C08.lean) and the search path is run on the same model
//! (`set_fast_path_disabled`); a failing search run is first explained by the recorded search-path
//! findings of other properties (the run must be CORRECT for the model rewritten to what the code
//! enforces: `float-varvar-cmp-ignored`, `int-var-in-float-linear`,
//! `strict-cmp-int-operand-plus-one`; or the narrow matchers `float-eq-off-grid-optimum`,
//! `float-eq-int-var-rounding`), then re-run with `set_root_lp_disabled(true)`: if that run is
//! correct (or explained as above) the tag is `root-lp` / `root-lp-infeasible`;
//! anything else is `-`.
//!
//! Streams (`--mode`, default `all` = witness cases + the mix below by case number):
//!   route  (30 %) decision logic only: every declared variable as objective, shapes that matter for the
//!          metadata analysis (`!=`, integer constants, constant on the left, `x ≤ x`)
//!   apply  (10 %) synthetic `apply_lp_solution` runs
//!   malformed (10 %) empty float / integer domains, constant-constant comparisons (oracle only)
//!   lp     (20 %) models aimed at the root LP: fixed variables, `>=` / strict rows through the fluent
//!          route, multi-variable rows by every route, repeated variables in a row
//!   oracle (30 %) witness-constructed and arbitrary rows by every route
//!   witness the concrete models of the Lean counterexample theorems
//!   exh    small universe exhaustively (`--universe 1|2` = number of posts per model)
use crate::float::ex::Ex;
use crate::float::sf;
use crate::out::{b, guarded, Out};
use crate::rng::Rng;
use selen::lpsolver::csp_integration::{apply_lp_solution, LinearConstraintSystem};
use selen::lpsolver::{LpSolution, LpStatus};
use selen::optimization::constraint_integration::ConstraintAwareOptimizer;
use selen::optimization::constraint_metadata::{ConstraintData, ConstraintMetadata, ConstraintType, ConstraintValue, TransformationType, ViewInfo};
use selen::optimization::model_integration::{FallbackReason, OptimizationAttempt, OptimizationRouter};
use selen::prelude as sp;
use selen::prelude::{Model, ModelExt, SolverError, VarIdExt};
use selen::runtime_api::ExprBuilder;
use selen::variables::views::{Context, View};
use selen::variables::{Val, Var, VarId, Vars};
use selen::verif_hooks as hooks;
use std::cell::RefCell;
use std::cmp::Ordering;

fn vid(i: usize) -> VarId {
    selen::optimization::model_integration::index_to_var_id(i)
}
fn vix(v: &VarId) -> usize {
    selen::optimization::model_integration::var_id_to_index(*v)
}

fn pf(s: &str) -> Option<f64> {
    if s == "nan" { Some(f64::NAN) } else { s.parse::<u64>().ok().map(f64::from_bits) }
}

// ---------------------------------------------------------------------------------------------
// model descriptions
// ---------------------------------------------------------------------------------------------
#[derive(Clone, Copy, Debug, PartialEq)]
enum Rel { Le, Lt, Ge, Gt, Eq, Ne }

impl Rel {
    const ALL: [Rel; 6] = [Rel::Le, Rel::Lt, Rel::Ge, Rel::Gt, Rel::Eq, Rel::Ne];
    fn name(self) -> &'static str {
        match self { Rel::Le => "le", Rel::Lt => "lt", Rel::Ge => "ge", Rel::Gt => "gt", Rel::Eq => "eq", Rel::Ne => "ne" }
    }
    fn parse(s: &str) -> Option<Rel> {
        Rel::ALL.iter().copied().find(|r| r.name() == s)
    }
}

#[derive(Clone, Copy, Debug, PartialEq)]
enum Opnd { V(usize), C(f64), K(i32) }

impl Opnd {
    fn tok(self) -> String {
        match self { Opnd::V(i) => format!("v{i}"), Opnd::C(c) => format!("c{}", sf(c)), Opnd::K(k) => format!("k{k}") }
    }
    fn parse(s: &str) -> Option<Opnd> {
        let (h, t) = s.split_at(1);
        match h {
            "v" => t.parse().ok().map(Opnd::V),
            "c" => pf(t).map(Opnd::C),
            "k" => t.parse().ok().map(Opnd::K),
            _ => None,
        }
    }
}

#[derive(Clone, Debug, PartialEq)]
enum SVar { F(f64, f64), I(i32, i32) }

#[derive(Clone, Debug, PartialEq)]
enum SPost {
    /// `m.props.<rel>(l, r)`
    Cmp(Rel, Opnd, Opnd),
    /// `m.props.float_lin_eq / float_lin_le`
    PLin(bool, Vec<f64>, Vec<usize>, f64),
    /// `m.lin_eq / m.lin_le` (f64)
    Lin(bool, Vec<f64>, Vec<usize>, f64),
    /// `m.new(Σ xᵢ·cᵢ  rel  rhs)` with float constants (a single variable with coefficient 1 is
    /// written `x.rel(float(rhs))`)
    Fluent(Rel, Vec<f64>, Vec<usize>, f64),
    /// `m.new(x.rel(y))`
    FluentVV(Rel, usize, usize),
    /// `m.new(x.eq(float(c)))` — materialised immediately
    EqImm(usize, f64),
}

fn lin_tok(cs: &[f64], xs: &[usize], c: f64) -> String {
    format!("{} {} {} {}", xs.len(), cs.iter().map(|c| sf(*c)).collect::<Vec<_>>().join(" "), xs.iter().map(|x| x.to_string()).collect::<Vec<_>>().join(" "), sf(c))
}

fn parse_lin(w: &[&str]) -> Option<(Vec<f64>, Vec<usize>, f64)> {
    let n: usize = w.first()?.parse().ok()?;
    if w.len() < 2 + 2 * n { return None; }
    let cs: Option<Vec<f64>> = (0..n).map(|i| pf(w[1 + i])).collect();
    let xs: Option<Vec<usize>> = (0..n).map(|i| w[1 + n + i].parse().ok()).collect();
    Some((cs?, xs?, pf(w[1 + 2 * n])?))
}

impl SPost {
    fn tok(&self) -> String {
        match self {
            SPost::Cmp(r, a, b) => format!("cmp {} {} {}", r.name(), a.tok(), b.tok()),
            SPost::PLin(e, cs, xs, c) => format!("plin {} {}", if *e { "eq" } else { "le" }, lin_tok(cs, xs, *c)),
            SPost::Lin(e, cs, xs, c) => format!("lin {} {}", if *e { "eq" } else { "le" }, lin_tok(cs, xs, *c)),
            SPost::Fluent(r, cs, xs, c) => format!("fluent {} {}", r.name(), lin_tok(cs, xs, *c)),
            SPost::FluentVV(r, x, y) => format!("fvv {} {x} {y}", r.name()),
            SPost::EqImm(x, c) => format!("eqimm {x} {}", sf(*c)),
        }
    }
    fn parse(w: &[&str]) -> Option<SPost> {
        match *w.first()? {
            "cmp" => Some(SPost::Cmp(Rel::parse(w.get(1)?)?, Opnd::parse(w.get(2)?)?, Opnd::parse(w.get(3)?)?)),
            k @ ("plin" | "lin") => {
                let e = match *w.get(1)? { "eq" => true, "le" => false, _ => return None };
                let (cs, xs, c) = parse_lin(&w[2..])?;
                Some(if k == "plin" { SPost::PLin(e, cs, xs, c) } else { SPost::Lin(e, cs, xs, c) })
            }
            "fluent" => {
                let r = Rel::parse(w.get(1)?)?;
                let (cs, xs, c) = parse_lin(&w[2..])?;
                Some(SPost::Fluent(r, cs, xs, c))
            }
            "fvv" => Some(SPost::FluentVV(Rel::parse(w.get(1)?)?, w.get(2)?.parse().ok()?, w.get(3)?.parse().ok()?)),
            "eqimm" => Some(SPost::EqImm(w.get(1)?.parse().ok()?, pf(w.get(2)?)?)),
            _ => None,
        }
    }
    /// indices of the declared variables the post mentions
    fn vars(&self) -> Vec<usize> {
        match self {
            SPost::Cmp(_, a, b) => [a, b].iter().filter_map(|o| if let Opnd::V(i) = o { Some(*i) } else { None }).collect(),
            SPost::PLin(_, _, xs, _) | SPost::Lin(_, _, xs, _) | SPost::Fluent(_, _, xs, _) => xs.clone(),
            SPost::FluentVV(_, x, y) => vec![*x, *y],
            SPost::EqImm(x, _) => vec![*x],
        }
    }
    fn well_formed(&self, nv: usize) -> bool {
        self.vars().iter().all(|x| *x < nv)
            && match self {
                SPost::PLin(_, cs, xs, _) | SPost::Lin(_, cs, xs, _) | SPost::Fluent(_, cs, xs, _) => cs.len() == xs.len() && !xs.is_empty(),
                _ => true,
            }
    }
}

#[derive(Clone, Debug)]
struct Spec {
    digits: i32,
    vars: Vec<SVar>,
    posts: Vec<SPost>,
}

fn step_of(digits: i32) -> f64 {
    selen::variables::domain::float_interval::precision_to_step_size(digits)
}

fn post_cmp<A: View, B: View>(m: &mut Model, rel: Rel, a: A, b: B) {
    match rel {
        Rel::Le => { m.props.less_than_or_equals(a, b); }
        Rel::Lt => { m.props.less_than(a, b); }
        Rel::Ge => { m.props.greater_than_or_equals(a, b); }
        Rel::Gt => { m.props.greater_than(a, b); }
        Rel::Eq => { m.props.equals(a, b); }
        Rel::Ne => { m.props.not_equals(a, b); }
    }
}

fn opnd_val(o: Opnd) -> Val {
    match o { Opnd::C(c) => Val::ValF(c), Opnd::K(k) => Val::ValI(k), Opnd::V(_) => unreachable!() }
}

fn rel_constraint(e: ExprBuilder, rel: Rel, rhs: ExprBuilder) -> sp::Constraint {
    match rel {
        Rel::Le => e.le(rhs),
        Rel::Lt => e.lt(rhs),
        Rel::Ge => e.ge(rhs),
        Rel::Gt => e.gt(rhs),
        Rel::Eq => e.eq(rhs),
        Rel::Ne => e.ne(rhs),
    }
}

fn apply_post(m: &mut Model, ids: &[VarId], p: &SPost) {
    match p {
        SPost::Cmp(rel, a, b) => match (*a, *b) {
            (Opnd::V(x), Opnd::V(y)) => post_cmp(m, *rel, ids[x], ids[y]),
            (Opnd::V(x), o) => post_cmp(m, *rel, ids[x], opnd_val(o)),
            (o, Opnd::V(y)) => post_cmp(m, *rel, opnd_val(o), ids[y]),
            (o1, o2) => post_cmp(m, *rel, opnd_val(o1), opnd_val(o2)),
        },
        SPost::PLin(e, cs, xs, c) => {
            let vs: Vec<VarId> = xs.iter().map(|x| ids[*x]).collect();
            if *e { m.props.float_lin_eq(cs.clone(), vs, *c); } else { m.props.float_lin_le(cs.clone(), vs, *c); }
        }
        SPost::Lin(e, cs, xs, c) => {
            let vs: Vec<VarId> = xs.iter().map(|x| ids[*x]).collect();
            if *e { m.lin_eq(cs, &vs, *c) } else { m.lin_le(cs, &vs, *c) }
        }
        SPost::Fluent(rel, cs, xs, c) => {
            let term = |ci: f64, xi: usize| -> ExprBuilder { if ci == 1.0 { ExprBuilder::from(ids[xi]) } else { ids[xi].mul(sp::float(ci)) } };
            let mut e = term(cs[0], xs[0]);
            for (ci, xi) in cs.iter().zip(xs).skip(1) {
                e = e.add(term(*ci, *xi));
            }
            m.new(rel_constraint(e, *rel, ExprBuilder::from(sp::float(*c))));
        }
        SPost::FluentVV(rel, x, y) => { m.new(rel_constraint(ExprBuilder::from(ids[*x]), *rel, ExprBuilder::from(ids[*y]))); }
        SPost::EqImm(x, c) => { m.new(ids[*x].eq(sp::float(*c))); }
    }
}

impl Spec {
    fn new_model(&self) -> Model {
        let cfg = sp::config::SolverConfig::default().with_float_precision(self.digits).with_timeout_ms(TIMEOUT_MS.with(|c| c.get()));
        Model::with_config(cfg)
    }
    fn declare(&self, m: &mut Model) -> Vec<VarId> {
        self.vars.iter().map(|v| match v {
            SVar::F(a, b) => m.float(*a, *b),
            SVar::I(a, b) => m.int(*a, *b),
        }).collect()
    }
    fn build(&self) -> (Model, Vec<VarId>) {
        let mut m = self.new_model();
        let ids = self.declare(&mut m);
        for p in &self.posts {
            apply_post(&mut m, &ids, p);
        }
        (m, ids)
    }
    fn is_float(&self, x: usize) -> bool {
        matches!(self.vars[x], SVar::F(..))
    }
}

// ---------------------------------------------------------------------------------------------
// printing the observable state of the real model
// ---------------------------------------------------------------------------------------------
fn show_var(v: &Var) -> String {
    match v {
        Var::VarF(iv) => format!("f:{}:{}:{}", sf(iv.min), sf(iv.max), sf(iv.step)),
        Var::VarI(s) => format!("i:{}:{}:{}", s.min(), s.max(), s.size()),
    }
}

fn show_vars(vars: &Vars) -> String {
    (0..vars.count()).map(|i| show_var(&vars[vid(i)])).collect::<Vec<_>>().join("|")
}

fn show_info(v: &ViewInfo) -> String {
    match v {
        ViewInfo::Variable { var_id } => format!("V{}", vix(&var_id)),
        ViewInfo::Constant { value: ConstraintValue::Float(f) } => format!("C{}", sf(*f)),
        ViewInfo::Constant { value: ConstraintValue::Integer(i) } => format!("C{}", sf(*i as f64)),
        ViewInfo::Transformed { base_var, transformation: TransformationType::Next } => format!("N{}", vix(&base_var)),
        ViewInfo::Transformed { .. } => "T".to_string(),
        ViewInfo::Complex => "X".to_string(),
    }
}

fn show_meta(md: &ConstraintMetadata) -> String {
    let ty = match md.constraint_type {
        ConstraintType::LessThanOrEquals => "le",
        ConstraintType::LessThan => "lt",
        ConstraintType::GreaterThanOrEquals => "ge",
        ConstraintType::GreaterThan => "gt",
        ConstraintType::Equals => "eq",
        ConstraintType::NotEquals => "ne",
        _ => "other",
    };
    let vs: Vec<String> = md.variables.iter().map(|v| vix(&v).to_string()).collect();
    let data = match &md.data {
        ConstraintData::Binary { left, right } => format!("{},{}", show_info(left), show_info(right)),
        ConstraintData::NAry { .. } => "nary".to_string(),
        ConstraintData::Unary { .. } => "unary".to_string(),
        ConstraintData::None => "none".to_string(),
    };
    format!("{ty}[{}]{data}", vs.join(","))
}

fn show_metas_from(m: &Model, from: usize) -> String {
    let reg = m.props.get_constraint_registry();
    reg.get_all_constraint_ids().into_iter().skip(from).filter_map(|id| reg.get_constraint(id).map(show_meta)).collect::<Vec<_>>().join(";")
}

fn show_rows(rows: &[Vec<usize>]) -> String {
    rows.iter().map(|r| format!("[{}]", r.iter().map(|x| x.to_string()).collect::<Vec<_>>().join(","))).collect::<Vec<_>>().join(";")
}

fn show_solution(sol: &sp::Solution, n: usize) -> String {
    (0..n).map(|i| match sol[vid(i)] {
        Val::ValF(f) => format!("f:{}", sf(f)),
        Val::ValI(k) => format!("i:{k}"),
    }).collect::<Vec<_>>().join(" ")
}

fn reason_name(r: &FallbackReason) -> &'static str {
    match r {
        FallbackReason::ComplexObjectiveExpression => "complex-objective",
        FallbackReason::PureIntegerProblem => "pure-integer",
        FallbackReason::MixedSeparableProblem => "mixed-separable",
        FallbackReason::MixedCoupledProblem => "mixed-coupled",
        FallbackReason::SolutionCreationError(_) => "solution-creation",
        FallbackReason::OptimizerFailure(_) => "optimizer-failure",
    }
}

/// per variable: what `ConstraintAwareOptimizer::{minimize,maximize}_with_constraints` answer
/// (the propagation run that the model takes as an input)
fn prop_bounds(m: &Model) -> Vec<String> {
    let ca = ConstraintAwareOptimizer::new();
    (0..m.vars.count()).map(|i| {
        let id = vid(i);
        match &m.vars[id] {
            Var::VarI(_) => "-".to_string(),
            Var::VarF(_) => {
                let r = guarded(|| (ca.minimize_with_constraints(&m.vars, &m.props, id), ca.maximize_with_constraints(&m.vars, &m.props, id)));
                match r {
                    Some((lo, hi)) if lo.success && hi.success => format!("{}:{}", sf(lo.optimal_value), sf(hi.optimal_value)),
                    _ => "x".to_string(),
                }
            }
        }
    }).collect()
}

// ---------------------------------------------------------------------------------------------
// the case state of the `op.*` stream
// ---------------------------------------------------------------------------------------------
pub struct OCase {
    spec: Spec,
}

impl OCase {
    fn new() -> Self {
        OCase { spec: Spec { digits: 6, vars: vec![], posts: vec![] } }
    }
}

fn digits_of_step(step: f64) -> Option<i32> {
    (1..=12).find(|d| step_of(*d).to_bits() == step.to_bits())
}

fn do_route(spec: &Spec, is_max: bool, obj: usize) -> String {
    let r = guarded(|| {
        let (m, ids) = spec.build();
        let router = OptimizationRouter::new();
        let n = m.vars.count();
        let att = if is_max { router.try_maximize(&m.vars, &m.props, &ids[obj]) } else { router.try_minimize(&m.vars, &m.props, &ids[obj]) };
        match att {
            OptimizationAttempt::Success(sol) => format!("fast {}", show_solution(&sol, n)),
            OptimizationAttempt::Fallback(r) => format!("declined {}", reason_name(&r)),
            OptimizationAttempt::Infeasible(_) => "infeasible".to_string(),
        }
    });
    r.unwrap_or_else(|| "panic".to_string())
}

/// outcome of the real `minimize` / `maximize`
struct Run {
    res: Option<Result<sp::Solution, SolverError>>, // None = panic
    lp_applied: bool,
    fast: bool,
    nvars: usize,
}

thread_local! {
    static PROFILE: RefCell<(u64, f64, f64)> = const { RefCell::new((0, 0.0, 0.0)) };
}

fn run_entry(spec: &Spec, is_max: bool, obj: usize) -> Run {
    let t0 = std::time::Instant::now();
    let r = run_entry0(spec, is_max, obj);
    let dt = t0.elapsed().as_secs_f64();
    PROFILE.with(|p| { let mut p = p.borrow_mut(); p.0 += 1; p.1 += dt; if dt > p.2 { p.2 = dt; } });
    if dt > 1.0 && std::env::var("OPT_DEBUG").is_ok() {
        eprintln!("SLOW {dt:.2}s {} fast_off={} lp_off={}", opt_line(spec, is_max, obj), hooks::fast_path_disabled(), hooks::root_lp_disabled());
    }
    r
}

fn run_entry0(spec: &Spec, is_max: bool, obj: usize) -> Run {
    hooks::take_path_flags();
    let mut nvars = 0;
    let res = guarded(|| {
        let (m, ids) = spec.build();
        nvars = m.vars.count();
        if is_max { m.maximize(ids[obj]) } else { m.minimize(ids[obj]) }
    });
    let (lp_applied, fast) = hooks::take_path_flags();
    Run { res, lp_applied, fast, nvars }
}

fn entry_line(run: &Run) -> String {
    match &run.res {
        None => "panic".to_string(),
        Some(Ok(sol)) if run.fast => format!("fast {}", show_solution(sol, run.nvars)),
        Some(Err(_)) if run.fast => "fast-err".to_string(),
        // the validator runs before the router (and again, on the same variables, before the search)
        Some(Err(SolverError::InvalidDomain { .. })) => "invalid".to_string(),
        Some(_) => "search".to_string(),
    }
}

/// what hook H9 recorded during the real `minimize` / `maximize` with the fast path switched off
/// (the engine is cut at its first limit check: the root LP step runs before it)
struct LpObs {
    rec: hooks::RootLpRecord,
    lp_applied: bool,
}

fn observe_root_lp(spec: &Spec, is_max: bool, obj: usize) -> Option<LpObs> {
    let saved = hooks::fire_at();
    hooks::set_fast_path_disabled(true);
    hooks::set_fire_at(Some((1, 0)));
    hooks::root_lp_record_start();
    hooks::take_path_flags();
    let r = guarded(|| {
        let (m, ids) = spec.build();
        let _ = if is_max { m.maximize(ids[obj]) } else { m.minimize(ids[obj]) };
    });
    let (lp_applied, _) = hooks::take_path_flags();
    let rec = hooks::root_lp_record_take().unwrap_or_default();
    hooks::set_fast_path_disabled(false);
    hooks::set_fire_at(saved);
    r.map(|_| LpObs { rec, lp_applied })
}

fn bits(v: &[f64]) -> String {
    v.iter().map(|c| sf(*c)).collect::<Vec<_>>().join(",")
}

/// the root LP step: the linear system rebuilt from the code's own pieces (rows, variable order,
/// suitability, position of the objective) and, when the step is eligible, the `LpProblem` that
/// hook H9 recorded inside `search_with_timeout_and_memory`
fn do_rootlp(spec: &Spec, _is_max: bool, obj: usize, obs: Option<&LpObs>) -> String {
    let r = guarded(|| {
        let (m, ids) = spec.build();
        let pending = m.pending_lp_constraints.clone();
        let (vars, props) = match m.verif_lower() {
            Ok(x) => x,
            // `prepare_for_search` runs the same validator as the entry points
            Err(_) => return "invalid".to_string(),
        };
        let prop_system = props.extract_linear_system();
        let mut sys = LinearConstraintSystem::new();
        for c in pending {
            sys.add_constraint(c);
        }
        for c in prop_system.constraints {
            sys.add_constraint(c);
        }
        let rows: Vec<Vec<usize>> = sys.constraints.iter().map(|c| c.variables.iter().map(|v| vix(&v)).collect()).collect();
        let sysv: Vec<usize> = sys.variables.iter().map(|v| vix(&v)).collect();
        let idx = sys.variables.iter().position(|v| *v == ids[obj]);
        let suitable = sys.is_suitable_for_lp(&vars);
        let eligible = suitable && idx.is_some();
        let mut line = format!("rows={} sys=[{}] suitable={} objidx={} eligible={}", show_rows(&rows), sysv.iter().map(|x| x.to_string()).collect::<Vec<_>>().join(","), b(suitable),
            idx.map(|i| i.to_string()).unwrap_or_else(|| "-".into()), b(eligible));
        let recorded = obs.and_then(|o| o.rec.problem.as_ref().map(|p| (p, &o.rec.system_vars)));
        match (eligible, recorded) {
            (true, Some((p, sv))) => {
                let sv: Vec<usize> = sv.iter().map(|v| vix(&v)).collect();
                if sv != sysv {
                    line.push_str(&format!(" hook-sys=[{}]", sv.iter().map(|x| x.to_string()).collect::<Vec<_>>().join(",")));
                }
                line.push_str(&format!(" n={} a={} b=[{}] lo=[{}] up=[{}] c=[{}]", p.n_vars,
                    p.a.iter().map(|r| format!("[{}]", bits(r))).collect::<Vec<_>>().join(";"), bits(&p.b), bits(&p.lower_bounds), bits(&p.upper_bounds), bits(&p.c)));
            }
            (true, None) => line.push_str(" hook-missing"),
            (false, Some(_)) => line.push_str(" hook-unexpected"),
            (false, None) => {}
        }
        line
    });
    r.unwrap_or_else(|| "panic".to_string())
}

/// `op.lpapply` tokens for what the LP solver returned, and the observed effect of the LP block
fn lpapply_of(obs: &LpObs) -> Option<(String, String)> {
    let rec = &obs.rec;
    rec.problem.as_ref()?;
    let sol_tok = match (&rec.solution, rec.solver_err) {
        (Some((code, x, _)), _) => format!("{code} {} {}", x.len(), x.iter().map(|v| sf(*v)).collect::<Vec<_>>().join(" ")),
        (None, true) => "err 0".to_string(),
        (None, false) => return None,
    };
    let res = match (&rec.vars_after, &rec.solution) {
        (Some(v), _) => format!("vars={} applied={}", show_vars(v), b(obs.lp_applied)),
        (None, Some(_)) => "nosolution".to_string(),
        (None, None) => format!("continue applied={}", b(obs.lp_applied)),
    };
    Some((sol_tok.trim_end().to_string(), res))
}

fn do_apply(spec: &Spec, sys: &[usize], x: &[f64]) -> String {
    let r = guarded(|| {
        let mut m = spec.new_model();
        let ids = spec.declare(&mut m);
        let mut vars = m.vars.clone();
        let system = LinearConstraintSystem { variables: sys.iter().map(|i| ids[*i]).collect(), constraints: vec![], objective: None };
        let sol = LpSolution { status: LpStatus::Optimal, objective: 0.0, x: x.to_vec(), iterations: 0, basic_indices: vec![], stats: Default::default() };
        let mut events = Vec::new();
        let ok = {
            let mut ctx = Context::verif_new(&mut vars, &mut events);
            apply_lp_solution(&system, &sol, &mut ctx).is_some()
        };
        if ok { format!("vars={}", show_vars(&vars)) } else { "fail".to_string() }
    });
    r.unwrap_or_else(|| "panic".to_string())
}

pub fn apply(oc: &mut OCase, out: &mut Out, line: &str) {
    let ws: Vec<&str> = line.split_whitespace().collect();
    let bad = |out: &mut Out| { out.emit(line, "bad-op"); };
    match ws.first().copied().unwrap_or("") {
        "op.new" => {
            let Some(step) = ws.get(1).and_then(|s| pf(s)) else { return bad(out) };
            let Some(d) = digits_of_step(step) else { return bad(out) };
            *oc = OCase { spec: Spec { digits: d, vars: vec![], posts: vec![] } };
            out.emit(line, "ok");
        }
        "op.var" => {
            let v = match (ws.get(1).copied(), ws.get(2), ws.get(3)) {
                (Some("f"), Some(a), Some(b)) => match (pf(a), pf(b)) { (Some(a), Some(b)) => SVar::F(a, b), _ => return bad(out) },
                (Some("i"), Some(a), Some(b)) => match (a.parse(), b.parse()) { (Ok(a), Ok(b)) => SVar::I(a, b), _ => return bad(out) },
                _ => return bad(out),
            };
            if !oc.spec.posts.is_empty() { return bad(out); }
            oc.spec.vars.push(v);
            let i = oc.spec.vars.len() - 1;
            let r = guarded(|| {
                let mut m = oc.spec.new_model();
                let ids = oc.spec.declare(&mut m);
                assert!(ids.iter().enumerate().all(|(k, id)| vix(&id) == k));
                format!("v{i} {}", show_var(&m.vars[ids[i]]))
            });
            out.emit(line, r.unwrap_or_else(|| "panic".into()));
        }
        "op.post" => {
            let Some(p) = SPost::parse(&ws[1..]) else { return bad(out) };
            if !p.well_formed(oc.spec.vars.len()) { return bad(out); }
            let r = guarded(|| {
                let (mut m, ids) = oc.spec.build();
                let n_meta = m.props.get_constraint_registry().constraint_count();
                let n_lp = m.pending_lp_constraints.len();
                apply_post(&mut m, &ids, &p);
                let rows: Vec<Vec<usize>> = m.pending_lp_constraints[n_lp..].iter().map(|c| c.variables.iter().map(|v| vix(&v)).collect()).collect();
                format!("vars={} meta={} plp={} ast={}", show_vars(&m.vars), show_metas_from(&m, n_meta), show_rows(&rows), m.pending_constraint_asts.len())
            });
            oc.spec.posts.push(p);
            out.emit(line, r.unwrap_or_else(|| "panic".into()));
        }
        k @ ("op.route" | "op.entry" | "op.rootlp" | "op.lpapply") => {
            let is_max = match ws.get(1).copied() { Some("max") => true, Some("min") => false, _ => return bad(out) };
            let Some(obj) = ws.get(2).and_then(|s| s.parse::<usize>().ok()) else { return bad(out) };
            if obj >= oc.spec.vars.len() { return bad(out); }
            let res = match k {
                "op.route" => do_route(&oc.spec, is_max, obj),
                "op.entry" => entry_line(&run_entry(&oc.spec, is_max, obj)),
                "op.rootlp" => {
                    let obs = observe_root_lp(&oc.spec, is_max, obj);
                    do_rootlp(&oc.spec, is_max, obj, obs.as_ref())
                }
                _ => {
                    // replay: the LP solution in the line must be the one the solver returns now
                    match observe_root_lp(&oc.spec, is_max, obj).as_ref().and_then(lpapply_of) {
                        Some((tok, res)) if tok == ws[3..].join(" ") => res,
                        Some((tok, _)) => format!("lp-solution-differs {tok}"),
                        None => "no-lp-run".to_string(),
                    }
                }
            };
            out.emit(line, res);
        }
        "op.apply" => {
            let Some(n) = ws.get(1).and_then(|s| s.parse::<usize>().ok()) else { return bad(out) };
            if ws.len() < 3 + n { return bad(out); }
            let sys: Option<Vec<usize>> = ws[2..2 + n].iter().map(|s| s.parse().ok()).collect();
            let Some(k) = ws.get(2 + n).and_then(|s| s.parse::<usize>().ok()) else { return bad(out) };
            if ws.len() < 3 + n + k { return bad(out); }
            let x: Option<Vec<f64>> = ws[3 + n..3 + n + k].iter().map(|s| pf(s)).collect();
            let (Some(sys), Some(x)) = (sys, x) else { return bad(out) };
            if sys.iter().any(|i| *i >= oc.spec.vars.len()) || !oc.spec.posts.is_empty() { return bad(out); }
            out.emit(line, do_apply(&oc.spec, &sys, &x));
        }
        _ => bad(out),
    }
}

thread_local! {
    /// wall-clock cap of one `minimize` / `maximize` (a limit hit is allowed by C08)
    static TIMEOUT_MS: std::cell::Cell<u64> = const { std::cell::Cell::new(200) };
    static REPLAY: RefCell<(usize, Option<OCase>)> = const { RefCell::new((usize::MAX, None)) };
}

pub fn replay_line(out: &mut Out, line: &str) {
    let case_idx = out.ops.iter().rposition(|l| l.starts_with("case ")).unwrap_or(0);
    REPLAY.with(|r| {
        let mut r = r.borrow_mut();
        if r.0 != case_idx || r.1.is_none() {
            *r = (case_idx, Some(OCase::new()));
        }
        let oc = r.1.as_mut().unwrap();
        if line.starts_with("#opt") {
            oracle_line(out, line);
        } else {
            apply(oc, out, line);
        }
    });
}

/// emit the `op.*` lines that describe `spec`
fn emit_spec(oc: &mut OCase, out: &mut Out, spec: &Spec) {
    apply(oc, out, &format!("op.new {}", sf(step_of(spec.digits))));
    for v in &spec.vars {
        match v {
            SVar::F(a, b) => apply(oc, out, &format!("op.var f {} {}", sf(*a), sf(*b))),
            SVar::I(a, b) => apply(oc, out, &format!("op.var i {a} {b}")),
        }
    }
    for p in &spec.posts {
        apply(oc, out, &format!("op.post {}", p.tok()));
    }
}

fn pb_tokens(spec: &Spec) -> String {
    guarded(|| { let (m, _) = spec.build(); prop_bounds(&m).join(" ") }).unwrap_or_else(|| "x".to_string())
}


// ---------------------------------------------------------------------------------------------
// exact arithmetic: small rationals (i128, normalised; overflow panics -> caught by `guarded`)
// (copied from lp.rs)
// ---------------------------------------------------------------------------------------------
fn gcd(a: i128, b: i128) -> i128 {
    let (mut a, mut b) = (a.abs(), b.abs());
    while b != 0 {
        let t = a % b;
        a = b;
        b = t;
    }
    a
}

#[derive(Clone, Copy, PartialEq, Eq, Debug)]
struct Q {
    n: i128,
    d: i128,
}

impl Q {
    fn new(n: i128, d: i128) -> Q {
        assert!(d != 0);
        let g = gcd(n, d);
        let (mut n, mut d) = if g == 0 { (0, 1) } else { (n / g, d / g) };
        if d < 0 {
            n = -n;
            d = -d;
        }
        Q { n, d }
    }
    fn int(i: i128) -> Q { Q { n: i, d: 1 } }
    fn zero() -> Q { Q::int(0) }
    fn add(self, o: Q) -> Q {
        let g = gcd(self.d, o.d);
        let (da, db) = (self.d / g, o.d / g);
        Q::new(self.n * db + o.n * da, self.d * db)
    }
    fn sub(self, o: Q) -> Q { self.add(o.neg()) }
    fn mul(self, o: Q) -> Q {
        let g1 = gcd(self.n, o.d).max(1);
        let g2 = gcd(o.n, self.d).max(1);
        Q::new((self.n / g1) * (o.n / g2), (self.d / g2) * (o.d / g1))
    }
    fn div(self, o: Q) -> Q {
        assert!(o.n != 0);
        self.mul(if o.n < 0 { Q { n: -o.d, d: -o.n } } else { Q { n: o.d, d: o.n } })
    }
    fn neg(self) -> Q { Q { n: -self.n, d: self.d } }
    fn is_zero(self) -> bool { self.n == 0 }
    fn cmp(self, o: Q) -> Ordering {
        let g = gcd(self.d, o.d);
        (self.n * (o.d / g)).cmp(&(o.n * (self.d / g)))
    }
    fn le(self, o: Q) -> bool { self.cmp(o) != Ordering::Greater }
    fn lt(self, o: Q) -> bool { self.cmp(o) == Ordering::Less }
    fn to_f64(self) -> f64 { self.n as f64 / self.d as f64 }
}

/// exact value of a finite f64 as (mantissa, exponent): v = m * 2^e
fn decompose(v: f64) -> Option<(i128, i32)> {
    if !v.is_finite() {
        return None;
    }
    let bits = v.to_bits();
    let sign = if bits >> 63 == 1 { -1i128 } else { 1 };
    let e = ((bits >> 52) & 0x7ff) as i32;
    let frac = (bits & ((1u64 << 52) - 1)) as i128;
    let (m, ex) = if e == 0 { (frac, -1074) } else { (frac + (1i128 << 52), e - 1075) };
    Some((sign * m, ex))
}

/// exact conversion of the bit pattern (fails for exponents outside ±60)
fn f64_to_q(v: f64) -> Option<Q> {
    let (mut m, mut e) = decompose(v)?;
    if m == 0 {
        return Some(Q::zero());
    }
    while m % 2 == 0 && e < 0 {
        m /= 2;
        e += 1;
    }
    if e >= 0 {
        if e > 60 { return None; }
        Some(Q::int(m.checked_mul(1i128 << e)?))
    } else {
        if -e > 60 { return None; }
        Some(Q::new(m, 1i128 << (-e)))
    }
}

/// a dyadic rational >= v (v >= 0), on the grid 2^-40: tolerances enter the exact LPs rounded up
fn q_ceil(v: f64) -> Q {
    Q::new((v * 1099511627776.0).ceil() as i128, 1099511627776)
}

/// solve the square system M v = rhs by Gaussian elimination with back substitution
fn solve_exact(mut mat: Vec<Vec<Q>>, mut rhs: Vec<Q>) -> Option<Vec<Q>> {
    let n = rhs.len();
    for k in 0..n {
        let p = (k..n).find(|&i| !mat[i][k].is_zero())?;
        mat.swap(k, p);
        rhs.swap(k, p);
        for i in (k + 1)..n {
            if mat[i][k].is_zero() {
                continue;
            }
            let f = mat[i][k].div(mat[k][k]);
            for j in k..n {
                let t = mat[k][j].mul(f);
                mat[i][j] = mat[i][j].sub(t);
            }
            let t = rhs[k].mul(f);
            rhs[i] = rhs[i].sub(t);
        }
    }
    let mut x = vec![Q::zero(); n];
    for i in (0..n).rev() {
        let mut s = rhs[i];
        for j in (i + 1)..n {
            s = s.sub(mat[i][j].mul(x[j]));
        }
        x[i] = s.div(mat[i][i]);
    }
    Some(x)
}

/// maximum of c.x over the bounded region { a.x <= b } by enumerating its vertices; `None` = empty
fn vertex_max(n: usize, cons: &[(Vec<Q>, Q)], c: &[Q]) -> Option<Q> {
    let k = cons.len();
    if n == 0 {
        return if cons.iter().all(|(_, b)| Q::zero().le(*b)) { Some(Q::zero()) } else { None };
    }
    if k < n {
        return None;
    }
    let mut best: Option<Q> = None;
    let mut idx: Vec<usize> = (0..n).collect();
    loop {
        let mat: Vec<Vec<Q>> = idx.iter().map(|&i| cons[i].0.clone()).collect();
        let rhs: Vec<Q> = idx.iter().map(|&i| cons[i].1).collect();
        if let Some(x) = solve_exact(mat, rhs) {
            let feas = cons.iter().all(|(a, b)| {
                let mut s = Q::zero();
                for j in 0..n {
                    s = s.add(a[j].mul(x[j]));
                }
                s.le(*b)
            });
            if feas {
                let mut o = Q::zero();
                for j in 0..n {
                    o = o.add(c[j].mul(x[j]));
                }
                best = match best {
                    Some(bo) if !bo.lt(o) => Some(bo),
                    _ => Some(o),
                };
            }
        }
        let mut i = n;
        loop {
            if i == 0 {
                return best;
            }
            i -= 1;
            if idx[i] != i + k - n {
                break;
            }
        }
        idx[i] += 1;
        for j in (i + 1)..n {
            idx[j] = idx[j - 1] + 1;
        }
    }
}

// ---------------------------------------------------------------------------------------------
// the exact meaning of a model description
// ---------------------------------------------------------------------------------------------
/// one row  Σ aᵢ·x_{vᵢ}  rel  rhs  over the declared variables (index of the post it came from)
#[derive(Clone, Debug)]
struct Row {
    a: Vec<(f64, usize)>,
    rel: Rel,
    rhs: f64,
    post: usize,
}

fn opnd_const(o: Opnd) -> f64 {
    match o { Opnd::C(c) => c, Opnd::K(k) => k as f64, Opnd::V(_) => 0.0 }
}

fn rows_of(spec: &Spec) -> Vec<Row> {
    spec.posts.iter().enumerate().map(|(i, p)| match p {
        SPost::Cmp(rel, l, r) => {
            let mut a = vec![];
            if let Opnd::V(x) = l { a.push((1.0, *x)); }
            if let Opnd::V(y) = r { a.push((-1.0, *y)); }
            Row { a, rel: *rel, rhs: opnd_const(*r) - opnd_const(*l), post: i }
        }
        SPost::PLin(e, cs, xs, c) | SPost::Lin(e, cs, xs, c) => Row { a: cs.iter().cloned().zip(xs.iter().cloned()).collect(), rel: if *e { Rel::Eq } else { Rel::Le }, rhs: *c, post: i },
        SPost::Fluent(rel, cs, xs, c) => Row { a: cs.iter().cloned().zip(xs.iter().cloned()).collect(), rel: *rel, rhs: *c, post: i },
        SPost::FluentVV(rel, x, y) => Row { a: vec![(1.0, *x), (-1.0, *y)], rel: *rel, rhs: 0.0, post: i },
        SPost::EqImm(x, c) => Row { a: vec![(1.0, *x)], rel: Rel::Eq, rhs: *c, post: i },
    }).collect()
}

fn tolx(step: f64, v: f64) -> f64 {
    (3.0 * step).max(1e-5 * v.abs()) + 1.5 * step
}

#[derive(Clone, Copy, PartialEq, Debug)]
enum Mode {
    Exact,
    /// strict rows one step inside, everything else exact
    StrictIn,
    /// every row moved outwards by its tolerance
    Relaxed,
    /// every inequality moved inwards by its tolerance (strict ones one more step); equalities exact
    Tight,
}

struct Exact {
    is_float: Vec<bool>,
    lo: Vec<Q>,
    hi: Vec<Q>,
    ilo: Vec<i32>,
    ihi: Vec<i32>,
    /// dense coefficients, relation, right-hand side, tolerance (worst case over the box)
    rows: Vec<(Vec<Q>, Rel, Q, Q)>,
    step: Q,
}

fn exact_of(spec: &Spec, rows: &[Row]) -> Option<Exact> {
    let nv = spec.vars.len();
    let step = step_of(spec.digits);
    let mut e = Exact { is_float: vec![], lo: vec![], hi: vec![], ilo: vec![], ihi: vec![], rows: vec![], step: q_ceil(step) };
    let mut absmax = vec![];
    for v in &spec.vars {
        match v {
            SVar::F(a, b) => {
                e.is_float.push(true);
                e.lo.push(f64_to_q(*a)?);
                e.hi.push(f64_to_q(*b)?);
                e.ilo.push(0);
                e.ihi.push(0);
                absmax.push(a.abs().max(b.abs()));
            }
            SVar::I(a, b) => {
                e.is_float.push(false);
                e.lo.push(Q::int(*a as i128));
                e.hi.push(Q::int(*b as i128));
                e.ilo.push(*a);
                e.ihi.push(*b);
                absmax.push((*a as f64).abs().max((*b as f64).abs()));
            }
        }
    }
    for r in rows {
        if r.rel == Rel::Ne {
            return None;
        }
        let mut dense = vec![Q::zero(); nv];
        let mut tol = 0.0;
        for (c, x) in &r.a {
            dense[*x] = dense[*x].add(f64_to_q(*c)?);
            tol += c.abs() * tolx(step, absmax[*x]);
        }
        e.rows.push((dense, r.rel, f64_to_q(r.rhs)?, q_ceil(tol)));
    }
    Some(e)
}

impl Exact {
    /// best objective value (`None` = infeasible) of the model under `mode`
    fn optimum(&self, obj: usize, is_max: bool, mode: Mode) -> Option<Q> {
        let nv = self.is_float.len();
        let fl: Vec<usize> = (0..nv).filter(|i| self.is_float[*i]).collect();
        let ints: Vec<usize> = (0..nv).filter(|i| !self.is_float[*i]).collect();
        let k = fl.len();
        let mut cur: Vec<i32> = ints.iter().map(|i| self.ilo[*i]).collect();
        if ints.iter().any(|i| self.ilo[*i] > self.ihi[*i]) {
            return None;
        }
        let mut best: Option<Q> = None;
        loop {
            // the LP over the float variables for this integer assignment
            let mut cons: Vec<(Vec<Q>, Q)> = vec![];
            for (dense, rel, rhs, tol) in &self.rows {
                let mut rhs2 = *rhs;
                for (p, i) in ints.iter().enumerate() {
                    rhs2 = rhs2.sub(dense[*i].mul(Q::int(cur[p] as i128)));
                }
                let a: Vec<Q> = fl.iter().map(|i| dense[*i]).collect();
                let na: Vec<Q> = a.iter().map(|c| c.neg()).collect();
                let strict = matches!(rel, Rel::Lt | Rel::Gt);
                let shift = match (mode, rel) {
                    (Mode::Exact, _) => Q::zero(),
                    (Mode::StrictIn, _) => if strict { self.step.neg() } else { Q::zero() },
                    (Mode::Relaxed, _) => *tol,
                    (Mode::Tight, Rel::Eq) => Q::zero(),
                    (Mode::Tight, _) => if strict { tol.add(self.step).neg() } else { tol.neg() },
                };
                match rel {
                    Rel::Le | Rel::Lt => cons.push((a, rhs2.add(shift))),
                    Rel::Ge | Rel::Gt => cons.push((na, rhs2.neg().add(shift))),
                    Rel::Eq => {
                        cons.push((a, rhs2.add(shift)));
                        cons.push((na, rhs2.neg().add(shift)));
                    }
                    Rel::Ne => {}
                }
            }
            for (p, i) in fl.iter().enumerate() {
                let mut u = vec![Q::zero(); k];
                u[p] = Q::int(1);
                cons.push((u.clone(), self.hi[*i]));
                u[p] = Q::int(-1);
                cons.push((u, self.lo[*i].neg()));
            }
            let sign = if is_max { 1 } else { -1 };
            let mut c = vec![Q::zero(); k];
            let mut base = Q::zero();
            if let Some(p) = fl.iter().position(|i| *i == obj) {
                c[p] = Q::int(sign);
            } else if let Some(p) = ints.iter().position(|i| *i == obj) {
                base = Q::int(sign * cur[p] as i128);
            }
            if let Some(v) = vertex_max(k, &cons, &c) {
                let v = v.add(base);
                best = match best {
                    Some(bv) if !bv.lt(v) => Some(bv),
                    _ => Some(v),
                };
            }
            // next integer assignment
            let mut p = 0;
            loop {
                if p == ints.len() {
                    return best.map(|v| if is_max { v } else { v.neg() });
                }
                if cur[p] < self.ihi[ints[p]] {
                    cur[p] += 1;
                    break;
                }
                cur[p] = self.ilo[ints[p]];
                p += 1;
            }
        }
    }
}

// ---------------------------------------------------------------------------------------------
// judging one run
// ---------------------------------------------------------------------------------------------
#[derive(Clone, Debug)]
struct Fail {
    kind: &'static str,
    /// the violated post, if the failure is a violated row
    post: Option<usize>,
    detail: String,
}

fn exf(x: f64) -> Ex {
    Ex::from_f64(x)
}

fn judge(out: &mut Out, quiet: bool, spec: &Spec, rows: &[Row], ex: Option<&Exact>, is_max: bool, obj: usize, run: &Run) -> Vec<Fail> {
    let mut stat = |k: &str| { if !quiet { out.stat(k); } };
    let step = step_of(spec.digits);
    let mut fails = vec![];
    match &run.res {
        None => fails.push(Fail { kind: "panic", post: None, detail: "minimize/maximize panicked".into() }),
        Some(Err(SolverError::Timeout { .. })) => {
            stat("run.Timeout");
            if std::env::var("OPT_DEBUG").is_ok() {
                eprintln!("TIMEOUT {} fast_off={} lp_off={}", opt_line(spec, is_max, obj), hooks::fast_path_disabled(), hooks::root_lp_disabled());
            }
        }
        Some(Err(SolverError::MemoryLimit { .. })) => stat("run.MemoryLimit"),
        Some(Err(e)) => {
            // NoSolution or any other error that is not a limit: only if the model is infeasible
            let nosol = matches!(e, SolverError::NoSolution { .. });
            stat(if nosol { "run.NoSolution" } else { "run.Err-other" });
            if let Some(ex) = ex {
                match guarded(|| (ex.optimum(obj, is_max, Mode::StrictIn), ex.optimum(obj, is_max, Mode::Exact))) {
                    None => stat("oracle.overflow"),
                    Some((Some(v), _)) => fails.push(Fail { kind: if nosol { "nosolution" } else { "error" }, post: None, detail: format!("Err({e}) although the exact model is feasible (optimum {:e})", v.to_f64()) }),
                    Some((None, Some(_))) => stat("oracle.feasible-only-on-strict-boundary"),
                    Some((None, None)) => stat("oracle.infeasible-agreed"),
                }
            } else if !nosol {
                fails.push(Fail { kind: "error", post: None, detail: format!("Err({e}) which is neither NoSolution nor a limit") });
            }
        }
        Some(Ok(sol)) => {
            stat("run.Ok");
            // the returned point
            let ids: Vec<VarId> = (0..spec.vars.len()).map(vid).collect();
            let mut v = vec![];
            for (i, d) in spec.vars.iter().enumerate() {
                match (d, sol[ids[i]]) {
                    (SVar::F(lo, hi), Val::ValF(f)) => {
                        if !(f >= *lo && f <= *hi) {
                            fails.push(Fail { kind: "bounds", post: None, detail: format!("float variable {i} = {f:e} outside its declared bounds [{lo:e},{hi:e}]") });
                        }
                        v.push(f);
                    }
                    (SVar::I(lo, hi), Val::ValI(k)) => {
                        if k < *lo || k > *hi {
                            fails.push(Fail { kind: "bounds", post: None, detail: format!("integer variable {i} = {k} outside {lo}..{hi}") });
                        }
                        v.push(k as f64);
                    }
                    (SVar::F(lo, hi), Val::ValI(k)) => {
                        stat("run.float-var-reported-as-int");
                        if (k as f64) < *lo || (k as f64) > *hi {
                            fails.push(Fail { kind: "bounds", post: None, detail: format!("float variable {i} = {k} outside its declared bounds [{lo:e},{hi:e}]") });
                        }
                        v.push(k as f64);
                    }
                    (SVar::I(..), Val::ValF(f)) => {
                        fails.push(Fail { kind: "integrality", post: None, detail: format!("integer variable {i} reported with the float value {f:e}") });
                        v.push(f);
                    }
                }
            }
            // (a) rows within tolerance
            for r in rows {
                let mut lhs = Ex::zero();
                let mut tol = Ex::zero();
                for (c, x) in &r.a {
                    lhs = lhs.add(&exf(*c).mul(&exf(v[*x])));
                    tol = tol.add(&exf(*c).abs().mul(&exf(tolx(step, v[*x]))));
                }
                let d = lhs.sub(&exf(r.rhs));
                let bad = match r.rel {
                    Rel::Le | Rel::Lt => d.gt(&tol),
                    Rel::Ge | Rel::Gt => d.neg().gt(&tol),
                    Rel::Eq => d.abs().gt(&tol),
                    Rel::Ne => d.is_zero(),
                };
                if bad {
                    fails.push(Fail { kind: "row", post: Some(r.post), detail: format!("post {} ({}) violated by the returned point {v:?}: lhs-rhs = {:e}, tolerance {:e}", r.post, spec.posts[r.post].tok(), d.approx(), tol.approx()) });
                }
            }
            // (b) optimality
            if let Some(ex) = ex {
                let ov = v[obj];
                let t = tolx(step, ov) + if rows.iter().any(|r| matches!(r.rel, Rel::Lt | Rel::Gt)) { step } else { 0.0 };
                match guarded(|| ex.optimum(obj, is_max, Mode::Exact)) {
                    None => stat("oracle.overflow"),
                    Some(None) => stat("oracle.ok-on-infeasible-model"),
                    Some(Some(opt)) => {
                        let o = opt.to_f64();
                        if (ov - o).abs() <= t {
                            stat("opt.within-literal-tolerance");
                        } else {
                            let band = guarded(|| (ex.optimum(obj, is_max, Mode::Relaxed), ex.optimum(obj, is_max, Mode::Tight)));
                            match band {
                                None => stat("oracle.overflow"),
                                Some((rel, tight)) => {
                                    let (worse_side, better_side) = (tight.map(|q| q.to_f64()), rel.map(|q| q.to_f64()).unwrap_or(o));
                                    // maximisation: tight - t <= ov <= relaxed + t
                                    let too_good = if is_max { ov > better_side + t } else { ov < better_side - t };
                                    let too_bad = match worse_side {
                                        Some(w) => if is_max { ov < w - t } else { ov > w + t },
                                        None => false,
                                    };
                                    if worse_side.is_none() {
                                        stat("opt.tightened-model-infeasible");
                                    }
                                    if too_bad || too_good {
                                        fails.push(Fail { kind: "optimum", post: None, detail: format!("objective {ov:e}, exact optimum {o:e} (band [{:e}, {:e}], t = {t:e}) at point {v:?}", worse_side.unwrap_or(f64::NAN), better_side) });
                                    } else {
                                        stat("opt.within-band-only");
                                    }
                                }
                            }
                        }
                    }
                }
            }
        }
    }
    fails
}

// ---------------------------------------------------------------------------------------------
// `#opt` lines
// ---------------------------------------------------------------------------------------------
fn opt_line(spec: &Spec, is_max: bool, obj: usize) -> String {
    let vs: Vec<String> = spec.vars.iter().map(|v| match v {
        SVar::F(a, b) => format!("f {} {}", sf(*a), sf(*b)),
        SVar::I(a, b) => format!("i {a} {b}"),
    }).collect();
    let ps: Vec<String> = spec.posts.iter().map(|p| p.tok()).collect();
    format!("#opt p={} {} {obj} ; {} | {}", spec.digits, if is_max { "max" } else { "min" }, vs.join(" ; "), ps.join(" ; "))
}

fn parse_opt_line(line: &str) -> Option<(Spec, bool, usize)> {
    let rest = line.strip_prefix("#opt ")?;
    let (head, posts) = rest.split_once(" |")?;
    let mut parts = head.split(" ; ");
    let h: Vec<&str> = parts.next()?.split_whitespace().collect();
    let digits = h.first()?.strip_prefix("p=")?.parse().ok()?;
    let is_max = match *h.get(1)? { "max" => true, "min" => false, _ => return None };
    let obj: usize = h.get(2)?.parse().ok()?;
    let mut vars = vec![];
    for p in parts {
        let w: Vec<&str> = p.split_whitespace().collect();
        match *w.first()? {
            "f" => vars.push(SVar::F(pf(w.get(1)?)?, pf(w.get(2)?)?)),
            "i" => vars.push(SVar::I(w.get(1)?.parse().ok()?, w.get(2)?.parse().ok()?)),
            _ => return None,
        }
    }
    let mut ps = vec![];
    for p in posts.split(" ; ") {
        let w: Vec<&str> = p.split_whitespace().collect();
        if w.is_empty() { continue; }
        let post = SPost::parse(&w)?;
        if !post.well_formed(vars.len()) { return None; }
        ps.push(post);
    }
    if obj >= vars.len() { return None; }
    Some((Spec { digits, vars, posts: ps }, is_max, obj))
}

/// which part of the fast path produced a wrong answer (the classes of
/// `C08_fast_path_counterexample_*` in Props/C08.lean)
/// `m.new(x.eq(float(c)))` with `c` outside the declared bounds of the float variable `x`: the
/// immediate materialisation overwrites the interval with `[c, c]` instead of failing
fn eq_overwrites_domain(_spec: &Spec) -> bool {
    // repaired by c10c516 (`fix: x.eq(c) on a float variable narrows the domain only to a value
    // inside it`): the matcher is switched off, a recurrence is an unlisted failure
    false
}

/// does the router answer from the propagation run (`ConstraintAwareOptimizer::*_with_constraints`)
/// instead of the constraint metadata?  Mirrors `usesProp` of Model/Opt.lean: the metadata stage
/// declines when no bound in the direction of optimisation is registered and the domain is one of
/// the symmetric "unbounded" fallback domains, or when the candidate lies outside the interval.
/// In that route every props-level row takes part in the propagation.
fn uses_prop(spec: &Spec, is_max: bool, obj: usize) -> bool {
    let (mut lo, mut hi) = match spec.vars[obj] { SVar::F(a, b) => (a, b), SVar::I(..) => return false };
    for q in &spec.posts {
        if let SPost::EqImm(x, c) = q {
            if *x == obj && *c >= lo && *c <= hi { lo = *c; hi = *c; }
        }
    }
    if !spec.posts.iter().any(|p| matches!(p, SPost::Cmp(..) | SPost::PLin(..))) {
        return false;
    }
    let cval = |o: &Opnd| match o { Opnd::C(c) => Some(*c), Opnd::K(k) => Some(*k as f64), Opnd::V(_) => None };
    let mut cand: Option<f64> = None;
    for q in &spec.posts {
        if let SPost::Cmp(rel, l, r) = q {
            let b = match (l, r) {
                (Opnd::V(x), o) if *x == obj => cval(o).map(|c| (true, c)),
                (o, Opnd::V(x)) if *x == obj => cval(o).map(|c| (false, c)),
                _ => None,
            };
            if let Some((v_left, c)) = b {
                let upper = matches!((rel, v_left), (Rel::Le | Rel::Lt, true) | (Rel::Ge | Rel::Gt, false) | (Rel::Eq, true));
                let lower = matches!((rel, v_left), (Rel::Ge | Rel::Gt, true) | (Rel::Le | Rel::Lt, false) | (Rel::Eq, true));
                if is_max && upper { cand = Some(cand.map_or(c, |d: f64| d.min(c))); }
                if !is_max && lower { cand = Some(cand.map_or(c, |d: f64| d.max(c))); }
            }
        }
    }
    // (a propagation run that fails — an infeasible model — is ignored by the router, which then
    // answers from the declared domain: the recorded classes again)
    if !pb_tokens(spec).split(' ').nth(obj).map_or(false, |t| t.contains(':')) {
        return false;
    }
    let fallback = (lo + hi).abs() < 1e-4 && [50.0, 100.0, 1000.0, 10000.0].iter().any(|b| (hi.abs() - b).abs() < 1e-9);
    match cand.or(if fallback { None } else { Some(if is_max { hi } else { lo }) }) {
        None => true,
        // (strict bounds are moved by one ulp: irrelevant next to the step tolerance used here)
        Some(v) => v < lo - 1e-9 || v > hi + 1e-9,
    }
}

fn fast_class(spec: &Spec, is_max: bool, obj: usize, fails: &[Fail]) -> &'static str {
    if eq_overwrites_domain(spec) && fails.iter().any(|f| f.kind == "bounds") {
        return "float-eq-const-overwrites-domain";
    }
    if is_max && do_route(spec, true, obj).starts_with("declined") {
        return "fast-path-max-falls-into-min";
    }
    let extractable = |p: &SPost| match p {
        SPost::Cmp(Rel::Le | Rel::Ge, Opnd::V(_), Opnd::C(_) | Opnd::K(_)) | SPost::Cmp(Rel::Le | Rel::Ge, Opnd::C(_) | Opnd::K(_), Opnd::V(_)) => true,
        SPost::Cmp(Rel::Lt | Rel::Gt | Rel::Eq, Opnd::V(_), Opnd::C(_) | Opnd::K(_)) | SPost::Cmp(Rel::Gt, Opnd::C(_) | Opnd::K(_), Opnd::V(_)) => true,
        _ => false,
    };
    let class_of = |i: usize| -> &'static str {
        let p = &spec.posts[i];
        if p.vars().iter().any(|x| *x != obj) {
            "fast-path-ignores-nonobjective-rows"
        } else {
            match p {
                // (the fast path declines while deferred constraints are waiting: repaired, unlisted)
                SPost::Lin(..) | SPost::Fluent(..) | SPost::FluentVV(..) => "-",
                // (in the propagation route the props-level rows are honoured: not this class)
                SPost::PLin(..) => if uses_prop(spec, is_max, obj) { "-" } else { "fast-path-ignores-props-linear-rows" },
                // only a bound AGAINST the direction of optimisation is ignored by the router (maximize
                // uses the upper bounds and ignores the lower ones, minimize the reverse); a violated
                // bound in the direction of optimisation is not this recorded class
                SPost::Cmp(..) if extractable(p) => {
                    let lower = matches!(p, SPost::Cmp(Rel::Ge | Rel::Gt, Opnd::V(_), _) | SPost::Cmp(Rel::Le | Rel::Lt, Opnd::C(_) | Opnd::K(_), Opnd::V(_)));
                    let upper = matches!(p, SPost::Cmp(Rel::Le | Rel::Lt, Opnd::V(_), _) | SPost::Cmp(Rel::Ge | Rel::Gt, Opnd::C(_) | Opnd::K(_), Opnd::V(_)));
                    // … or when the bound rows on the objective variable are inconsistent with its domain
                    // or with each other (the router then falls back to the domain bound)
                    let cval = |o: &Opnd| match o { Opnd::C(c) => Some(*c), Opnd::K(k) => Some(*k as f64), Opnd::V(_) => None };
                    let (mut lo, mut hi) = match spec.vars[obj] { SVar::F(a, b) => (a, b), SVar::I(a, b) => (a as f64, b as f64) };
                    for q in &spec.posts {
                        if let SPost::Cmp(rel, l, r) = q {
                            let (v_left, c) = match (l, r) { (Opnd::V(x), o) if *x == obj => (true, cval(o)), (o, Opnd::V(x)) if *x == obj => (false, cval(o)), _ => (true, None) };
                            if let Some(c) = c {
                                match (rel, v_left) {
                                    (Rel::Ge | Rel::Gt, true) | (Rel::Le | Rel::Lt, false) => lo = lo.max(c),
                                    (Rel::Le | Rel::Lt, true) | (Rel::Ge | Rel::Gt, false) => hi = hi.min(c),
                                    (Rel::Eq, _) => { lo = lo.max(c); hi = hi.min(c); }
                                    _ => {}
                                }
                            }
                        }
                    }
                    // (`x.eq(c)` on a float variable narrows its interval when it is posted)
                    for q in &spec.posts {
                        if let SPost::EqImm(x, c) = q {
                            if *x == obj { lo = lo.max(*c); hi = hi.min(*c); }
                        }
                    }
                    let inconsistent = lo > hi;
                    // (`fast-path-ignores-opposite-bounds` is repaired: the metadata stage checks the
                    // candidate against the bounds of both sides and a failed propagation run makes both
                    // routers decline; the matcher is gone, a recurrence is an unlisted failure)
                    let _ = (lower, upper, inconsistent);
                    "-"
                }
                SPost::Cmp(..) => "fast-path-unextracted-bound-shape",
                // the posted `equals(x, const)` is a shape the router's bound extraction ignores
                SPost::EqImm(..) => "fast-path-unextracted-bound-shape",
            }
        }
    };
    if let Some(i) = fails.iter().find_map(|f| f.post) {
        return class_of(i);
    }
    // no violated row (not optimal / NoSolution / bounds): the same classes, by the first post
    // outside the guard of `C08_fast_path_sound_partial`
    for i in 0..spec.posts.len() {
        let c = class_of(i);
        if c != "fast-path-ignores-opposite-bounds" && c != "-" {
            return c;
        }
    }
    "-"
}

/// defects of the SEARCH path that are recorded findings of other properties: each rewrites the
/// rows into what the code effectively enforces; a failure is attributed to a class when the
/// run is correct for the rewritten model
const SEARCH_CLASSES: [&str; 3] = ["float-varvar-cmp-ignored", "int-var-in-float-linear", "strict-cmp-int-operand-plus-one"];

/// what the search path effectively enforces for row `r`, if it falls into one of the recorded
/// classes: `(class, None)` = the row is not enforced, `(class, Some(row'))` = it is enforced as `row'`
fn rewrite_row(spec: &Spec, r: &Row) -> Option<(usize, Option<Row>)> {
    let int_typed = |o: &Opnd| match o { Opnd::V(x) => !spec.is_float(*x), Opnd::K(_) => true, Opnd::C(_) => false };
    let p = &spec.posts[r.post];
    match p {
        // the integer linear row of a fluent `x < y` is `x - y <= -1`
        SPost::FluentVV(Rel::Lt, ..) => Some((2, Some(Row { a: r.a.clone(), rel: Rel::Le, rhs: -1.0, post: r.post }))),
        SPost::FluentVV(Rel::Gt, ..) => Some((2, Some(Row { a: r.a.clone(), rel: Rel::Ge, rhs: 1.0, post: r.post }))),
        // integer variables of a float linear INEQUALITY row are never pruned
        SPost::Lin(false, ..) | SPost::PLin(false, ..) | SPost::Fluent(Rel::Le | Rel::Lt | Rel::Ge | Rel::Gt, ..) if p.vars().iter().all(|x| !spec.is_float(*x)) => Some((1, None)),
        // `less_than(l, r)` is `l.next() <= r`, `greater_than(l, r)` is `r.next() <= l`; on an
        // integer operand `next` adds 1
        SPost::Cmp(Rel::Lt, l, _) if int_typed(l) => Some((2, Some(Row { a: r.a.clone(), rel: Rel::Le, rhs: r.rhs - 1.0, post: r.post }))),
        SPost::Cmp(Rel::Gt, _, rr) if int_typed(rr) => Some((2, Some(Row { a: r.a.clone(), rel: Rel::Ge, rhs: r.rhs + 1.0, post: r.post }))),
        _ => None,
    }
}

/// a fluent comparison of two variables of which one is a float: lowered to an integer linear row,
/// which skips float variables
fn varvar_float(spec: &Spec, r: &Row) -> bool {
    matches!(&spec.posts[r.post], SPost::FluentVV(_, x, y) if spec.is_float(*x) || spec.is_float(*y))
}

/// the smallest set of rows, each rewritten as its recorded class says, under which `run` is
/// judged correct; the tag names the classes used
fn explain(out: &mut Out, spec: &Spec, rows: &[Row], is_max: bool, obj: usize, run: &Run, allow_empty: bool) -> Option<String> {
    // candidates: (row index, class, replacement)
    let mut cands: Vec<(usize, usize, Option<Row>)> = vec![];
    for (i, r) in rows.iter().enumerate() {
        if varvar_float(spec, r) {
            cands.push((i, 0, None));
        }
        if let Some((c, rep)) = rewrite_row(spec, r) {
            cands.push((i, c, rep));
        }
    }
    let k = cands.len().min(8);
    let mut masks: Vec<u32> = (0..(1u32 << k)).collect();
    masks.sort_by_key(|m| m.count_ones());
    for mask in masks {
        if mask == 0 && !allow_empty {
            continue;
        }
        let chosen: Vec<&(usize, usize, Option<Row>)> = (0..k).filter(|j| mask & (1 << j) != 0).map(|j| &cands[j]).collect();
        // one rewrite per row
        let mut idx: Vec<usize> = chosen.iter().map(|c| c.0).collect();
        idx.sort();
        if idx.windows(2).any(|w| w[0] == w[1]) {
            continue;
        }
        let rows2: Vec<Row> = rows.iter().enumerate().filter_map(|(i, r)| match chosen.iter().find(|c| c.0 == i) {
            None => Some(r.clone()),
            Some(c) => c.2.clone(),
        }).collect();
        let ex2 = exact_of(spec, &rows2);
        if judge(out, true, spec, &rows2, ex2.as_ref(), is_max, obj, run).is_empty() {
            let mut names: Vec<&str> = chosen.iter().map(|c| SEARCH_CLASSES[c.1]).collect();
            names.sort();
            names.dedup();
            return Some(names.join("+"));
        }
    }
    None
}

/// the run is feasible and misses the exact optimum by no more than what an equality row that ties
/// the objective to other float variables amplifies THEIR tolerance of (a) to:
/// Σ_{j ≠ obj} |a_j| · (max(3·step, 1e-5·|x_j|) + 1.5·step) / |a_obj|  (on top of the tolerance of (b)).  `FloatLinEq` holds
/// (nearly) exactly on the step grid, so the optimum between two grid solutions is not reached.
fn eq_grid_gap(out: &mut Out, spec: &Spec, rows: &[Row], ex: Option<&Exact>, is_max: bool, obj: usize, run: &Run) -> bool {
    let fails = judge(out, true, spec, rows, ex, is_max, obj, run);
    if fails.is_empty() || fails.iter().any(|f| f.kind != "optimum") {
        return false;
    }
    let (Some(ex), Some(Ok(sol))) = (ex, &run.res) else { return false };
    let step = step_of(spec.digits);
    let mut amp = 0.0;
    for r in rows.iter().filter(|r| r.rel == Rel::Eq) {
        let a_obj: f64 = r.a.iter().filter(|(_, x)| *x == obj).map(|(c, _)| *c).sum();
        // every other float variable of the row is only known up to the tolerance of (a)
        let others: f64 = r.a.iter().filter(|(_, x)| *x != obj && spec.is_float(*x)).map(|(c, x)| {
            let vx = match sol[vid(*x)] { Val::ValF(f) => f, Val::ValI(k) => k as f64 };
            c.abs() * tolx(step, vx)
        }).sum();
        if a_obj != 0.0 && others > 0.0 {
            amp += others / a_obj.abs();
        }
    }
    if amp == 0.0 {
        return false;
    }
    let ov = match sol[vid(obj)] { Val::ValF(f) => f, Val::ValI(k) => k as f64 };
    match guarded(|| ex.optimum(obj, is_max, Mode::Exact)) {
        Some(Some(opt)) => {
            let o = opt.to_f64();
            let worse_by = if is_max { o - ov } else { ov - o };
            worse_by >= 0.0 && worse_by <= tolx(step, ov) + amp
        }
        _ => false,
    }
}

/// recorded finding of C07: a `FloatLinEq` row that contains an integer AND a float variable has
/// no tolerance in its integer arm and loses solutions.  Matcher: such a row is present and the
/// run is sound but incomplete (NoSolution on a feasible model, or a feasible point that is worse
/// than the optimum).
fn mixed_eq_incomplete(out: &mut Out, spec: &Spec, rows: &[Row], ex: Option<&Exact>, is_max: bool, obj: usize, run: &Run) -> bool {
    let mixed = rows.iter().any(|r| r.rel == Rel::Eq && matches!(spec.posts[r.post], SPost::Lin(..) | SPost::PLin(..) | SPost::Fluent(..))
        && r.a.iter().any(|(c, x)| *c != 0.0 && spec.is_float(*x)) && r.a.iter().any(|(c, x)| *c != 0.0 && !spec.is_float(*x)));
    if !mixed {
        return false;
    }
    let fails = judge(out, true, spec, rows, ex, is_max, obj, run);
    if fails.is_empty() {
        return false;
    }
    match &run.res {
        Some(Err(SolverError::NoSolution { .. })) => fails.iter().all(|f| f.kind == "nosolution"),
        Some(Ok(sol)) => {
            if fails.iter().any(|f| f.kind != "optimum") {
                return false;
            }
            let Some(ex) = ex else { return false };
            let ov = match sol[vid(obj)] { Val::ValF(f) => f, Val::ValI(k) => k as f64 };
            match guarded(|| ex.optimum(obj, is_max, Mode::Exact)) {
                Some(Some(opt)) => if is_max { ov <= opt.to_f64() } else { ov >= opt.to_f64() },
                _ => false,
            }
        }
        _ => false,
    }
}

/// judge one run and attribute its failures; returns the number of failures
fn oracle_run(out: &mut Out, l: usize, spec: &Spec, is_max: bool, obj: usize, run: &Run) -> usize {
    let rows = rows_of(spec);
    let ex = exact_of(spec, &rows);
    if ex.is_none() {
        out.stat("oracle.no-exact-form");
    }
    out.stat(if run.fast { "path.fast" } else if run.lp_applied { "path.search+root-lp" } else { "path.search" });
    let fails = judge(out, false, spec, &rows, ex.as_ref(), is_max, obj, run);
    if fails.is_empty() {
        return 0;
    }
    let rerun = |fast_off: bool, lp_off: bool| -> Run {
        hooks::set_fast_path_disabled(fast_off);
        hooks::set_root_lp_disabled(lp_off);
        let r = run_entry(spec, is_max, obj);
        hooks::set_fast_path_disabled(false);
        hooks::set_root_lp_disabled(false);
        r
    };
    // a failing run of the search path explained WITHOUT the root LP step: one of the recorded
    // search-path classes (`Some(tag)`); `Some("")` = the run is correct
    let non_lp = |out: &mut Out, r: &Run| -> Option<String> {
        if judge(out, true, spec, &rows, ex.as_ref(), is_max, obj, r).is_empty() {
            return Some(String::new());
        }
        if eq_overwrites_domain(spec) && matches!(r.res, Some(Ok(_))) {
            return Some("float-eq-const-overwrites-domain".to_string());
        }
        if let Some(t) = explain(out, spec, &rows, is_max, obj, r, false) {
            return Some(t);
        }
        if eq_grid_gap(out, spec, &rows, ex.as_ref(), is_max, obj, r) {
            return Some("float-eq-off-grid-optimum".to_string());
        }
        if mixed_eq_incomplete(out, spec, &rows, ex.as_ref(), is_max, obj, r) {
            return Some("float-eq-int-var-rounding".to_string());
        }
        None
    };
    // attribution of a failing run of the search path (`fast_off`: how it was obtained)
    let search_tag = |out: &mut Out, r: &Run, fast_off: bool| -> String {
        if let Some(t) = non_lp(out, r) {
            return t;
        }
        // does the failure disappear (or reduce to a recorded search-path class) without the root LP?
        let r_nolp = rerun(fast_off, true);
        if non_lp(out, &r_nolp).is_some() {
            return if matches!(r.res, Some(Err(_))) && !r.lp_applied { "root-lp-infeasible".to_string() } else { "root-lp".to_string() };
        }
        "-".to_string()
    };
    if run.fast {
        let tag = fast_class(spec, is_max, obj, &fails);
        for f in &fails {
            out.fail(l, "C08", tag, format!("[fast path] {}: {}", f.kind, f.detail));
        }
        // what the search path answers on the same model
        let r2 = rerun(true, false);
        let f2 = judge(out, true, spec, &rows, ex.as_ref(), is_max, obj, &r2);
        if f2.is_empty() {
            out.stat("attr.fast-path-only");
        } else {
            out.stat("attr.search-fails-too");
            let tag = search_tag(out, &r2, true);
            for f in &f2 {
                out.fail(l, "C08", &tag, format!("[fast path disabled] {}: {}", f.kind, f.detail));
            }
        }
    } else {
        let tag = search_tag(out, run, false);
        for f in &fails {
            out.fail(l, "C08", &tag, format!("[search path] {}: {}", f.kind, f.detail));
        }
    }
    fails.len()
}

// ---------------------------------------------------------------------------------------------
// generators
// ---------------------------------------------------------------------------------------------
const COEFFS: [f64; 12] = [1.0, 1.0, -1.0, 2.0, -2.0, 0.5, -0.5, 0.25, 3.0, 1.5, -1.5, 4.0];

fn flip(rel: Rel) -> Rel {
    match rel { Rel::Le => Rel::Ge, Rel::Lt => Rel::Gt, Rel::Ge => Rel::Le, Rel::Gt => Rel::Lt, r => r }
}

/// a model around a witness point (most rows hold at the witness; `wild` ones are arbitrary)
fn gen_spec(r: &mut Rng, out: &mut Out, for_oracle: bool) -> Spec {
    // the search path walks float objectives step by step: fine precisions only hit the time limit
    let digits = if for_oracle { *r.pick(&[2, 2, 2, 2, 3, 3, 4, 6]) } else { *r.pick(&[2, 3, 4, 6, 6, 6]) };
    let nv = match r.below(10) { 0..=2 => 1, 3..=6 => 2, 7..=8 => 3, _ => 4 } as usize;
    // (with three or more float variables the search path needs domains of a few hundred steps)
    let small = for_oracle && nv >= 3;
    let digits = if small { 2 } else { digits };
    let mut vars = vec![];
    let mut w: Vec<f64> = vec![];
    for _ in 0..nv {
        if r.chance(1, 4) {
            let lo = r.range(-4, 3) as i32;
            let hi = lo + r.range(0, 4) as i32;
            vars.push(SVar::I(lo, hi));
            w.push(r.range(lo as i64, hi as i64) as f64);
        } else if !small && r.chance(1, 8) {
            let b = *r.pick(&[50.0, 100.0, 1000.0, 10000.0]);
            vars.push(SVar::F(-b, b));
            w.push(r.range(-40, 40) as f64 * 0.25);
            out.stat("gen.fallback-domain");
        } else {
            let scale = if small { 1.0 } else { *r.pick(&[1.0, 1.0, 1.0, 10.0]) };
            let lo = r.range(-40, 20) as f64 * 0.25 * scale;
            let n = if r.chance(1, 10) { 0 } else if small { r.range(1, 8) } else { r.range(1, 60) };
            let hi = lo + n as f64 * 0.25 * scale;
            vars.push(SVar::F(lo, hi));
            w.push(lo + r.range(0, n) as f64 * 0.25 * scale);
        }
    }
    if for_oracle && !vars.iter().any(|v| matches!(v, SVar::F(..))) {
        // C08 is about float / mixed models
        let lo = r.range(-20, 10) as f64 * 0.25;
        let n = r.range(1, 40);
        vars[0] = SVar::F(lo, lo + n as f64 * 0.25);
        w[0] = lo + r.range(0, n) as f64 * 0.25;
    }
    let is_f = |x: usize| matches!(vars[x], SVar::F(..));
    let np = match r.below(10) { 0 => 0, 1..=4 => 1, 5..=7 => 2, 8 => 3, _ => 4 };
    let mut posts = vec![];
    for _ in 0..np {
        let x = r.below(nv as u64) as usize;
        let wild = r.chance(1, 6);
        match r.below(10) {
            // a bound on one variable
            0..=4 => {
                let rel = *r.pick(&[Rel::Le, Rel::Le, Rel::Ge, Rel::Ge, Rel::Lt, Rel::Gt, Rel::Eq]);
                let d = r.range(0, 12) as f64 * 0.25 + if matches!(rel, Rel::Lt | Rel::Gt) { 0.25 } else { 0.0 };
                let c = if wild { r.range(-60, 60) as f64 * 0.25 } else {
                    match rel { Rel::Le | Rel::Lt => w[x] + d, Rel::Ge | Rel::Gt => w[x] - d, _ => w[x] }
                };
                let p = match (rel, r.below(8)) {
                    (Rel::Eq, 0..=2) if is_f(x) => SPost::EqImm(x, c),
                    (Rel::Eq, 3..=4) => SPost::Lin(true, vec![1.0], vec![x], c),
                    (Rel::Eq, 5) => SPost::PLin(true, vec![1.0], vec![x], c),
                    (_, 0..=1) => SPost::Cmp(rel, Opnd::V(x), Opnd::C(c)),
                    (_, 2) => SPost::Cmp(flip(rel), Opnd::C(c), Opnd::V(x)),
                    (Rel::Le, 3) => SPost::Lin(false, vec![1.0], vec![x], c),
                    (Rel::Ge, 3) => SPost::Lin(false, vec![-1.0], vec![x], -c),
                    (Rel::Le, 4) => SPost::PLin(false, vec![2.0], vec![x], 2.0 * c),
                    (Rel::Ge, 4) => SPost::PLin(false, vec![-1.0], vec![x], -c),
                    (Rel::Eq, _) => SPost::Cmp(Rel::Eq, Opnd::V(x), Opnd::C(c)),
                    _ => if is_f(x) { SPost::Fluent(rel, vec![1.0], vec![x], c) } else { SPost::Cmp(rel, Opnd::V(x), Opnd::C(c)) },
                };
                posts.push(p);
            }
            // a linear row
            5..=7 => {
                let n = r.range(1, nv as i64) as usize;
                let mut xs: Vec<usize> = (0..nv).collect();
                for i in 0..nv {
                    let j = r.range(i as i64, nv as i64 - 1) as usize;
                    xs.swap(i, j);
                }
                xs.truncate(n);
                let cs: Vec<f64> = xs.iter().map(|_| *r.pick(&COEFFS)).collect();
                let sum: f64 = cs.iter().zip(&xs).map(|(c, x)| c * w[*x]).sum();
                let rel = *r.pick(&[Rel::Le, Rel::Le, Rel::Le, Rel::Ge, Rel::Eq, Rel::Lt, Rel::Gt]);
                let slack = r.range(0, 8) as f64 * 0.25 + if matches!(rel, Rel::Lt | Rel::Gt) { 0.25 } else { 0.0 };
                let c = if wild { r.range(-40, 40) as f64 * 0.5 } else {
                    match rel { Rel::Le | Rel::Lt => sum + slack, Rel::Ge | Rel::Gt => sum - slack, _ => sum }
                };
                let all_float = xs.iter().all(|x| is_f(*x));
                let p = match (rel, r.below(3)) {
                    (Rel::Le, 0) => SPost::PLin(false, cs, xs, c),
                    (Rel::Eq, 0) => SPost::PLin(true, cs, xs, c),
                    (Rel::Ge, 0) => SPost::PLin(false, cs.iter().map(|c| -c).collect(), xs, -c),
                    (Rel::Le, 1) => SPost::Lin(false, cs, xs, c),
                    (Rel::Eq, 1) => SPost::Lin(true, cs, xs, c),
                    (Rel::Ge, 1) => SPost::Lin(false, cs.iter().map(|c| -c).collect(), xs, -c),
                    // a single variable with coefficient 1 and `==` would be the immediate route
                    (Rel::Eq, _) if xs.len() == 1 && cs[0] == 1.0 => SPost::Lin(true, cs, xs, c),
                    _ => if all_float { SPost::Fluent(rel, cs, xs, c) } else { SPost::Lin(rel == Rel::Eq, if matches!(rel, Rel::Ge | Rel::Gt) { cs.iter().map(|c| -c).collect() } else { cs }, xs, if matches!(rel, Rel::Ge | Rel::Gt) { -c } else { c }) },
                };
                posts.push(p);
            }
            // variable against variable
            _ => {
                let y = r.below(nv as u64) as usize;
                if x == y { continue; }
                let rel = if w[x] < w[y] { *r.pick(&[Rel::Le, Rel::Lt]) } else if w[x] > w[y] { *r.pick(&[Rel::Ge, Rel::Gt]) } else { *r.pick(&[Rel::Le, Rel::Ge, Rel::Eq]) };
                let rel = if wild { *r.pick(&[Rel::Le, Rel::Ge, Rel::Lt, Rel::Eq]) } else { rel };
                // (two contradictory props-level comparisons of the same float pair shrink the
                // domains one step per propagation — 10^7 rounds at precision 6: the props-level
                // route only gets relations that hold at the witness)
                let consistent = match rel { Rel::Le => w[x] <= w[y], Rel::Lt => w[x] < w[y], Rel::Ge => w[x] >= w[y], Rel::Gt => w[x] > w[y], _ => w[x] == w[y] };
                let p = match if consistent { r.below(3) } else { 1 + r.below(2) } {
                    0 => SPost::Cmp(rel, Opnd::V(x), Opnd::V(y)),
                    1 => SPost::FluentVV(rel, x, y),
                    _ => match rel {
                        Rel::Le => SPost::Lin(false, vec![1.0, -1.0], vec![x, y], 0.0),
                        Rel::Ge => SPost::Lin(false, vec![-1.0, 1.0], vec![x, y], 0.0),
                        Rel::Eq => SPost::Lin(true, vec![1.0, -1.0], vec![x, y], 0.0),
                        _ => if consistent { SPost::Cmp(rel, Opnd::V(x), Opnd::V(y)) } else { SPost::FluentVV(rel, x, y) },
                    },
                };
                posts.push(p);
            }
        }
    }
    {
        // `x == y` between two integer variables narrows both domains at posting time
        // (`apply_var_eq_bounds`): posted first, last or in between
        let ints: Vec<usize> = (0..nv).filter(|x| !is_f(*x)).collect();
        if ints.len() >= 2 && r.chance(1, 2) {
            let x = *r.pick(&ints);
            let y = *r.pick(&ints);
            let at = r.below(posts.len() as u64 + 1) as usize;
            posts.insert(at, SPost::FluentVV(Rel::Eq, x, y));
            out.stat("gen.int-int-eq");
        }
    }
    if !for_oracle && r.chance(1, 25) {
        // reversed float bounds: the validator must answer before the router
        let x = r.below(nv as u64) as usize;
        if let SVar::F(lo, hi) = vars[x] {
            if lo < hi { vars[x] = SVar::F(hi, lo); out.stat("gen.reversed-float-bounds"); }
        }
    }
    if !for_oracle {
        // shapes that only matter for the decision logic
        if r.chance(1, 6) {
            let x = r.below(nv as u64) as usize;
            let c = r.range(-20, 40) as f64 * 0.25;
            posts.push(match r.below(5) {
                0 => SPost::Cmp(Rel::Ne, Opnd::V(x), Opnd::C(c)),
                1 => SPost::Cmp(*r.pick(&Rel::ALL), Opnd::V(x), Opnd::K(r.range(-3, 12) as i32)),
                2 => SPost::Cmp(*r.pick(&Rel::ALL), Opnd::K(r.range(-3, 12) as i32), Opnd::V(x)),
                // (a strict self-comparison shrinks a float domain one step per propagation: not generated)
                3 => SPost::Cmp(*r.pick(&[Rel::Le, Rel::Ge, Rel::Eq, Rel::Ne]), Opnd::V(x), Opnd::V(x)),
                _ => SPost::Cmp(*r.pick(&[Rel::Lt, Rel::Eq, Rel::Gt]), Opnd::C(c), Opnd::V(x)),
            });
        }
    }
    Spec { digits, vars, posts }
}

/// models aimed at the root LP step: two to four variables, several of them fixed at build time
/// (`m.float(c, c)`, `m.int(k, k)`, `x.eq(c)`), one to three multi-variable linear rows by every
/// route (`>=` / strict rows through the fluent route, rows that introduce several new system
/// variables at once, variable-against-variable rows), objective inside the system
fn gen_lp_spec(r: &mut Rng, out: &mut Out) -> (Spec, usize) {
    let digits = *r.pick(&[2, 2, 2, 3]);
    let nv = r.range(2, 4) as usize;
    let mut vars = vec![];
    let mut w: Vec<f64> = vec![];
    let mut eqimm: Vec<(usize, f64)> = vec![];
    for i in 0..nv {
        let fixed = r.chance(1, 3);
        if r.chance(1, 4) {
            let lo = r.range(-3, 3) as i32;
            let hi = if fixed { lo } else { lo + r.range(1, 4) as i32 };
            vars.push(SVar::I(lo, hi));
            w.push(r.range(lo as i64, hi as i64) as f64);
        } else {
            let lo = r.range(-16, 12) as f64 * 0.25;
            let n = r.range(1, 12);
            let wi = lo + r.range(0, n) as f64 * 0.25;
            if fixed && r.chance(1, 2) {
                vars.push(SVar::F(wi, wi));
            } else {
                vars.push(SVar::F(lo, lo + n as f64 * 0.25));
                if fixed {
                    eqimm.push((i, wi));
                }
            }
            w.push(wi);
        }
        if fixed { out.stat("gen.lp.fixed-var"); }
    }
    let is_f = |x: usize| matches!(vars[x], SVar::F(..));
    let mut posts: Vec<SPost> = eqimm.iter().map(|(x, c)| SPost::EqImm(*x, *c)).collect();
    let nrows = r.range(1, 3);
    for _ in 0..nrows {
        if r.chance(1, 6) {
            let x = r.below(nv as u64) as usize;
            let y = (x + 1 + r.below(nv as u64 - 1) as usize) % nv;
            let rel = if w[x] <= w[y] { Rel::Le } else { Rel::Ge };
            posts.push(match r.below(3) { 0 => SPost::Cmp(rel, Opnd::V(x), Opnd::V(y)), 1 => SPost::FluentVV(rel, x, y), _ => SPost::Cmp(flip(rel), Opnd::V(y), Opnd::V(x)) });
            continue;
        }
        let n = r.range(2, nv as i64) as usize;
        let mut xs: Vec<usize> = (0..nv).collect();
        for i in 0..nv {
            let j = r.range(i as i64, nv as i64 - 1) as usize;
            xs.swap(i, j);
        }
        xs.truncate(n);
        let cs: Vec<f64> = xs.iter().map(|_| *r.pick(&COEFFS)).collect();
        let sum: f64 = cs.iter().zip(&xs).map(|(c, x)| c * w[*x]).sum();
        let rel = *r.pick(&[Rel::Le, Rel::Le, Rel::Ge, Rel::Ge, Rel::Eq, Rel::Lt, Rel::Gt]);
        let slack = r.range(0, 6) as f64 * 0.25 + if matches!(rel, Rel::Lt | Rel::Gt) { 0.25 } else { 0.0 };
        let c = match rel { Rel::Le | Rel::Lt => sum + slack, Rel::Ge | Rel::Gt => sum - slack, _ => sum };
        let all_float = xs.iter().all(|x| is_f(*x));
        let neg = |cs: &Vec<f64>| -> Vec<f64> { cs.iter().map(|c| -c).collect() };
        if r.chance(1, 12) {
            // a variable that occurs twice in one row (`m.lin_le` / props-level only: the fluent
            // route merges repeated variables)
            let mut xs2 = xs.clone();
            xs2.push(xs[0]);
            let mut cs2 = cs.clone();
            let extra = *r.pick(&COEFFS);
            cs2.push(extra);
            let c2 = c + extra * w[xs[0]];
            out.stat("gen.lp.duplicate-variable-row");
            posts.push(match rel {
                Rel::Eq => SPost::Lin(true, cs2, xs2, c2),
                Rel::Le | Rel::Lt => if r.chance(1, 2) { SPost::Lin(false, cs2, xs2, c2) } else { SPost::PLin(false, cs2, xs2, c2) },
                _ => SPost::Lin(false, neg(&cs2), xs2, -c2),
            });
            continue;
        }
        posts.push(match (rel, r.below(4)) {
            (_, 0) if all_float => SPost::Fluent(rel, cs, xs, c),
            (_, 1) if all_float && r.chance(1, 2) => SPost::Fluent(rel, cs, xs, c),
            (Rel::Eq, 2) => SPost::PLin(true, cs, xs, c),
            (Rel::Eq, _) => SPost::Lin(true, cs, xs, c),
            (Rel::Le | Rel::Lt, 2) => SPost::PLin(false, cs, xs, c),
            (Rel::Le | Rel::Lt, _) => SPost::Lin(false, cs, xs, c),
            (_, 2) => SPost::PLin(false, neg(&cs), xs, -c),
            _ => SPost::Lin(false, neg(&cs), xs, -c),
        });
    }
    let in_sys: Vec<usize> = (0..nv).filter(|x| posts.iter().any(|p| !matches!(p, SPost::EqImm(..)) && p.vars().contains(x))).collect();
    let obj = if in_sys.is_empty() || r.chance(1, 8) { r.below(nv as u64) as usize } else { *r.pick(&in_sys) };
    (Spec { digits, vars, posts }, obj)
}

fn stat_spec(out: &mut Out, spec: &Spec) {
    out.stat(&format!("gen.vars={}", spec.vars.len()));
    out.stat(&format!("gen.posts={}", spec.posts.len()));
    let nf = spec.vars.iter().filter(|v| matches!(v, SVar::F(..))).count();
    out.stat(if nf == spec.vars.len() { "gen.pure-float" } else if nf == 0 { "gen.pure-int" } else { "gen.mixed" });
    for p in &spec.posts {
        out.stat(match p {
            SPost::Cmp(..) => "gen.route.props-cmp",
            SPost::PLin(..) => "gen.route.props-lin",
            SPost::Lin(..) => "gen.route.lin",
            SPost::Fluent(..) => "gen.route.fluent",
            SPost::FluentVV(..) => "gen.route.fluent-varvar",
            SPost::EqImm(..) => "gen.route.fluent-eq-immediate",
        });
    }
}

/// all lines of one case: the description, both directions for every (or one) objective
fn emit_case(out: &mut Out, id: &str, spec: &Spec, objs: &[usize], with_oracle: bool) {
    out.case(id);
    stat_spec(out, spec);
    let mut oc = OCase::new();
    emit_spec(&mut oc, out, spec);
    let pb = pb_tokens(spec);
    for &obj in objs {
        for is_max in [false, true] {
            let d = if is_max { "max" } else { "min" };
            apply(&mut oc, out, &format!("op.route {d} {obj} {pb}"));
            let l = out.ops.len() - 1;
            out.stat(&format!("route.{}", out.imp[l].split_whitespace().take(2).collect::<Vec<_>>().join(".").split(|c| c == ':').next().unwrap_or("").trim_end_matches(".f").trim_end_matches(".i")));
            let run = run_entry(spec, is_max, obj);
            let line = format!("op.entry {d} {obj} {pb}");
            out.emit(line, entry_line(&run));
            let obs = observe_root_lp(spec, is_max, obj);
            let ll = out.emit(format!("op.rootlp {d} {obj}"), do_rootlp(spec, is_max, obj, obs.as_ref()));
            let eligible = out.imp[ll].contains("eligible=1");
            if let Some((tok, res)) = obs.as_ref().and_then(lpapply_of) {
                out.stat(&format!("lpapply.{}", res.split(|c| c == ' ' || c == '=').next().unwrap_or("")));
                out.stat(&format!("lpapply.status{}", tok.split_whitespace().next().unwrap_or("")));
                out.emit(format!("op.lpapply {d} {obj} {tok}"), res);
            }
            if !run.fast {
                out.stat(if eligible { "rootlp.eligible" } else { "rootlp.not-eligible" });
                if run.lp_applied && !eligible {
                    out.fail(ll, "C08", "-", "root LP applied although the rebuilt linear system is not eligible".to_string());
                }
                if eligible && !run.lp_applied {
                    out.stat("rootlp.eligible-not-applied");
                }
            }
            if with_oracle {
                let l = out.emit(opt_line(spec, is_max, obj), "-");
                out.stat("oracle.models");
                oracle_run(out, l, spec, is_max, obj, &run);
            }
        }
    }
}

/// synthetic `apply_lp_solution` cases
fn case_apply(out: &mut Out, r: &mut Rng, id: &str) {
    out.case(id);
    let digits = *r.pick(&[2, 3, 4, 6, 6]);
    let step = step_of(digits);
    let nv = r.range(1, 4) as usize;
    let mut spec = Spec { digits, vars: vec![], posts: vec![] };
    for _ in 0..nv {
        if r.chance(1, 3) {
            let lo = r.range(-4, 3) as i32;
            spec.vars.push(SVar::I(lo, lo + r.range(0, 5) as i32));
        } else {
            let lo = r.range(-40, 20) as f64 * 0.25;
            let n = if r.chance(1, 6) { 0 } else { r.range(1, 40) };
            spec.vars.push(SVar::F(lo, lo + n as f64 * 0.25));
        }
    }
    let mut oc = OCase::new();
    emit_spec(&mut oc, out, &spec);
    for _ in 0..3 {
        let mut sys: Vec<usize> = (0..nv).collect();
        for i in 0..nv {
            let j = r.range(i as i64, nv as i64 - 1) as usize;
            sys.swap(i, j);
        }
        sys.truncate(r.range(1, nv as i64) as usize);
        // the non-constant ones get a value; sometimes the count is off by one
        let nonconst: Vec<usize> = sys.iter().copied().filter(|i| match spec.vars[*i] { SVar::F(a, b) => (b - a).abs() >= 1e-6, SVar::I(a, b) => a != b }).collect();
        let mut x: Vec<f64> = nonconst.iter().map(|i| {
            let (lo, hi) = match spec.vars[*i] { SVar::F(a, b) => (a, b), SVar::I(a, b) => (a as f64, b as f64) };
            match r.below(10) {
                0 => lo,
                1 => hi,
                2 => lo - step * r.range(0, 3) as f64 * 0.5,
                3 => hi + step * r.range(0, 3) as f64 * 0.5,
                4 => lo + step * r.range(0, 4) as f64 * 0.5,
                5 => hi - step * r.range(0, 4) as f64 * 0.5,
                6 => lo - 1.0,
                7 => (lo + (hi - lo) * (r.below(1001) as f64 / 1000.0)).round(),
                _ => lo + (hi - lo) * (r.below(1001) as f64 / 1000.0),
            }
        }).collect();
        if r.chance(1, 12) { x.push(0.0); out.stat("apply.length-mismatch"); }
        apply(&mut oc, out, &format!("op.apply {} {} {} {}", sys.len(), sys.iter().map(|i| i.to_string()).collect::<Vec<_>>().join(" "), x.len(), x.iter().map(|v| sf(*v)).collect::<Vec<_>>().join(" ")));
        out.stat(if out.imp.last().map(|s| s == "fail").unwrap_or(false) { "apply.fail" } else { "apply.ok" });
    }
}

/// malformed models (oracle only): must not panic; an `Ok` must still satisfy (a)
fn case_malformed(out: &mut Out, r: &mut Rng, id: &str) {
    out.case(id);
    let mut spec = gen_spec(r, out, true);
    let nv = spec.vars.len();
    match r.below(3) {
        0 => {
            // an empty float domain
            let x = r.below(nv as u64) as usize;
            spec.vars[x] = SVar::F(5.0, 1.0);
            out.stat("mal.empty-float-domain");
        }
        1 => {
            let x = r.below(nv as u64) as usize;
            spec.vars[x] = SVar::I(3, 1);
            out.stat("mal.empty-int-domain");
        }
        _ => {
            spec.posts.push(SPost::Cmp(Rel::Le, Opnd::C(3.0), Opnd::C(2.0)));
            out.stat("mal.false-constant-comparison");
        }
    }
    let obj = r.below(nv as u64) as usize;
    let is_max = r.chance(1, 2);
    let l = out.emit(opt_line(&spec, is_max, obj), "-");
    malformed_run(out, l, &spec, is_max, obj);
}

fn malformed_run(out: &mut Out, l: usize, spec: &Spec, is_max: bool, obj: usize) {
    let run = run_entry(spec, is_max, obj);
    match &run.res {
        None => {
            // an integer variable declared with lo > hi: `SparseSet::min()` asserts (debug profile)
            let tag = if spec.vars.iter().any(|v| matches!(v, SVar::I(a, b) if a > b)) { "empty-domain-view-panic" } else { "-" };
            out.fail(l, "C08", tag, "panic on a malformed model".to_string())
        }
        Some(Ok(_)) => {
            // a comparison of two constants is a row on no variable at all: the router never looks at it
            let const_row = spec.posts.iter().any(|p| matches!(p, SPost::Cmp(_, Opnd::C(_) | Opnd::K(_), Opnd::C(_) | Opnd::K(_))));
            let valid_vars = spec.vars.iter().all(|v| match v { SVar::F(a, b) => a <= b, SVar::I(a, b) => a <= b });
            let tag = if eq_overwrites_domain(spec) { "float-eq-const-overwrites-domain" } else if run.fast && const_row && valid_vars { "fast-path-ignores-nonobjective-rows" } else { "-" };
            out.fail(l, "C08", tag, format!("Ok(..) on a model with an empty domain / a false constant comparison (fast path: {})", run.fast));
        }
        Some(Err(_)) => out.stat("mal.Err"),
    }
}

fn is_malformed(spec: &Spec) -> bool {
    spec.vars.iter().any(|v| match v { SVar::F(a, b) => !(a <= b), SVar::I(a, b) => a > b })
        || spec.posts.iter().any(|p| matches!(p, SPost::Cmp(_, Opnd::C(_) | Opnd::K(_), Opnd::C(_) | Opnd::K(_))))
}

fn oracle_line(out: &mut Out, line: &str) {
    let l = out.emit(line, "-");
    let Some((spec, is_max, obj)) = parse_opt_line(line) else { return };
    out.stat("oracle.models");
    if is_malformed(&spec) {
        malformed_run(out, l, &spec, is_max, obj);
        return;
    }
    let run = run_entry(&spec, is_max, obj);
    oracle_run(out, l, &spec, is_max, obj, &run);
}

/// small universe, exhaustively: every variable layout × every set of at most `u` posts of the pool
fn suite_exhaustive(out: &mut Out, u: usize) {
    let layouts: Vec<Vec<SVar>> = vec![
        vec![SVar::F(0.0, 10.0)],
        vec![SVar::F(-50.0, 50.0)],
        vec![SVar::F(0.0, 10.0), SVar::F(1.0, 4.0)],
        vec![SVar::F(0.0, 10.0), SVar::I(0, 3)],
        vec![SVar::I(0, 3), SVar::F(0.0, 10.0)],
        vec![SVar::F(0.0, 10.0), SVar::F(1.0, 4.0), SVar::F(0.0, 2.0)],
    ];
    let mut n = 0;
    for (li, vars) in layouts.iter().enumerate() {
        let nv = vars.len();
        let fx = vars.iter().position(|v| matches!(v, SVar::F(..))).unwrap();
        let mut pool: Vec<SPost> = vec![];
        let consts: &[f64] = if u >= 2 { &[4.5] } else { &[-5.0, 4.5, 20.0] };
        for rel in Rel::ALL {
            for c in consts {
                pool.push(SPost::Cmp(rel, Opnd::V(fx), Opnd::C(*c)));
                pool.push(SPost::Cmp(rel, Opnd::C(*c), Opnd::V(fx)));
            }
        }
        if u >= 2 && li <= 1 {
            // several bounds on the same side with different constants: the strongest one counts
            pool.push(SPost::Cmp(Rel::Ge, Opnd::V(fx), Opnd::C(2.0)));
            pool.push(SPost::Cmp(Rel::Gt, Opnd::V(fx), Opnd::C(3.25)));
            pool.push(SPost::Cmp(Rel::Le, Opnd::V(fx), Opnd::C(8.0)));
            pool.push(SPost::Cmp(Rel::Lt, Opnd::V(fx), Opnd::C(6.75)));
            pool.push(SPost::Cmp(Rel::Ge, Opnd::C(7.5), Opnd::V(fx)));
            pool.push(SPost::Cmp(Rel::Le, Opnd::C(1.5), Opnd::V(fx)));
        }
        pool.push(SPost::Cmp(Rel::Le, Opnd::V(fx), Opnd::K(3)));
        pool.push(SPost::PLin(false, vec![2.0], vec![fx], 8.0));
        pool.push(SPost::PLin(true, vec![2.0], vec![fx], 8.0));
        pool.push(SPost::Lin(false, vec![1.0], vec![fx], 4.5));
        pool.push(SPost::Fluent(Rel::Le, vec![1.0], vec![fx], 4.5));
        pool.push(SPost::Fluent(Rel::Gt, vec![2.0], vec![fx], 3.0));
        pool.push(SPost::EqImm(fx, 4.5));
        if nv >= 2 {
            let y = (fx + 1) % nv;
            pool.push(SPost::Cmp(Rel::Le, Opnd::V(fx), Opnd::V(y)));
            pool.push(SPost::Cmp(Rel::Ge, Opnd::V(fx), Opnd::V(y)));
            pool.push(SPost::Cmp(Rel::Lt, Opnd::V(y), Opnd::V(fx)));
            pool.push(SPost::FluentVV(Rel::Le, fx, y));
            pool.push(SPost::FluentVV(Rel::Gt, fx, y));
            pool.push(SPost::PLin(false, vec![1.0, 1.0], vec![fx, y], 5.0));
            pool.push(SPost::Lin(false, vec![1.0, 1.0], vec![fx, y], 5.0));
            pool.push(SPost::Lin(true, vec![1.0, -2.0], vec![fx, y], 0.5));
            pool.push(SPost::Fluent(Rel::Le, vec![1.0, 2.0], vec![y, fx], 6.0));
            pool.push(SPost::Cmp(Rel::Ge, Opnd::V(y), Opnd::C(2.0)));
        }
        let objs: Vec<usize> = (0..nv.min(2)).collect();
        let mut sets: Vec<Vec<SPost>> = vec![vec![]];
        for p in &pool {
            sets.push(vec![p.clone()]);
        }
        if u >= 2 {
            for (i, p) in pool.iter().enumerate() {
                for q in pool.iter().skip(i + 1) {
                    sets.push(vec![p.clone(), q.clone()]);
                    if matches!(q, SPost::EqImm(..)) {
                        sets.push(vec![q.clone(), p.clone()]);
                    }
                }
            }
        }
        for posts in sets {
            // (precision 2: the search path walks the objective step by step and would only hit
            // the time limit at the default precision; the decision logic does not depend on it)
            let spec = Spec { digits: 2, vars: vars.clone(), posts };
            let no_ne = !spec.posts.iter().any(|p| matches!(p, SPost::Cmp(Rel::Ne, ..)));
            emit_case(out, &format!("x{li}-{n}"), &spec, &objs, no_ne);
            n += 1;
        }
    }
    // every ordered pair of constant bounds on one float variable (both spellings, strict and not,
    // same side and opposite sides): the strongest bound of each side is the one that counts
    let mut bounds: Vec<SPost> = vec![];
    for (rel, c) in [(Rel::Ge, 2.0), (Rel::Ge, 4.0), (Rel::Gt, 3.25), (Rel::Le, 8.0), (Rel::Le, 6.0), (Rel::Lt, 6.75)] {
        bounds.push(SPost::Cmp(rel, Opnd::V(0), Opnd::C(c)));
        bounds.push(SPost::Cmp(flip(rel), Opnd::C(c + 0.5), Opnd::V(0)));
    }
    let mut k = 0;
    for p in &bounds {
        for q in &bounds {
            if std::ptr::eq(p, q) { continue; }
            let spec = Spec { digits: 2, vars: vec![SVar::F(0.0, 10.0)], posts: vec![p.clone(), q.clone()] };
            emit_case(out, &format!("xb-{k}"), &spec, &[0], true);
            k += 1;
        }
    }
}

/// the concrete models of the `…_counterexample` theorems of Props/C08.lean (and one model inside
/// the guard of `C08_fast_path_sound_partial`), replayed on the real code
fn suite_witness(out: &mut Out) {
    let f = |a: f64, b: f64| SVar::F(a, b);
    let v = Opnd::V;
    let c = Opnd::C;
    let cases: Vec<(&str, i32, Vec<SVar>, Vec<SPost>, Vec<(bool, usize)>)> = vec![
        ("pending", 6, vec![f(0.0, 10.0)], vec![SPost::Fluent(Rel::Le, vec![1.0], vec![0], 4.5)], vec![(true, 0)]),
        ("nonobjective", 6, vec![f(0.0, 10.0), f(0.0, 10.0)], vec![SPost::Cmp(Rel::Ge, v(1), c(8.0))], vec![(true, 0)]),
        ("props-linear", 6, vec![f(0.0, 10.0)], vec![SPost::PLin(false, vec![2.0], vec![0], 8.0)], vec![(true, 0)]),
        ("opposite", 6, vec![f(0.0, 10.0)], vec![SPost::Cmp(Rel::Le, v(0), c(3.0)), SPost::Cmp(Rel::Ge, v(0), c(5.0))], vec![(true, 0)]),
        ("shape", 6, vec![f(0.0, 10.0)], vec![SPost::Cmp(Rel::Eq, c(4.0), v(0))], vec![(true, 0)]),
        ("wrong-objective", 6, vec![SVar::I(0, 3), f(0.0, 10.0)], vec![], vec![(true, 0)]),
        ("reroute-repaired", 6, vec![f(0.0, 10.0)], vec![SPost::Cmp(Rel::Le, v(0), c(-5.0))], vec![(true, 0)]),
        ("reroute", 6, vec![f(0.0, 10.0)], vec![SPost::Cmp(Rel::Le, v(0), c(20.0)), SPost::PLin(false, vec![2.0], vec![0], -8.0)], vec![(true, 0)]),
        ("guarded", 6, vec![f(0.0, 10.0), SVar::I(2, 3)], vec![SPost::Cmp(Rel::Le, v(0), c(4.5)), SPost::Cmp(Rel::Le, c(1.0), v(0))], vec![(true, 0), (false, 0)]),
        ("lp-vertex", 2, vec![f(0.0, 10.0), SVar::I(0, 3)], vec![SPost::Lin(false, vec![2.0], vec![1], 3.0), SPost::Lin(false, vec![1.0, -1.0], vec![0, 1], 0.0)], vec![(true, 0)]),
        ("lp-vertex-float", 2, vec![f(0.0, 4.0), f(0.0, 4.0)], vec![SPost::Lin(false, vec![1.0, 1.0], vec![0, 1], 4.0), SPost::Cmp(Rel::Ge, v(1), c(1.0))], vec![(true, 0)]),
        ("lp-duplicate-variable", 2, vec![f(-10.0, 10.0), f(0.0, 10.0)], vec![SPost::Lin(false, vec![-2.0, 1.0], vec![0, 0], -1.0), SPost::Lin(false, vec![1.0, 1.0], vec![0, 1], 20.0)], vec![(false, 0), (true, 0)]),
        ("eq-overwrites-domain", 2, vec![f(3.0, 12.25)], vec![SPost::EqImm(0, -7.25)], vec![(false, 0)]),
        ("reversed-bounds", 6, vec![f(5.0, 1.0)], vec![], vec![(true, 0)]),
    ];
    for (name, digits, vars, posts, runs) in cases {
        let spec = Spec { digits, vars, posts };
        out.case(&format!("w-{name}"));
        let mut oc = OCase::new();
        emit_spec(&mut oc, out, &spec);
        let pb = pb_tokens(&spec);
        for (is_max, obj) in runs {
            let d = if is_max { "max" } else { "min" };
            apply(&mut oc, out, &format!("op.route {d} {obj} {pb}"));
            let run = run_entry(&spec, is_max, obj);
            out.emit(format!("op.entry {d} {obj} {pb}"), entry_line(&run));
            let obs = observe_root_lp(&spec, is_max, obj);
            out.emit(format!("op.rootlp {d} {obj}"), do_rootlp(&spec, is_max, obj, obs.as_ref()));
            if let Some((tok, res)) = obs.as_ref().and_then(lpapply_of) {
                out.emit(format!("op.lpapply {d} {obj} {tok}"), res);
            }
            let l = out.emit(opt_line(&spec, is_max, obj), "-");
            out.stat("oracle.models");
            oracle_run(out, l, &spec, is_max, obj, &run);
        }
    }
}

fn arg(args: &[String], name: &str, default: &str) -> String {
    args.iter().position(|a| a == name).and_then(|i| args.get(i + 1)).cloned().unwrap_or_else(|| default.to_string())
}

pub fn suite(out: &mut Out, seed: u64, count: u64, args: &[String]) {
    let mode = arg(args, "--mode", "all");
    if mode == "replay" {
        // `opt --mode replay --ops FILE`: re-run a protocol file of this suite verbatim
        let text = std::fs::read_to_string(arg(args, "--ops", "")).unwrap_or_default();
        for line in text.lines() {
            if let Some(id) = line.strip_prefix("case ") {
                out.case(id.trim());
            } else if line.starts_with("op.") || line.starts_with("#opt") {
                replay_line(out, line);
            }
        }
        return;
    }
    if mode == "exh" {
        suite_exhaustive(out, arg(args, "--universe", "1").parse().unwrap_or(1));
        return;
    }
    if mode == "witness" || mode == "all" {
        suite_witness(out);
        if mode == "witness" {
            return;
        }
    }
    let mut root = Rng::new(seed ^ 0x0C08_0B7E);
    let t_all = std::time::Instant::now();
    for c in 0..count {
        let mut r = root.fork();
        let id = format!("o{seed}-{c}");
        match (mode.as_str(), c % 10) {
            ("route", _) | ("all", 0..=2) => {
                // decision logic: every declared variable as objective, no oracle (the search
                // itself is of no interest here: hook H6 lets the first limit check of the engine fire)
                hooks::set_fire_at(Some((1, 0)));
                let spec = gen_spec(&mut r, out, false);
                let objs: Vec<usize> = (0..spec.vars.len()).collect();
                emit_case(out, &id, &spec, &objs, false);
                hooks::set_fire_at(None);
            }
            ("apply", _) | ("all", 3) => case_apply(out, &mut r, &id),
            ("lp", _) | ("all", 5..=6) => {
                let (spec, obj) = gen_lp_spec(&mut r, out);
                emit_case(out, &id, &spec, &[obj], true);
            }
            ("malformed", _) | ("all", 4) => case_malformed(out, &mut r, &id),
            _ => {
                let spec = gen_spec(&mut r, out, true);
                let obj = r.below(spec.vars.len() as u64) as usize;
                emit_case(out, &id, &spec, &[obj], true);
            }
        }
    }
    if std::env::var("OPT_DEBUG").is_ok() {
        PROFILE.with(|p| { let p = p.borrow(); eprintln!("PROFILE runs={} in_runs={:.2}s max={:.3}s total={:.2}s", p.0, p.1, p.2, t_all.elapsed().as_secs_f64()); });
    }
}

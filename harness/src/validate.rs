//! `validate` suite (C02/C17): the all-different validation of `ModelValidator`, driven through
//! `Model::solve`.  Protocol: `vd.alldiff <dom> | <dom> | …` with `<dom>` = `f` (float variable)
//! or the integer values; result `ok` | `conflict dup <v>` | `conflict few <n> <k>`.
//! Oracle (C02): a `ConflictingConstraints` verdict only if no assignment of pairwise different
//! values exists (integer variables by brute force; float variables can always differ).
use crate::out::{guarded, Out};
use crate::rng::Rng;
use selen::prelude::*;

#[derive(Clone, Debug)]
enum D { F, I(Vec<i32>) }

fn line(ds: &[D]) -> String {
    let parts: Vec<String> = ds.iter().map(|d| match d {
        D::F => "f".to_string(),
        D::I(v) => v.iter().map(|x| x.to_string()).collect::<Vec<_>>().join(" "),
    }).collect();
    format!("vd.alldiff {}", parts.join(" | "))
}

fn sat(ds: &[D]) -> bool {
    // injective choice for the integer variables (floats can always take fresh values)
    fn go(doms: &[&Vec<i32>], used: &mut Vec<i32>) -> bool {
        match doms.split_first() {
            None => true,
            Some((d, rest)) => {
                for v in d.iter() {
                    if !used.contains(v) {
                        used.push(*v);
                        if go(rest, used) { return true; }
                        used.pop();
                    }
                }
                false
            }
        }
    }
    let ints: Vec<&Vec<i32>> = ds.iter().filter_map(|d| if let D::I(v) = d { Some(v) } else { None }).collect();
    go(&ints, &mut vec![])
}

fn run(out: &mut Out, ds: &[D]) {
    let res = guarded(|| {
        let mut m = Model::default();
        let ids: Vec<VarId> = ds.iter().map(|d| match d {
            D::F => m.float(0.0, 10.0),
            D::I(v) => m.intset(v.clone()),
        }).collect();
        m.alldiff(&ids);
        // the verdict of the validation is what `solve` reports first
        m.solve().map(|_| ())
    });
    let shown = match &res {
        None => "panic".to_string(),
        Some(Err(SolverError::ConflictingConstraints { context: Some(c), .. })) => {
            if let Some(v) = c.strip_prefix("AllDifferent constraint has two variables fixed to the same value: ") {
                format!("conflict dup {}", v.trim())
            } else if c.starts_with("AllDifferent constraint requires ") {
                let nums: Vec<&str> = c.split(|ch: char| !ch.is_ascii_digit()).filter(|s| !s.is_empty()).collect();
                format!("conflict few {} {}", nums.first().unwrap_or(&"?"), nums.get(1).unwrap_or(&"?"))
            } else {
                format!("conflict other {c}")
            }
        }
        Some(Err(SolverError::ConflictingConstraints { .. })) => "conflict other".to_string(),
        // anything after the validation (a solution, or NoSolution found by the search) means
        // the validation accepted the model
        Some(_) => "ok".to_string(),
    };
    let l = out.emit(line(ds), shown.clone());
    out.stat(&format!("verdict.{}", shown.split_whitespace().take(2).collect::<Vec<_>>().join("-")));
    if shown.starts_with("conflict") && sat(ds) {
        let tag = if ds.iter().any(|d| matches!(d, D::F)) { "alldiff-float-counted" } else { "-" };
        out.fail(l, "C02", tag, format!("validation rejects a satisfiable all-different: {}", line(ds)));
    }
    if shown == "panic" {
        out.fail(l, "C17", "-", format!("panic validating {}", line(ds)));
    }
}

fn rand_dom(r: &mut Rng, with_float: bool) -> D {
    if with_float && r.chance(1, 6) { return D::F; }
    if r.chance(1, 3) {
        return D::I(vec![r.range(-2, 4) as i32]);
    }
    let mut v: Vec<i32> = (-2..=4).filter(|_| r.chance(1, 3)).collect();
    if v.is_empty() { v.push(r.range(-2, 4) as i32); }
    D::I(v)
}

pub fn suite(out: &mut Out, seed: u64, count: u64, args: &[String]) {
    if args.iter().any(|a| a == "--exh") {
        // every family of 1..=3 integer variables over subsets of {0,1,2} (non-empty)
        let subsets: Vec<Vec<i32>> = (1..8u32).map(|m| (0..3).filter(|b| m >> b & 1 == 1).map(|b| b as i32).collect()).collect();
        let mut id = 0;
        for n in 1..=3usize {
            let mut idx = vec![0usize; n];
            loop {
                out.case(&format!("vx{id}"));
                id += 1;
                let ds: Vec<D> = idx.iter().map(|i| D::I(subsets[*i].clone())).collect();
                run(out, &ds);
                let mut k = 0;
                while k < n { idx[k] += 1; if idx[k] < subsets.len() { break; } idx[k] = 0; k += 1; }
                if k == n { break; }
            }
        }
        return;
    }
    let mut r0 = Rng::new(seed ^ 0x7A11D);
    for i in 0..count {
        let mut r = r0.fork();
        out.case(&format!("vd{i}"));
        let n = r.range(1, 6) as usize;
        let with_float = r.chance(1, 4);
        let ds: Vec<D> = (0..n).map(|_| rand_dom(&mut r, with_float)).collect();
        run(out, &ds);
    }
}

pub fn replay_line(out: &mut Out, line: &str) {
    let rest = match line.strip_prefix("vd.alldiff") { Some(r) => r, None => { out.emit(line, "bad-op"); return; } };
    let mut ds = vec![];
    for g in rest.split('|') {
        let w: Vec<&str> = g.split_whitespace().collect();
        if w == ["f"] { ds.push(D::F); continue; }
        match w.iter().map(|x| x.parse::<i32>().ok()).collect::<Option<Vec<i32>>>() {
            Some(v) => ds.push(D::I(v)),
            None => { out.emit(line, "bad-op"); return; }
        }
    }
    run(out, &ds);
}

//! Correspondence harness: drives the real selen code, writes protocol lines
//! (`<suite>.ops`), its own results (`<suite>.impl`), oracle verdicts
//! (`<suite>.oracle`) and the input distribution (`<suite>.stats.json`).
mod api;
mod core;
mod engine;
mod limits;
mod malformed;
mod determ;
mod lower;
mod float;
mod lp;
mod gac;
mod sudoku;
mod validate;
mod opt;
mod out;
mod rng;
mod ss;

use out::Out;

fn arg(args: &[String], name: &str, default: &str) -> String {
    args.iter().position(|a| a == name).and_then(|i| args.get(i + 1)).cloned().unwrap_or_else(|| default.to_string())
}

fn main() {
    std::panic::set_hook(Box::new(|_| {}));
    let args: Vec<String> = std::env::args().collect();
    let suite = args.get(1).cloned().unwrap_or_default();
    let seed: u64 = arg(&args, "--seed", "1").parse().unwrap();
    let count: u64 = arg(&args, "--count", "100").parse().unwrap();
    let dir = arg(&args, "--out", "/verif/work");
    let name = arg(&args, "--name", &suite);
    let mut out = Out::default();
    match suite.as_str() {
        "ss" => ss::suite(&mut out, seed, count, 60),
        "ss-exh" => {
            let depth: usize = arg(&args, "--depth", "3").parse().unwrap();
            let width: i32 = arg(&args, "--width", "3").parse().unwrap();
            ss::exhaustive(&mut out, -1, width, depth)
        }
        "prune" => core::suite_prune(&mut out, seed, count),
        "views" => core::suite_views(&mut out, seed, count, arg(&args, "--depth", "2").parse().unwrap()),
        "views-exh" => core::suite_views_exhaustive(&mut out, arg(&args, "--universe", "2").parse().unwrap(), arg(&args, "--bound", "8").parse().unwrap()),
        "prune-exh" => core::suite_prune_exhaustive(&mut out, arg(&args, "--universe", "2").parse().unwrap(), arg(&args, "--shard", "0").parse().unwrap(), arg(&args, "--shards", "1").parse().unwrap()),
        "engine" => engine::suite(&mut out, seed, count),
        "api" => api::suite(&mut out, seed, count),
        "limits" => limits::suite(&mut out, seed, count),
        "limits-deep" => limits::suite_deep(&mut out, seed, count),
        "sudoku" => sudoku::suite(&mut out, seed, count, &args),
        "gac" => gac::suite(&mut out, seed, count, &args),
        "lp" => lp::suite(&mut out, seed, count, &args),
        "float" => float::suite(&mut out, seed, count, &args),
        "lower" => lower::suite(&mut out, seed, count, &args),
        "determ" => determ::suite(&mut out, seed, count, &args),
        "validate" => validate::suite(&mut out, seed, count, &args),
        "opt" => opt::suite(&mut out, seed, count, &args),
        "malformed" => malformed::suite(&mut out, seed, count, &args),
        "replay" => {
            // re-run the ops of a file verbatim (used by --replay)
            let path = arg(&args, "--ops", "");
            replay(&mut out, &path);
        }
        _ => {
            eprintln!("unknown suite {suite}");
            std::process::exit(2);
        }
    }
    let only = arg(&args, "--only-case", "");
    if !only.is_empty() {
        out.restrict(&only);
    }
    out.write(&dir, &name).unwrap();
    println!("{} lines, {} oracle failures", out.ops.len(), out.oracle.len());
}

fn replay(out: &mut Out, path: &str) {
    let text = std::fs::read_to_string(path).unwrap();
    let mut ssc: Option<ss::Case> = None;
    let mut sc = core::StoreCase::new();
    let mut ec = engine::EngCase { doms: vec![], kinds: vec![] };
    // engine cases are recognised by a `post` line
    let is_engine_case = |from: usize, lines: &Vec<&str>| -> bool {
        lines[from..].iter().take_while(|l| !l.starts_with("case ")).any(|l| l.starts_with("post "))
    };
    let lines: Vec<&str> = text.lines().collect();
    let mut eng = false;
    for (li, line) in lines.iter().enumerate() {
        let line = *line;
        let w = line.split_whitespace().next().unwrap_or("");
        if w == "case" {
            eng = is_engine_case(li + 1, &lines);
            ec = engine::EngCase { doms: vec![], kinds: vec![] };
            out.case(line.split_whitespace().nth(1).unwrap_or("r"));
            ssc = None;
            sc = core::StoreCase::new();
            lower::replay_reset();
        } else if eng && (w == "st.var" || w == "post" || w == "fix" || w == "enum" || w == "opt") {
            if w == "st.var" {
                core::replay_line(&mut sc, out, line);
            }
            engine::replay_line(&mut ec, out, line);
        } else if w.starts_with("sd.") {
            sudoku::replay_line(out, line);
        } else if w.starts_with("gac.") {
            gac::replay_line(out, line);
        } else if w.starts_with("lp.") {
            lp::replay_line(out, line);
        } else if w.starts_with("fl.") || w == "#flapi" {
            float::replay_line(out, line);
        } else if w.starts_with("op.") || w == "#opt" {
            opt::replay_line(out, line);
        } else if w.starts_with("vd.") {
            validate::replay_line(out, line);
        } else if w.starts_with("mal.") {
            malformed::replay_line(out, line);
        } else if w == "#det" {
            determ::replay_line(out, line);
        } else if w.starts_with("lw.") {
            lower::replay_line(out, line);
        } else if eng && w == "limit" {
            limits::replay_line(&ec, out, line);
        } else if w == "st.var" || w == "prune" || w == "ctx.min" || w == "ctx.max" {
            core::replay_line(&mut sc, out, line);
        } else if w == "ss.new" || w == "ss.unchecked" || w == "ss.values" {
            ssc = ss::create(out, line);
        } else if w.starts_with("ss.") {
            if let Some(c) = ssc.as_mut() {
                ss::apply(c, out, line);
            }
        }
    }
}

//! Store / view / single-propagator ops (C05, C12, C13): the real `Context::try_set_*`,
//! views and `Prune::prune` implementations driven directly, with brute-force oracles.
use crate::out::{guarded, show_ints, Out};
use crate::rng::Rng;
use selen::constraints::props::{PropId, Propagators};
use selen::variables::views::{Context, View, ViewExt};
use selen::variables::{Val, Var, VarId, Vars};

// ---------------------------------------------------------------------------------------------
// view specifications and their instantiation as static selen view types
// ---------------------------------------------------------------------------------------------

#[derive(Clone, Debug)]
pub enum VSpec {
    C(i32),
    V(usize),
    Opp(Box<VSpec>),
    Plus(i32, Box<VSpec>),
    TPos(i32, Box<VSpec>),
    Times(i32, Box<VSpec>),
    TNeg(i32, Box<VSpec>),
    Next(Box<VSpec>),
    Prev(Box<VSpec>),
}

impl VSpec {
    pub fn tokens(&self) -> String {
        match self {
            VSpec::C(k) => format!("c {k}"),
            VSpec::V(i) => format!("v {i}"),
            VSpec::Opp(v) => format!("opp {}", v.tokens()),
            VSpec::Plus(k, v) => format!("plus {k} {}", v.tokens()),
            VSpec::TPos(k, v) => format!("tpos {k} {}", v.tokens()),
            VSpec::Times(k, v) => format!("times {k} {}", v.tokens()),
            VSpec::TNeg(k, v) => format!("tneg {k} {}", v.tokens()),
            VSpec::Next(v) => format!("next {}", v.tokens()),
            VSpec::Prev(v) => format!("prev {}", v.tokens()),
        }
    }
    pub fn var(&self) -> Option<usize> {
        match self {
            VSpec::C(_) => None,
            VSpec::V(i) => Some(*i),
            VSpec::Times(0, _) => None,
            VSpec::Opp(v) | VSpec::Plus(_, v) | VSpec::TPos(_, v) | VSpec::Times(_, v) | VSpec::TNeg(_, v) | VSpec::Next(v) | VSpec::Prev(v) => v.var(),
        }
    }
    /// value of the view when its variable has value `x` (independent re-statement, i64)
    pub fn apply(&self, a: &[i64]) -> i64 {
        match self {
            VSpec::C(k) => *k as i64,
            VSpec::V(i) => a[*i],
            VSpec::Opp(v) => -v.apply(a),
            VSpec::Plus(k, v) => v.apply(a) + *k as i64,
            VSpec::TPos(k, v) | VSpec::Times(k, v) | VSpec::TNeg(k, v) => v.apply(a) * *k as i64,
            VSpec::Next(v) => v.apply(a) + 1,
            VSpec::Prev(v) => v.apply(a) - 1,
        }
    }
    /// does the view contain a `Next`/`Prev` step?
    pub fn has_step(&self) -> bool {
        match self {
            VSpec::C(_) | VSpec::V(_) => false,
            VSpec::Next(_) | VSpec::Prev(_) => true,
            VSpec::Opp(v) | VSpec::Plus(_, v) | VSpec::TPos(_, v) | VSpec::Times(_, v) | VSpec::TNeg(_, v) => v.has_step(),
        }
    }
    /// all values the view takes over the domains `doms`
    pub fn values(&self, doms: &[Vec<i32>]) -> Vec<i64> {
        match self.var() {
            None => vec![self.apply(&vec![0i64; doms.len().max(1)])],
            Some(x) => doms.get(x).map(|d| d.iter().map(|w| { let mut a = vec![0i64; doms.len()]; a[x] = *w as i64; self.apply(&a) }).collect()).unwrap_or_default(),
        }
    }
    pub fn depth(&self) -> usize {
        match self {
            VSpec::C(_) | VSpec::V(_) => 0,
            VSpec::Opp(v) | VSpec::Plus(_, v) | VSpec::TPos(_, v) | VSpec::Times(_, v) | VSpec::TNeg(_, v) | VSpec::Next(v) | VSpec::Prev(v) => 1 + v.depth(),
        }
    }
}

/// continuation receiving a concrete view type
pub trait ViewK {
    type Out;
    fn call<V: View>(self, v: V) -> Self::Out;
}

fn level0<K: ViewK>(s: &VSpec, ids: &[VarId], k: K) -> K::Out {
    match s {
        VSpec::C(c) => k.call(Val::ValI(*c)),
        VSpec::V(i) => k.call(ids[*i]),
        _ => panic!("view too deep"),
    }
}

macro_rules! level {
    ($name:ident, $inner:ident) => {
        fn $name<K: ViewK>(s: &VSpec, ids: &[VarId], k: K) -> K::Out {
            struct OppK<K>(K);
            impl<K: ViewK> ViewK for OppK<K> {
                type Out = K::Out;
                fn call<V: View>(self, v: V) -> K::Out { self.0.call(v.opposite()) }
            }
            struct PlusK<K>(K, i32);
            impl<K: ViewK> ViewK for PlusK<K> {
                type Out = K::Out;
                fn call<V: View>(self, v: V) -> K::Out { self.0.call(v.plus(Val::ValI(self.1))) }
            }
            struct TPosK<K>(K, i32);
            impl<K: ViewK> ViewK for TPosK<K> {
                type Out = K::Out;
                fn call<V: View>(self, v: V) -> K::Out { self.0.call(v.times_pos(Val::ValI(self.1))) }
            }
            struct TimesK<K>(K, i32);
            impl<K: ViewK> ViewK for TimesK<K> {
                type Out = K::Out;
                fn call<V: View>(self, v: V) -> K::Out { self.0.call(v.times(Val::ValI(self.1))) }
            }
            struct TNegK<K>(K, i32);
            impl<K: ViewK> ViewK for TNegK<K> {
                type Out = K::Out;
                fn call<V: View>(self, v: V) -> K::Out { self.0.call(v.times_neg(Val::ValI(self.1))) }
            }
            struct NextK<K>(K);
            impl<K: ViewK> ViewK for NextK<K> {
                type Out = K::Out;
                fn call<V: View>(self, v: V) -> K::Out { self.0.call(v.next()) }
            }
            struct PrevK<K>(K);
            impl<K: ViewK> ViewK for PrevK<K> {
                type Out = K::Out;
                fn call<V: View>(self, v: V) -> K::Out { self.0.call(v.prev()) }
            }
            match s {
                VSpec::C(_) | VSpec::V(_) => level0(s, ids, k),
                VSpec::Opp(v) => $inner(v, ids, OppK(k)),
                VSpec::Plus(c, v) => $inner(v, ids, PlusK(k, *c)),
                VSpec::TPos(c, v) => $inner(v, ids, TPosK(k, *c)),
                VSpec::Times(c, v) => $inner(v, ids, TimesK(k, *c)),
                VSpec::TNeg(c, v) => $inner(v, ids, TNegK(k, *c)),
                VSpec::Next(v) => $inner(v, ids, NextK(k)),
                VSpec::Prev(v) => $inner(v, ids, PrevK(k)),
            }
        }
    };
}
level!(level1, level0);
pub fn with_view1<K: ViewK>(s: &VSpec, ids: &[VarId], k: K) -> K::Out { level1(s, ids, k) }
level!(level2, level1);

// ---------------------------------------------------------------------------------------------
// propagator kinds
// ---------------------------------------------------------------------------------------------

#[derive(Clone, Debug)]
pub enum KSpec {
    Leq(VSpec, VSpec),
    Eq(VSpec, VSpec),
    Neq(VSpec, VSpec),
    Add(VSpec, VSpec, usize),
    /// sum of `times(c_i)` views (c = 1 everywhere posts plain variables)
    Sum(Vec<i32>, Vec<usize>, usize),
    LinEq(Vec<i32>, Vec<usize>, i32),
    LinLe(Vec<i32>, Vec<usize>, i32),
    LinNe(Vec<i32>, Vec<usize>, i32),
    LinEqR(Vec<i32>, Vec<usize>, i32, usize),
    LinLeR(Vec<i32>, Vec<usize>, i32, usize),
    LinNeR(Vec<i32>, Vec<usize>, i32, usize),
    Reif(&'static str, usize, usize, usize),
    And(Vec<usize>, usize),
    Or(Vec<usize>, usize),
    Not(usize, usize),
    Xor(usize, usize, usize),
    Abs(VSpec, usize),
    Min(Vec<usize>, usize),
    Max(Vec<usize>, usize),
    Mul(VSpec, VSpec, usize),
    Div(VSpec, VSpec, usize),
    Mod(VSpec, VSpec, usize),
    AllEq(Vec<usize>),
    AllDiff(Vec<usize>),
    Between(usize, usize, usize),
    /// count(vars, target view, count variable)
    Count(Vec<usize>, VSpec, usize),
    /// "atleast" | "atmost" | "exactly", vars, target value, count
    Card(&'static str, Vec<usize>, i32, i32),
    Element(Vec<usize>, usize, usize),
    Table(Vec<usize>, Vec<Vec<i32>>),
    /// if (cv cop cval) then (tv top tval) [else (ev eop eval)]
    Ite(&'static str, usize, i32, &'static str, usize, i32, Option<(&'static str, usize, i32)>),
}

thread_local! {
    /// declared domains of the current case (filled by `StoreCase::add_var`): the store-dependent
    /// finding matchers of `KSpec::finding_tag` are evaluated on them
    static CUR_DOMS: std::cell::RefCell<Vec<Vec<i32>>> = std::cell::RefCell::new(Vec::new());
}

pub const COND_OPS: [&str; 4] = ["eq", "ne", "gt", "lt"];
pub const SIMP_OPS: [&str; 6] = ["eq", "ne", "gt", "lt", "ge", "le"];

fn simp_holds(op: &str, x: i64, v: i64) -> bool {
    match op { "eq" => x == v, "ne" => x != v, "gt" => x > v, "lt" => x < v, "ge" => x >= v, _ => x <= v }
}

fn join<T: ToString>(v: &[T]) -> String {
    v.iter().map(|x| x.to_string()).collect::<Vec<_>>().join(" ")
}

impl KSpec {
    pub fn name(&self) -> &'static str {
        match self {
            KSpec::Leq(..) => "leq", KSpec::Eq(..) => "eq", KSpec::Neq(..) => "neq", KSpec::Add(..) => "add",
            KSpec::Sum(..) => "sum", KSpec::LinEq(..) => "lineq", KSpec::LinLe(..) => "linle", KSpec::LinNe(..) => "linne",
            KSpec::LinEqR(..) => "lineqr", KSpec::LinLeR(..) => "linler", KSpec::LinNeR(..) => "linner",
            KSpec::Reif(..) => "reif", KSpec::And(..) => "and", KSpec::Or(..) => "or", KSpec::Not(..) => "not",
            KSpec::Xor(..) => "xor", KSpec::Abs(..) => "abs", KSpec::Min(..) => "min", KSpec::Max(..) => "max",
            KSpec::Mul(..) => "mul", KSpec::Div(..) => "div", KSpec::Mod(..) => "mod", KSpec::AllEq(..) => "alleq", KSpec::AllDiff(..) => "alldiff",
            KSpec::Between(..) => "between", KSpec::Count(..) => "count",
            KSpec::Card(t, ..) => match *t { "atleast" => "atleast", "atmost" => "atmost", _ => "exactly" },
            KSpec::Element(..) => "element", KSpec::Table(..) => "table", KSpec::Ite(..) => "ite",
        }
    }
    pub fn tokens(&self) -> String {
        match self {
            KSpec::Leq(x, y) => format!("leq {} {}", x.tokens(), y.tokens()),
            KSpec::Eq(x, y) => format!("eq {} {}", x.tokens(), y.tokens()),
            KSpec::Neq(x, y) => format!("neq {} {}", x.tokens(), y.tokens()),
            KSpec::Add(x, y, s) => format!("add {} {} {s}", x.tokens(), y.tokens()),
            KSpec::Sum(cs, xs, s) => {
                let vs: Vec<String> = cs.iter().zip(xs).map(|(c, x)| if cs.iter().all(|c| *c == 1) { format!("v {x}") } else { format!("times {c} v {x}") }).collect();
                format!("sum {} {} {s}", xs.len(), vs.join(" "))
            }
            KSpec::LinEq(cs, xs, c) => format!("lineq {} {} {} {c}", xs.len(), join(cs), join(xs)),
            KSpec::LinLe(cs, xs, c) => format!("linle {} {} {} {c}", xs.len(), join(cs), join(xs)),
            KSpec::LinNe(cs, xs, c) => format!("linne {} {} {} {c}", xs.len(), join(cs), join(xs)),
            KSpec::LinEqR(cs, xs, c, b) => format!("lineqr {} {} {} {c} {b}", xs.len(), join(cs), join(xs)),
            KSpec::LinLeR(cs, xs, c, b) => format!("linler {} {} {} {c} {b}", xs.len(), join(cs), join(xs)),
            KSpec::LinNeR(cs, xs, c, b) => format!("linner {} {} {} {c} {b}", xs.len(), join(cs), join(xs)),
            KSpec::Reif(op, x, y, b) => format!("reif {op} {x} {y} {b}"),
            KSpec::And(ops, r) => format!("and {} {} {r}", ops.len(), join(ops)),
            KSpec::Or(ops, r) => format!("or {} {} {r}", ops.len(), join(ops)),
            KSpec::Not(o, r) => format!("not {o} {r}"),
            KSpec::Xor(x, y, r) => format!("xor {x} {y} {r}"),
            KSpec::Abs(x, s) => format!("abs {} {s}", x.tokens()),
            KSpec::Min(xs, r) => format!("min {} {} {r}", xs.len(), join(xs)),
            KSpec::Max(xs, r) => format!("max {} {} {r}", xs.len(), join(xs)),
            KSpec::Mul(x, y, s) => format!("mul {} {} {s}", x.tokens(), y.tokens()),
            KSpec::Div(x, y, s) => format!("div {} {} {s}", x.tokens(), y.tokens()),
            KSpec::Mod(x, y, s) => format!("mod {} {} {s}", x.tokens(), y.tokens()),
            KSpec::AllEq(xs) => format!("alleq {} {}", xs.len(), join(xs)),
            KSpec::AllDiff(xs) => format!("alldiff {} {}", xs.len(), join(xs)),
            KSpec::Between(l, m, u) => format!("between {l} {m} {u}"),
            KSpec::Count(xs, t, c) => format!("count {} {} {} {c}", xs.len(), join(xs), t.tokens()),
            KSpec::Card(ty, xs, tv, n) => format!("{ty} {} {} {tv} {n}", xs.len(), join(xs)),
            KSpec::Element(arr, i, v) => format!("element {} {} {i} {v}", arr.len(), join(arr)),
            KSpec::Table(xs, ts) => {
                // every row is written as its length followed by its values (rows of another arity
                // than the variable list are legal input: `Table::new` drops them)
                let rows: Vec<String> = ts.iter().map(|t| format!("{} {}", t.len(), join(t)).trim_end().to_string()).collect();
                format!("table {} {} {} {}", xs.len(), join(xs), ts.len(), rows.join(" "))
            }
            KSpec::Ite(cop, cv, cval, top, tv, tval, els) => {
                let e = match els { None => "noelse".to_string(), Some((op, x, v)) => format!("else {op} {x} {v}") };
                format!("ite {cop} {cv} {cval} {top} {tv} {tval} {e}")
            }
        }
    }
    /// variables the constraint mentions
    pub fn vars(&self) -> Vec<usize> {
        let mut v: Vec<usize> = match self {
            KSpec::Leq(x, y) | KSpec::Eq(x, y) | KSpec::Neq(x, y) => x.var().into_iter().chain(y.var()).collect(),
            KSpec::Add(x, y, s) => x.var().into_iter().chain(y.var()).chain(Some(*s)).collect(),
            KSpec::Sum(_, xs, s) => xs.iter().cloned().chain(Some(*s)).collect(),
            KSpec::LinEq(_, xs, _) | KSpec::LinLe(_, xs, _) | KSpec::LinNe(_, xs, _) => xs.clone(),
            KSpec::LinEqR(_, xs, _, b) | KSpec::LinLeR(_, xs, _, b) | KSpec::LinNeR(_, xs, _, b) => xs.iter().cloned().chain(Some(*b)).collect(),
            KSpec::Reif(_, x, y, b) => vec![*x, *y, *b],
            KSpec::And(ops, r) | KSpec::Or(ops, r) | KSpec::Min(ops, r) | KSpec::Max(ops, r) => ops.iter().cloned().chain(Some(*r)).collect(),
            KSpec::Not(o, r) => vec![*o, *r],
            KSpec::Xor(x, y, r) => vec![*x, *y, *r],
            KSpec::Abs(x, s) => x.var().into_iter().chain(Some(*s)).collect(),
            KSpec::Mul(x, y, s) | KSpec::Div(x, y, s) | KSpec::Mod(x, y, s) => x.var().into_iter().chain(y.var()).chain(Some(*s)).collect(),
            KSpec::AllEq(xs) | KSpec::AllDiff(xs) | KSpec::Card(_, xs, _, _) | KSpec::Table(xs, _) => xs.clone(),
            KSpec::Between(l, m, u) => vec![*l, *m, *u],
            KSpec::Count(xs, t, c) => xs.iter().cloned().chain(t.var()).chain(Some(*c)).collect(),
            KSpec::Element(arr, i, v) => arr.iter().cloned().chain([*i, *v]).collect(),
            KSpec::Ite(_, cv, _, _, tv, _, els) => [*cv, *tv].into_iter().chain(els.map(|e| e.1)).collect(),
        };
        v.sort();
        v.dedup();
        v
    }
    /// documented meaning, stated independently of the implementation (i64 arithmetic)
    pub fn holds(&self, a: &[i64]) -> bool {
        let lin = |cs: &Vec<i32>, xs: &Vec<usize>| -> i64 { cs.iter().zip(xs).map(|(c, x)| *c as i64 * a[*x]).sum() };
        let t = |v: i64| v >= 1;
        match self {
            KSpec::Leq(x, y) => x.apply(a) <= y.apply(a),
            KSpec::Eq(x, y) => x.apply(a) == y.apply(a),
            KSpec::Neq(x, y) => x.apply(a) != y.apply(a),
            KSpec::Add(x, y, s) => x.apply(a) + y.apply(a) == a[*s],
            KSpec::Sum(cs, xs, s) => lin(cs, xs) == a[*s],
            KSpec::LinEq(cs, xs, c) => lin(cs, xs) == *c as i64,
            KSpec::LinLe(cs, xs, c) => lin(cs, xs) <= *c as i64,
            KSpec::LinNe(cs, xs, c) => lin(cs, xs) != *c as i64,
            KSpec::LinEqR(cs, xs, c, b) => (a[*b] == 1) == (lin(cs, xs) == *c as i64),
            KSpec::LinLeR(cs, xs, c, b) => (a[*b] == 1) == (lin(cs, xs) <= *c as i64),
            KSpec::LinNeR(cs, xs, c, b) => (a[*b] == 1) == (lin(cs, xs) != *c as i64),
            KSpec::Reif(op, x, y, b) => {
                let (x, y) = (a[*x], a[*y]);
                let r = match *op { "eq" => x == y, "ne" => x != y, "lt" => x < y, "le" => x <= y, "gt" => x > y, _ => x >= y };
                (a[*b] == 1) == r
            }
            KSpec::And(ops, r) => t(a[*r]) == ops.iter().all(|o| t(a[*o])),
            KSpec::Or(ops, r) => t(a[*r]) == ops.iter().any(|o| t(a[*o])),
            KSpec::Not(o, r) => t(a[*r]) == !t(a[*o]),
            KSpec::Xor(x, y, r) => t(a[*r]) == (t(a[*x]) != t(a[*y])),
            KSpec::Abs(x, s) => a[*s] == x.apply(a).abs(),
            KSpec::Min(xs, r) => xs.is_empty() || a[*r] == xs.iter().map(|x| a[*x]).min().unwrap(),
            KSpec::Max(xs, r) => xs.is_empty() || a[*r] == xs.iter().map(|x| a[*x]).max().unwrap(),
            KSpec::Mul(x, y, s) => x.apply(a) * y.apply(a) == a[*s],
            // `/` is real division (`ValI / ValI` is a float in selen): the quotient must be exact
            KSpec::Div(x, y, s) => y.apply(a) != 0 && a[*s] * y.apply(a) == x.apply(a),
            // `%` is Rust's truncated remainder
            KSpec::Mod(x, y, s) => y.apply(a) != 0 && a[*s] == x.apply(a) % y.apply(a),
            KSpec::AllEq(xs) => xs.iter().all(|x| a[*x] == a[xs[0]]),
            // positions pairwise different (a variable listed twice can never differ from itself)
            KSpec::AllDiff(xs) => (0..xs.len()).all(|i| (0..i).all(|j| a[xs[i]] != a[xs[j]])),
            KSpec::Between(l, m, u) => a[*l] <= a[*m] && a[*m] <= a[*u],
            KSpec::Count(xs, t, c) => a[*c] == xs.iter().filter(|x| a[**x] == t.apply(a)).count() as i64,
            KSpec::Card(ty, xs, tv, n) => {
                let k = xs.iter().filter(|x| a[**x] == *tv as i64).count() as i64;
                match *ty { "atleast" => k >= *n as i64, "atmost" => k <= *n as i64, _ => k == *n as i64 }
            }
            KSpec::Element(arr, i, v) => a[*i] >= 0 && (a[*i] as usize) < arr.len() && a[*v] == a[arr[a[*i] as usize]],
            KSpec::Table(xs, ts) => ts.iter().any(|t| t.len() == xs.len() && t.iter().zip(xs).all(|(w, x)| *w as i64 == a[*x])),
            KSpec::Ite(cop, cv, cval, top, tv, tval, els) => {
                if simp_holds(cop, a[*cv], *cval as i64) { simp_holds(top, a[*tv], *tval as i64) }
                else { match els { None => true, Some((op, x, v)) => simp_holds(op, a[*x], *v as i64) } }
            }
        }
    }
    /// kinds whose pinned implementation is known not to check / propagate (listed findings)
    pub fn finding_tag(&self) -> &'static str {
        let doms = CUR_DOMS.with(|d| d.borrow().clone());
        self.finding_tag_in(&doms)
    }
    /// the known-finding matchers, the store-dependent ones evaluated on `doms`
    pub fn finding_tag_in(&self, doms: &[Vec<i32>]) -> &'static str {
        let hull = |v: &VSpec| -> (i64, i64) { let w = v.values(doms); (w.iter().cloned().min().unwrap_or(0), w.iter().cloned().max().unwrap_or(0)) };
        match self {
            KSpec::LinEq(cs, ..) | KSpec::LinLe(cs, ..) | KSpec::LinNe(cs, ..) if cs.iter().all(|c| *c == 0) => "lin-all-zero-coefficients",
            KSpec::LinEqR(cs, ..) | KSpec::LinLeR(cs, ..) | KSpec::LinNeR(cs, ..) if cs.iter().all(|c| *c == 0) => "lin-all-zero-coefficients",
            _ => "-",
        }
    }

    pub fn post(&self, props: &mut Propagators, ids: &[VarId]) -> PropId {
        struct Bin<'a> { props: &'a mut Propagators, ids: &'a [VarId], y: &'a VSpec, kind: u8, s: Option<VarId> }
        impl<'a> ViewK for Bin<'a> {
            type Out = PropId;
            fn call<V: View>(self, x: V) -> PropId {
                struct Bin2<'a, X: View> { props: &'a mut Propagators, x: X, kind: u8, s: Option<VarId> }
                impl<'a, X: View> ViewK for Bin2<'a, X> {
                    type Out = PropId;
                    fn call<Y: View>(self, y: Y) -> PropId {
                        match self.kind {
                            0 => self.props.less_than_or_equals(self.x, y),
                            1 => self.props.equals(self.x, y),
                            2 => self.props.not_equals(self.x, y),
                            4 => self.props.mul(self.x, y, self.s.unwrap()),
                            5 => self.props.div(self.x, y, self.s.unwrap()),
                            6 => self.props.modulo(self.x, y, self.s.unwrap()),
                            _ => self.props.add(self.x, y, self.s.unwrap()),
                        }
                    }
                }
                level1(self.y, self.ids, Bin2 { props: self.props, x, kind: self.kind, s: self.s })
            }
        }
        struct AbsK<'a> { props: &'a mut Propagators, s: VarId }
        impl<'a> ViewK for AbsK<'a> {
            type Out = PropId;
            fn call<V: View>(self, x: V) -> PropId { self.props.abs(x, self.s) }
        }
        struct CountK<'a> { props: &'a mut Propagators, vars: Vec<VarId>, c: VarId }
        impl<'a> ViewK for CountK<'a> {
            type Out = PropId;
            fn call<V: View>(self, t: V) -> PropId { self.props.count_constraint(self.vars, t, self.c) }
        }
        let vs = |xs: &Vec<usize>| -> Vec<VarId> { xs.iter().map(|x| ids[*x]).collect() };
        match self {
            KSpec::Mul(x, y, s) => level1(x, ids, Bin { props, ids, y, kind: 4, s: Some(ids[*s]) }),
            KSpec::Div(x, y, s) => level1(x, ids, Bin { props, ids, y, kind: 5, s: Some(ids[*s]) }),
            KSpec::Mod(x, y, s) => level1(x, ids, Bin { props, ids, y, kind: 6, s: Some(ids[*s]) }),
            KSpec::AllEq(xs) => props.all_equal(vs(xs)),
            KSpec::AllDiff(xs) => props.all_different(vs(xs)),
            KSpec::Between(l, m, u) => props.between_constraint(ids[*l], ids[*m], ids[*u]),
            KSpec::Count(xs, t, c) => level1(t, ids, CountK { props, vars: vs(xs), c: ids[*c] }),
            KSpec::Card(ty, xs, tv, n) => match *ty {
                "atleast" => props.at_least_constraint(vs(xs), *tv, *n),
                "atmost" => props.at_most_constraint(vs(xs), *tv, *n),
                _ => props.exactly_constraint(vs(xs), *tv, *n),
            },
            KSpec::Element(arr, i, v) => props.element(vs(arr), ids[*i], ids[*v]),
            KSpec::Table(xs, ts) => props.table_constraint(vs(xs), ts.iter().map(|t| t.iter().map(|w| Val::ValI(*w)).collect()).collect()),
            KSpec::Ite(cop, cv, cval, top, tv, tval, els) => {
                use selen::constraints::props::conditional::{Condition, SimpleConstraint};
                let simp = |op: &str, x: usize, v: i32| -> SimpleConstraint {
                    let (x, v) = (ids[x], Val::ValI(v));
                    match op {
                        "eq" => SimpleConstraint::Equals(x, v), "ne" => SimpleConstraint::NotEquals(x, v),
                        "gt" => SimpleConstraint::GreaterThan(x, v), "lt" => SimpleConstraint::LessThan(x, v),
                        "ge" => SimpleConstraint::GreaterOrEqual(x, v), _ => SimpleConstraint::LessOrEqual(x, v),
                    }
                };
                let (c, v) = (ids[*cv], Val::ValI(*cval));
                let cond = match *cop { "eq" => Condition::Equals(c, v), "ne" => Condition::NotEquals(c, v), "gt" => Condition::GreaterThan(c, v), _ => Condition::LessThan(c, v) };
                props.if_then_else_constraint(cond, simp(top, *tv, *tval), els.map(|(op, x, v)| simp(op, x, v)))
            }
            KSpec::Leq(x, y) => level1(x, ids, Bin { props, ids, y, kind: 0, s: None }),
            KSpec::Eq(x, y) => level1(x, ids, Bin { props, ids, y, kind: 1, s: None }),
            KSpec::Neq(x, y) => level1(x, ids, Bin { props, ids, y, kind: 2, s: None }),
            KSpec::Add(x, y, s) => level1(x, ids, Bin { props, ids, y, kind: 3, s: Some(ids[*s]) }),
            KSpec::Sum(cs, xs, s) => {
                if cs.iter().all(|c| *c == 1) {
                    props.sum(vs(xs), ids[*s])
                } else {
                    let v: Vec<_> = cs.iter().zip(xs).map(|(c, x)| ids[*x].times(Val::ValI(*c))).collect();
                    props.sum(v, ids[*s])
                }
            }
            KSpec::LinEq(cs, xs, c) => props.int_lin_eq(cs.clone(), vs(xs), *c),
            KSpec::LinLe(cs, xs, c) => props.int_lin_le(cs.clone(), vs(xs), *c),
            KSpec::LinNe(cs, xs, c) => props.int_lin_ne(cs.clone(), vs(xs), *c),
            KSpec::LinEqR(cs, xs, c, b) => props.int_lin_eq_reif(cs.clone(), vs(xs), *c, ids[*b]),
            KSpec::LinLeR(cs, xs, c, b) => props.int_lin_le_reif(cs.clone(), vs(xs), *c, ids[*b]),
            KSpec::LinNeR(cs, xs, c, b) => props.int_lin_ne_reif(cs.clone(), vs(xs), *c, ids[*b]),
            KSpec::Reif(op, x, y, b) => {
                let (x, y, b) = (ids[*x], ids[*y], ids[*b]);
                match *op {
                    "eq" => props.int_eq_reif(x, y, b),
                    "ne" => props.int_ne_reif(x, y, b),
                    "lt" => props.int_lt_reif(x, y, b),
                    "le" => props.int_le_reif(x, y, b),
                    "gt" => props.int_gt_reif(x, y, b),
                    _ => props.int_ge_reif(x, y, b),
                }
            }
            KSpec::And(ops, r) => props.bool_and(vs(ops), ids[*r]),
            KSpec::Or(ops, r) => props.bool_or(vs(ops), ids[*r]),
            KSpec::Not(o, r) => props.bool_not(ids[*o], ids[*r]),
            KSpec::Xor(x, y, r) => props.bool_xor(ids[*x], ids[*y], ids[*r]),
            KSpec::Abs(x, s) => level2(x, ids, AbsK { props, s: ids[*s] }),
            KSpec::Min(xs, r) => props.min(vs(xs), ids[*r]),
            KSpec::Max(xs, r) => props.max(vs(xs), ids[*r]),
        }
    }
}

// ---------------------------------------------------------------------------------------------
// a store of integer variables
// ---------------------------------------------------------------------------------------------

pub struct StoreCase {
    pub vars: Vars,
    pub ids: Vec<VarId>,
}

impl StoreCase {
    pub fn new() -> Self {
        CUR_DOMS.with(|d| d.borrow_mut().clear());
        StoreCase { vars: Vars::new(), ids: vec![] }
    }
    pub fn add_var(&mut self, out: &mut Out, values: &[i32]) {
        CUR_DOMS.with(|d| { let mut v = values.to_vec(); v.sort(); d.borrow_mut().push(v) });
        let id = self.vars.new_var_with_values(values.to_vec());
        self.ids.push(id);
        out.emit(format!("st.var {}", join(values)), format!("var {}", self.ids.len() - 1));
    }
    pub fn dom(&self, i: usize) -> Vec<i32> {
        match &self.vars[self.ids[i]] {
            Var::VarI(s) => { let mut v = s.to_vec(); v.sort(); v }
            Var::VarF(_) => vec![],
        }
    }
    pub fn doms(&self) -> Vec<Vec<i32>> { (0..self.ids.len()).map(|i| self.dom(i)).collect() }
    pub fn show_doms(&self) -> String {
        self.doms().iter().map(|d| show_ints(d)).collect::<Vec<_>>().join("|")
    }
    fn ev_indices(&self, ev: &[VarId]) -> Vec<usize> {
        ev.iter().map(|e| self.ids.iter().position(|i| i == e).unwrap()).collect()
    }
    fn show_res(&self, r: &Option<Vec<VarId>>) -> String {
        match r {
            None => "none".into(),
            Some(ev) => {
                let e: Vec<String> = self.ev_indices(ev).iter().map(|i| i.to_string()).collect();
                format!("some {} ev=[{}]", self.show_doms(), e.join(","))
            }
        }
    }
}

/// all assignments inside `doms` restricted to `vars` (others fixed to their first value)
fn for_each_assignment(doms: &[Vec<i32>], vars: &[usize], f: &mut dyn FnMut(&[i64])) {
    let mut a: Vec<i64> = doms.iter().map(|d| d.first().cloned().unwrap_or(0) as i64).collect();
    fn rec(doms: &[Vec<i32>], vars: &[usize], k: usize, a: &mut Vec<i64>, f: &mut dyn FnMut(&[i64])) {
        if k == vars.len() { f(a); return; }
        for v in &doms[vars[k]] {
            a[vars[k]] = *v as i64;
            rec(doms, vars, k + 1, a, f);
        }
    }
    rec(doms, vars, 0, &mut a, f);
}

/// run one `prune` on the case's store; emits the protocol line and the oracle verdicts
pub fn do_prune(sc: &mut StoreCase, out: &mut Out, k: &KSpec) -> bool {
    let before = sc.doms();
    let kvars = k.vars();
    let line = format!("prune {}", k.tokens());
    let ids = sc.ids.clone();
    let r = guarded(|| {
        let mut props = Propagators::default();
        for _ in &ids { props.on_new_var(); }
        let p = k.post(&mut props, &ids);
        let mut trig: Vec<usize> = vec![];
        for (i, id) in ids.iter().enumerate() {
            if props.on_bound_change(*id).any(|q| q == p) { trig.push(i); }
        }
        let mut events = Vec::new();
        let res = {
            let mut ctx = Context::verif_new(&mut sc.vars, &mut events);
            props.get_state(p).as_ref().prune(&mut ctx)
        };
        (trig, res.map(|_| events))
    });
    let Some((trig, res)) = r else {
        let l = out.emit(line, "panic");
        out.fail(l, "C17", "-", format!("panic in prune {}", k.tokens()));
        return false;
    };
    let t: Vec<String> = trig.iter().map(|i| i.to_string()).collect();
    let l = out.emit(line, format!("trig=[{}] {}", t.join(","), sc.show_res(&res)));
    out.stat(&format!("prune.{}", k.name()));
    // ---- oracle (C05): brute-force supports inside the *previous* domains
    let space: u64 = kvars.iter().map(|v| before[*v].len() as u64).product();
    if space <= 200_000 {
        let mut sols: Vec<Vec<i64>> = Vec::new();
        for_each_assignment(&before, &kvars, &mut |a| if k.holds(a) { sols.push(a.to_vec()) });
        let tag = k.finding_tag_in(&before);
        match &res {
            None => {
                out.stat("prune.result.fail");
                if !sols.is_empty() {
                    out.fail(l, "C05", tag, format!("{}: propagation failed although {:?} satisfies the constraint inside the domains {:?}", k.tokens(), sols[0], before));
                }
            }
            Some(ev) => {
                let after = sc.doms();
                let changed = after != before;
                out.stat(if changed { "prune.result.changed" } else { "prune.result.fixpoint" });
                for i in 0..after.len() {
                    if !after[i].iter().all(|v| before[i].contains(v)) {
                        out.fail(l, "C05", "-", format!("{}: domain of variable {i} grew: {:?} -> {:?}", k.tokens(), before[i], after[i]));
                    }
                    let ch = after[i] != before[i];
                    let evd = sc.ev_indices(ev).contains(&i);
                    if ch && !evd {
                        out.fail(l, "C12", "-", format!("{}: domain of variable {i} changed without an event", k.tokens()));
                    }
                }
                for s in &sols {
                    if let Some(v) = kvars.iter().find(|v| !after[**v].contains(&(s[**v] as i32))) {
                        out.fail(l, "C05", tag, format!("{}: value {} of variable {v} removed although {:?} satisfies the constraint inside {:?}", k.tokens(), s[*v], s, before));
                        break;
                    }
                }
                if kvars.iter().all(|v| before[*v].len() == 1) {
                    out.stat("prune.all-fixed");
                    if sols.is_empty() {
                        out.fail(l, "C05", tag, format!("{}: all variables fixed to a violating tuple {:?} but propagation succeeded", k.tokens(), before));
                    }
                }
                if after.iter().any(|d| d.is_empty()) {
                    out.fail(l, "C05", "-", format!("{}: succeeded with an empty domain", k.tokens()));
                }
            }
        }
    }
    res.is_some()
}

/// `ctx.min` / `ctx.max` through a view; oracle: exact image filter (C12 for plain variables, C13)
pub fn do_ctx(sc: &mut StoreCase, out: &mut Out, is_min: bool, v: &VSpec, m: i32) -> bool {
    struct K<'a> { vars: &'a mut Vars, is_min: bool, m: i32 }
    impl<'a> ViewK for K<'a> {
        type Out = (Option<()>, Vec<VarId>, (Val, Val));
        fn call<V: View>(self, v: V) -> Self::Out {
            let mut events = Vec::new();
            let (mm, r) = {
                let mut ctx = Context::verif_new(self.vars, &mut events);
                let mm = (v.min(&ctx), v.max(&ctx));
                let r = if self.is_min { v.try_set_min(Val::ValI(self.m), &mut ctx) } else { v.try_set_max(Val::ValI(self.m), &mut ctx) };
                (mm, r)
            };
            (r.map(|_| ()), events, mm)
        }
    }
    let before = sc.doms();
    let ids = sc.ids.clone();
    // view.mm first (C13: min/max of the view)
    let line_mm = format!("view.mm {}", v.tokens());
    let line = format!("{} {} {m}", if is_min { "ctx.min" } else { "ctx.max" }, v.tokens());
    let r = guarded(|| level2(v, &ids, K { vars: &mut sc.vars, is_min, m }));
    let Some((res, events, mm)) = r else {
        let l = out.emit(line, "panic");
        out.fail(l, "C17", "-", format!("panic in {}", v.tokens()));
        return false;
    };
    let vi = |x: Val| match x { Val::ValI(i) => i.to_string(), Val::ValF(f) => format!("f{f}") };
    let lmm = out.emit(line_mm, format!("min={} max={}", vi(mm.0), vi(mm.1)));
    let res2 = res.map(|_| events);
    let l = out.emit(line, sc.show_res(&res2));
    out.stat(&format!("ctx.depth{}", v.depth()));
    let prop = if v.depth() == 0 { "C12" } else { "C13" };
    // oracle: image of the domain
    if let Some(x) = v.var() {
        let img: Vec<(i32, i64)> = before[x].iter().map(|w| { let mut a = vec![0i64; before.len()]; a[x] = *w as i64; (*w, v.apply(&a)) }).collect();
        let lo = img.iter().map(|p| p.1).min().unwrap();
        let hi = img.iter().map(|p| p.1).max().unwrap();
        let want_bounds = {
            // the view's min/max are taken over the variable's *bounds*
            let (bl, bh) = (*before[x].first().unwrap(), *before[x].last().unwrap());
            let f = |w: i32| { let mut a = vec![0i64; before.len()]; a[x] = w as i64; v.apply(&a) };
            (f(bl).min(f(bh)), f(bl).max(f(bh)))
        };
        let _ = (lo, hi);
        if vi(mm.0) != want_bounds.0.to_string() || vi(mm.1) != want_bounds.1.to_string() {
            out.fail(lmm, "C13", "-", format!("view {} over {:?}: min/max {}..{} expected {}..{}", v.tokens(), before[x], vi(mm.0), vi(mm.1), want_bounds.0, want_bounds.1));
        }
        let keep: Vec<i32> = img.iter().filter(|p| if is_min { p.1 >= m as i64 } else { p.1 <= m as i64 }).map(|p| p.0).collect();
        match &res2 {
            None => {
                out.stat("ctx.fail");
                if !keep.is_empty() {
                    out.fail(l, prop, "-", format!("{} {} {m} over {:?}: failed although {:?} satisfy the bound", if is_min { "min" } else { "max" }, v.tokens(), before[x], keep));
                }
            }
            Some(ev) => {
                let after = sc.dom(x);
                out.stat(if after != before[x] { "ctx.changed" } else { "ctx.same" });
                if after != keep {
                    out.fail(l, prop, "-", format!("{} {} {m} over {:?}: left {:?}, exactly {:?} satisfy the bound", if is_min { "min" } else { "max" }, v.tokens(), before[x], after, keep));
                }
                let evd = sc.ev_indices(ev).contains(&x);
                if evd != (after != before[x]) {
                    out.fail(l, "C12", "-", format!("{} {m}: event recorded = {evd} but domain changed = {}", v.tokens(), after != before[x]));
                }
                for i in 0..before.len() {
                    if i != x && sc.dom(i) != before[i] {
                        out.fail(l, prop, "-", format!("{}: variable {i} other than the view's changed", v.tokens()));
                    }
                }
            }
        }
    }
    res2.is_some()
}

// ---------------------------------------------------------------------------------------------
// generators
// ---------------------------------------------------------------------------------------------

pub fn rand_dom(r: &mut Rng, lo: i64, hi: i64) -> Vec<i32> {
    let mut d: Vec<i32> = Vec::new();
    match r.below(10) {
        0 | 1 => d.push(r.range(lo, hi) as i32),                    // singleton
        2..=5 => { let a = r.range(lo, hi); let b = r.range(a, hi); d.extend((a..=b).map(|x| x as i32)); } // interval
        _ => { for v in lo..=hi { if r.chance(1, 2) { d.push(v as i32); } } if d.is_empty() { d.push(r.range(lo, hi) as i32); } } // holes
    }
    d
}

pub fn rand_bool_dom(r: &mut Rng) -> Vec<i32> {
    match r.below(4) { 0 => vec![0], 1 => vec![1], _ => vec![0, 1] }
}

pub fn rand_view(r: &mut Rng, nvars: usize, depth: usize) -> VSpec {
    if depth == 0 {
        return if r.chance(1, 8) { VSpec::C(r.range(-4, 4) as i32) } else { VSpec::V(r.below(nvars as u64) as usize) };
    }
    let inner = Box::new(rand_view(r, nvars, depth - 1));
    match r.below(8) {
        0 => VSpec::Opp(inner),
        1 => VSpec::Plus(r.range(-4, 4) as i32, inner),
        2 => VSpec::TPos(r.range(1, 4) as i32, inner),
        3 => VSpec::Times(r.range(-4, 4) as i32, inner),
        4 => VSpec::TNeg(r.range(-4, -1) as i32, inner),
        5 => VSpec::Next(inner),
        6 => VSpec::Prev(inner),
        _ => *inner,
    }
}

/// a view without `Next`/`Prev` (those mistreat the float bounds of mul/div: a separate finding)
pub fn rand_view_nostep(r: &mut Rng, nvars: usize, depth: usize) -> VSpec {
    loop {
        let v = rand_view(r, nvars, depth);
        if !v.has_step() { return v; }
    }
}

fn rand_arith_view(r: &mut Rng, nvars: usize) -> VSpec {
    match r.below(12) {
        0 => rand_view(r, nvars, 1),
        1..=4 => rand_view_nostep(r, nvars, 1),
        _ => rand_view_nostep(r, nvars, 0),
    }
}

fn rand_coeffs(r: &mut Rng, n: usize) -> Vec<i32> {
    (0..n).map(|_| if r.chance(1, 8) { 0 } else { r.range(-3, 3) as i32 }).collect()
}

/// a random kind over variables `0..n` (the boolean ones are the last `nb`)
pub fn rand_kind(r: &mut Rng, n: usize, bools: &[usize]) -> KSpec {
    let v = |r: &mut Rng| r.below(n as u64) as usize;
    let b = |r: &mut Rng| bools[r.below(bools.len() as u64) as usize];
    let vs = |r: &mut Rng, k: usize| -> Vec<usize> { (0..k).map(|_| r.below(n as u64) as usize).collect() };
    let bs = |r: &mut Rng, k: usize| -> Vec<usize> { (0..k).map(|_| bools[r.below(bools.len() as u64) as usize]).collect() };
    let ops = ["eq", "ne", "lt", "le", "gt", "ge"];
    match r.below(43) {
        40..=42 => { let k = r.range(0, 7) as usize; KSpec::AllDiff(vs(r, k)) }
        22 | 23 => KSpec::Mul(rand_arith_view(r, n), rand_arith_view(r, n), v(r)),
        24 | 25 => KSpec::Div(rand_arith_view(r, n), rand_arith_view(r, n), v(r)),
        26 | 27 => KSpec::Mod(rand_arith_view(r, n), rand_arith_view(r, n), v(r)),
        28 => { let k = if r.chance(1, 12) { 0 } else { r.range(1, 4) as usize }; KSpec::AllEq(vs(r, k)) }
        29 => KSpec::Between(v(r), v(r), v(r)),
        30 | 31 => { let k = r.range(0, 4) as usize; let t = if r.chance(1, 2) { VSpec::C(r.range(-2, 3) as i32) } else { rand_view(r, n, 1) }; KSpec::Count(vs(r, k), t, v(r)) }
        32 | 33 => { let k = r.range(0, 4) as usize; KSpec::Card(["atleast", "atmost", "exactly"][r.below(3) as usize], vs(r, k), r.range(-2, 3) as i32, r.range(-1, 4) as i32) }
        34 | 35 => { let k = r.range(0, 4) as usize; KSpec::Element(vs(r, k), v(r), v(r)) }
        36 | 37 => {
            let k = r.range(1, 3) as usize;
            let m = r.range(0, 5) as usize;
            let ts = (0..m).map(|_| {
                // one row in eight has another arity
                let kk = if r.chance(1, 8) { r.range(0, 4) as usize } else { k };
                (0..kk).map(|_| r.range(-4, 5) as i32).collect()
            }).collect();
            KSpec::Table(vs(r, k), ts)
        }
        38 | 39 => {
            let els = if r.chance(1, 2) { None } else { Some((SIMP_OPS[r.below(6) as usize], v(r), r.range(-4, 5) as i32)) };
            KSpec::Ite(COND_OPS[r.below(4) as usize], v(r), r.range(-4, 5) as i32, SIMP_OPS[r.below(6) as usize], v(r), r.range(-4, 5) as i32, els)
        }
        0 | 1 => KSpec::Leq(rand_view(r, n, 1), rand_view(r, n, 1)),
        2 => KSpec::Eq(rand_view(r, n, 1), rand_view(r, n, 1)),
        3 => KSpec::Neq(rand_view(r, n, 1), rand_view(r, n, 1)),
        4 | 5 => KSpec::Add(rand_view(r, n, 1), rand_view(r, n, 1), v(r)),
        6 => { let k = r.range(0, 3) as usize; let cs = if r.chance(1, 2) { vec![1; k] } else { rand_coeffs(r, k) }; KSpec::Sum(cs, vs(r, k), v(r)) }
        7 => { let k = r.range(1, 3) as usize; KSpec::LinEq(rand_coeffs(r, k), vs(r, k), r.range(-8, 8) as i32) }
        8 => { let k = r.range(1, 3) as usize; KSpec::LinLe(rand_coeffs(r, k), vs(r, k), r.range(-8, 8) as i32) }
        9 => { let k = r.range(1, 3) as usize; KSpec::LinNe(rand_coeffs(r, k), vs(r, k), r.range(-8, 8) as i32) }
        10 => { let k = r.range(1, 3) as usize; KSpec::LinEqR(rand_coeffs(r, k), vs(r, k), r.range(-8, 8) as i32, b(r)) }
        11 => { let k = r.range(1, 3) as usize; KSpec::LinLeR(rand_coeffs(r, k), vs(r, k), r.range(-8, 8) as i32, b(r)) }
        12 => { let k = r.range(1, 3) as usize; KSpec::LinNeR(rand_coeffs(r, k), vs(r, k), r.range(-8, 8) as i32, b(r)) }
        13 | 14 => KSpec::Reif(ops[r.below(6) as usize], v(r), v(r), b(r)),
        15 => { let k = r.range(0, 3) as usize; KSpec::And(bs(r, k), b(r)) }
        16 => { let k = r.range(0, 3) as usize; KSpec::Or(bs(r, k), b(r)) }
        17 => KSpec::Not(b(r), b(r)),
        18 => KSpec::Xor(b(r), b(r), b(r)),
        19 => KSpec::Abs(rand_view(r, n, 2), v(r)),
        20 => { let k = r.range(1, 3) as usize; KSpec::Min(vs(r, k), v(r)) }
        _ => { let k = r.range(1, 3) as usize; KSpec::Max(vs(r, k), v(r)) }
    }
}

/// random single prunes and prune / tighten / prune sequences
pub fn suite_prune(out: &mut Out, seed: u64, count: u64) {
    let mut r0 = Rng::new(seed ^ 0xC05);
    for i in 0..count {
        let mut r = r0.fork();
        out.case(&format!("pr{i}"));
        let mut sc = StoreCase::new();
        let n = r.range(2, 4) as usize;
        let (lo, hi) = match r.below(24) { 0..=3 => (-9, 9), 4 => (0, 26), 5 => (1, 14), _ => (-4, 5) };
        if lo >= 0 { out.stat("prune.nonneg-universe"); }
        for _ in 0..n { let d = rand_dom(&mut r, lo, hi); sc.add_var(out, &d); }
        let nb = r.range(1, 3) as usize;
        let mut bools = vec![];
        for _ in 0..nb { let d = rand_bool_dom(&mut r); sc.add_var(out, &d); bools.push(sc.ids.len() - 1); }
        // the non-negative universes exist for the remainder propagator (sampling branches)
        let k = if lo >= 0 && r.chance(2, 3) { KSpec::Mod(rand_view_nostep(&mut r, n, 0), rand_view_nostep(&mut r, n, 0), r.below(n as u64) as usize) } else { rand_kind(&mut r, n, &bools) };
        if out.samples.len() < 3 { out.samples.push(k.tokens()); }
        let rounds = if r.chance(1, 3) { r.range(2, 4) } else { 1 };
        for round in 0..rounds {
            if !do_prune(&mut sc, out, &k) { break; }
            if round + 1 < rounds {
                // external tightening of one of the constraint's variables
                let kv = k.vars();
                if kv.is_empty() { break; }
                let x = kv[r.below(kv.len() as u64) as usize];
                let d = sc.dom(x);
                if d.len() <= 1 { continue; }
                let m = d[r.below(d.len() as u64) as usize];
                if !do_ctx(&mut sc, out, r.chance(1, 2), &VSpec::V(x), m) { break; }
            }
        }
    }
}

/// random bound tightenings through views (C12: depth 0, C13: depth 1..2)
pub fn suite_views(out: &mut Out, seed: u64, count: u64, max_depth: usize) {
    let mut r0 = Rng::new(seed ^ 0xC13);
    for i in 0..count {
        let mut r = r0.fork();
        out.case(&format!("vw{i}"));
        let mut sc = StoreCase::new();
        let n = r.range(1, 2) as usize;
        for _ in 0..n { let d = rand_dom(&mut r, -6, 6); sc.add_var(out, &d); }
        let steps = r.range(1, 4);
        for _ in 0..steps {
            let depth = r.range(0, max_depth as i64) as usize;
            let v = rand_view(&mut r, n, depth);
            let m = r.range(-14, 14) as i32;
            if out.samples.len() < 3 { out.samples.push(format!("{} {m}", v.tokens())); }
            if !do_ctx(&mut sc, out, r.chance(1, 2), &v, m) { break; }
        }
    }
}

/// exhaustive: every view of depth <= 1 with parameters in -3..3 over every domain ⊆ {-3..3}
/// (non-empty) and every bound in -10..10
pub fn suite_views_exhaustive(out: &mut Out, universe: i32, bound: i32) {
    let mut views: Vec<VSpec> = vec![VSpec::V(0)];
    let base = || Box::new(VSpec::V(0));
    views.push(VSpec::Opp(base()));
    views.push(VSpec::Next(base()));
    views.push(VSpec::Prev(base()));
    for k in -3..=3 {
        views.push(VSpec::Plus(k, base()));
        views.push(VSpec::Times(k, base()));
        if k > 0 { views.push(VSpec::TPos(k, base())); }
        if k < 0 { views.push(VSpec::TNeg(k, base())); }
    }
    // a few depth-2 shapes
    for k in [-2, 2, 3] {
        views.push(VSpec::Plus(1, Box::new(VSpec::Times(k, base()))));
        views.push(VSpec::Times(k, Box::new(VSpec::Plus(-1, base()))));
        views.push(VSpec::Opp(Box::new(VSpec::Times(k, base()))));
        views.push(VSpec::Next(Box::new(VSpec::Times(k, base()))));
    }
    let vals: Vec<i32> = (-universe..=universe).collect();
    let mut n = 0u64;
    for mask in 1u32..(1u32 << vals.len()) {
        let d: Vec<i32> = vals.iter().enumerate().filter(|(i, _)| mask & (1 << i) != 0).map(|(_, v)| *v).collect();
        for v in &views {
            for m in -bound..=bound {
                for is_min in [true, false] {
                    out.case(&format!("vx{n}"));
                    n += 1;
                    let mut sc = StoreCase::new();
                    sc.add_var(out, &d);
                    do_ctx(&mut sc, out, is_min, v, m);
                }
            }
        }
    }
    out.stat_n("exhaustive.view-cases", n);
}

/// exhaustive prunes: fixed kind list, all domain tuples over a small universe
pub fn suite_prune_exhaustive(out: &mut Out, universe: i32, shard: u64, shards: u64) {
    let vals: Vec<i32> = (-universe..=universe).collect();
    let doms: Vec<Vec<i32>> = (1u32..(1u32 << vals.len())).map(|mask| vals.iter().enumerate().filter(|(i, _)| mask & (1 << i) != 0).map(|(_, v)| *v).collect()).collect();
    let bdoms: Vec<Vec<i32>> = vec![vec![0], vec![1], vec![0, 1]];
    let v = |i| VSpec::V(i);
    let mut kinds: Vec<(KSpec, Vec<bool>)> = vec![]; // (kind, is-bool per variable)
    kinds.push((KSpec::Leq(v(0), v(1)), vec![false, false]));
    kinds.push((KSpec::Leq(VSpec::Next(Box::new(v(0))), v(1)), vec![false, false]));
    kinds.push((KSpec::Leq(VSpec::Times(2, Box::new(v(0))), VSpec::Plus(-1, Box::new(v(1)))), vec![false, false]));
    kinds.push((KSpec::Leq(VSpec::Times(-2, Box::new(v(0))), v(1)), vec![false, false]));
    kinds.push((KSpec::Eq(v(0), v(1)), vec![false, false]));
    kinds.push((KSpec::Eq(VSpec::Times(2, Box::new(v(0))), v(1)), vec![false, false]));
    kinds.push((KSpec::Add(v(0), v(1), 2), vec![false, false, false]));
    kinds.push((KSpec::Add(v(0), VSpec::TNeg(-1, Box::new(v(1))), 2), vec![false, false, false]));
    kinds.push((KSpec::Sum(vec![1, 1], vec![0, 1], 2), vec![false, false, false]));
    kinds.push((KSpec::Sum(vec![2, -1], vec![0, 1], 2), vec![false, false, false]));
    for (cs, c) in [(vec![1, 1], 1), (vec![2, -3], 1), (vec![-2, 2], -2), (vec![3, 0], 2)] {
        kinds.push((KSpec::LinEq(cs.clone(), vec![0, 1], c), vec![false, false]));
        kinds.push((KSpec::LinLe(cs.clone(), vec![0, 1], c), vec![false, false]));
        kinds.push((KSpec::LinNe(cs.clone(), vec![0, 1], c), vec![false, false]));
        kinds.push((KSpec::LinEqR(cs.clone(), vec![0, 1], c, 2), vec![false, false, true]));
        kinds.push((KSpec::LinLeR(cs.clone(), vec![0, 1], c, 2), vec![false, false, true]));
        kinds.push((KSpec::LinNeR(cs.clone(), vec![0, 1], c, 2), vec![false, false, true]));
    }
    for op in ["eq", "ne", "lt", "le", "gt", "ge"] {
        kinds.push((KSpec::Reif(op, 0, 1, 2), vec![false, false, true]));
    }
    kinds.push((KSpec::And(vec![0, 1], 2), vec![true, true, true]));
    kinds.push((KSpec::Or(vec![0, 1], 2), vec![true, true, true]));
    kinds.push((KSpec::Not(0, 1), vec![true, true]));
    kinds.push((KSpec::Xor(0, 1, 2), vec![true, true, true]));
    kinds.push((KSpec::Abs(v(0), 1), vec![false, false]));
    kinds.push((KSpec::Abs(VSpec::Plus(1, Box::new(v(0))), 1), vec![false, false]));
    kinds.push((KSpec::Min(vec![0, 1], 2), vec![false, false, false]));
    kinds.push((KSpec::Max(vec![0, 1], 2), vec![false, false, false]));
    kinds.push((KSpec::Mul(v(0), v(1), 2), vec![false, false, false]));
    kinds.push((KSpec::Mul(VSpec::Times(-2, Box::new(v(0))), VSpec::Plus(1, Box::new(v(1))), 2), vec![false, false, false]));
    kinds.push((KSpec::Mul(v(0), VSpec::C(-2), 1), vec![false, false]));
    kinds.push((KSpec::Mul(v(0), v(0), 1), vec![false, false]));
    kinds.push((KSpec::Div(v(0), v(1), 2), vec![false, false, false]));
    kinds.push((KSpec::Div(VSpec::Times(2, Box::new(v(0))), VSpec::Plus(2, Box::new(v(1))), 2), vec![false, false, false]));
    kinds.push((KSpec::Div(v(0), VSpec::C(-2), 1), vec![false, false]));
    kinds.push((KSpec::Mod(v(0), v(1), 2), vec![false, false, false]));
    kinds.push((KSpec::Mod(VSpec::Plus(3, Box::new(v(0))), VSpec::Plus(3, Box::new(v(1))), 2), vec![false, false, false]));
    kinds.push((KSpec::Mod(v(0), VSpec::C(2), 1), vec![false, false]));
    kinds.push((KSpec::AllEq(vec![0, 1, 2]), vec![false, false, false]));
    kinds.push((KSpec::AllEq(vec![0]), vec![false]));
    kinds.push((KSpec::AllEq(vec![]), vec![false]));
    kinds.push((KSpec::AllDiff(vec![0, 1]), vec![false, false]));
    kinds.push((KSpec::AllDiff(vec![0, 1, 2]), vec![false, false, false]));
    kinds.push((KSpec::AllDiff(vec![0, 1, 2, 3]), vec![false, false, false, false]));
    kinds.push((KSpec::AllDiff(vec![0, 1, 0]), vec![false, false]));
    kinds.push((KSpec::AllDiff(vec![0]), vec![false]));
    kinds.push((KSpec::Between(0, 1, 2), vec![false, false, false]));
    kinds.push((KSpec::Between(0, 0, 1), vec![false, false]));
    kinds.push((KSpec::Count(vec![0, 1], v(2), 3), vec![false, false, false, false]));
    kinds.push((KSpec::Count(vec![0, 1, 2], VSpec::C(0), 3), vec![false, false, false, false]));
    kinds.push((KSpec::Count(vec![0, 1], v(2), 2), vec![false, false, false]));
    kinds.push((KSpec::Count(vec![0, 1, 0], VSpec::C(1), 1), vec![false, false]));
    for ty in ["atleast", "atmost", "exactly"] {
        for cnt in [0, 1, 2, 3] {
            kinds.push((KSpec::Card(ty, vec![0, 1, 2], 0, cnt), vec![false, false, false]));
        }
        kinds.push((KSpec::Card(ty, vec![0, 1, 0], 1, 2), vec![false, false]));
    }
    kinds.push((KSpec::Element(vec![0, 1], 2, 3), vec![false, false, false, false]));
    kinds.push((KSpec::Element(vec![0, 1, 0], 2, 1), vec![false, false, false]));
    kinds.push((KSpec::Element(vec![0, 1], 0, 1), vec![false, false]));
    kinds.push((KSpec::Table(vec![0, 1], vec![vec![-1, 1], vec![0, 0], vec![1, -1], vec![1, 0]]), vec![false, false]));
    kinds.push((KSpec::Table(vec![0, 1, 2], vec![vec![-1, 0, 1], vec![1, 1, 1], vec![0, -1, 0], vec![1, 0, -1]]), vec![false, false, false]));
    kinds.push((KSpec::Table(vec![0, 0], vec![vec![0, 0], vec![1, -1]]), vec![false]));
    kinds.push((KSpec::Table(vec![0, 1], vec![]), vec![false, false]));
    for cop in COND_OPS {
        for top in SIMP_OPS {
            kinds.push((KSpec::Ite(cop, 0, 0, top, 1, 0, None), vec![false, false]));
            kinds.push((KSpec::Ite(cop, 0, 0, top, 1, 0, Some((SIMP_OPS[(top.len() + cop.len() + top.as_bytes()[0] as usize) % 6], 1, 1))), vec![false, false]));
        }
    }
    kinds.push((KSpec::Ite("eq", 0, 1, "ne", 0, 1, Some(("gt", 1, 0))), vec![false, false]));
    let mut n = 0u64;
    for (k, kinds_bool) in &kinds {
        let choices: Vec<&Vec<Vec<i32>>> = kinds_bool.iter().map(|b| if *b { &bdoms } else { &doms }).collect();
        let mut idx = vec![0usize; choices.len()];
        'outer: loop {
            if n % shards == shard {
                out.case(&format!("px{n}"));
                let mut sc = StoreCase::new();
                for (i, c) in choices.iter().enumerate() { sc.add_var(out, &c[idx[i]]); }
                do_prune(&mut sc, out, k);
            }
            n += 1;
            let mut p = idx.len();
            loop {
                if p == 0 { break 'outer; }
                p -= 1;
                idx[p] += 1;
                if idx[p] < choices[p].len() { break; }
                idx[p] = 0;
            }
        }
    }
    out.stat_n("exhaustive.prune-cases", n / shards);
}

/// replay support
pub fn replay_line(sc: &mut StoreCase, out: &mut Out, line: &str) {
    let ws: Vec<&str> = line.split_whitespace().collect();
    match ws[0] {
        "st.var" => { let vals: Vec<i32> = ws[1..].iter().map(|w| w.parse().unwrap()).collect(); sc.add_var(out, &vals); }
        "prune" => { if let Some(k) = parse_kind(&ws[1..]) { do_prune(sc, out, &k); } }
        "ctx.min" | "ctx.max" => {
            let (v, rest) = parse_view(&ws[1..]).unwrap();
            let m: i32 = rest[0].parse().unwrap();
            do_ctx(sc, out, ws[0] == "ctx.min", &v, m);
        }
        _ => {}
    }
}

pub fn parse_view<'a>(ws: &'a [&'a str]) -> Option<(VSpec, &'a [&'a str])> {
    match ws[0] {
        "c" => Some((VSpec::C(ws[1].parse().ok()?), &ws[2..])),
        "v" => Some((VSpec::V(ws[1].parse().ok()?), &ws[2..])),
        "opp" => { let (v, r) = parse_view(&ws[1..])?; Some((VSpec::Opp(Box::new(v)), r)) }
        "next" => { let (v, r) = parse_view(&ws[1..])?; Some((VSpec::Next(Box::new(v)), r)) }
        "prev" => { let (v, r) = parse_view(&ws[1..])?; Some((VSpec::Prev(Box::new(v)), r)) }
        "plus" => { let k = ws[1].parse().ok()?; let (v, r) = parse_view(&ws[2..])?; Some((VSpec::Plus(k, Box::new(v)), r)) }
        "tpos" => { let k = ws[1].parse().ok()?; let (v, r) = parse_view(&ws[2..])?; Some((VSpec::TPos(k, Box::new(v)), r)) }
        "times" => { let k = ws[1].parse().ok()?; let (v, r) = parse_view(&ws[2..])?; Some((VSpec::Times(k, Box::new(v)), r)) }
        "tneg" => { let k = ws[1].parse().ok()?; let (v, r) = parse_view(&ws[2..])?; Some((VSpec::TNeg(k, Box::new(v)), r)) }
        _ => None,
    }
}

pub fn parse_kind(ws: &[&str]) -> Option<KSpec> {
    let ints = |s: &[&str]| -> Vec<i32> { s.iter().map(|w| w.parse().unwrap()).collect() };
    let nats = |s: &[&str]| -> Vec<usize> { s.iter().map(|w| w.parse().unwrap()).collect() };
    match ws[0] {
        "leq" | "eq" | "neq" => {
            let (x, r) = parse_view(&ws[1..])?;
            let (y, _) = parse_view(r)?;
            Some(match ws[0] { "leq" => KSpec::Leq(x, y), "eq" => KSpec::Eq(x, y), _ => KSpec::Neq(x, y) })
        }
        "add" => { let (x, r) = parse_view(&ws[1..])?; let (y, r) = parse_view(r)?; Some(KSpec::Add(x, y, r[0].parse().ok()?)) }
        "abs" => { let (x, r) = parse_view(&ws[1..])?; Some(KSpec::Abs(x, r[0].parse().ok()?)) }
        "sum" => {
            let n: usize = ws[1].parse().ok()?;
            let mut r = &ws[2..];
            let (mut cs, mut xs) = (vec![], vec![]);
            for _ in 0..n {
                let (v, r2) = parse_view(r)?;
                match v { VSpec::V(i) => { cs.push(1); xs.push(i); } VSpec::Times(c, b) => { cs.push(c); xs.push(b.var()?); } _ => return None }
                r = r2;
            }
            Some(KSpec::Sum(cs, xs, r[0].parse().ok()?))
        }
        "lineq" | "linle" | "linne" | "lineqr" | "linler" | "linner" => {
            let n: usize = ws[1].parse().ok()?;
            let cs = ints(&ws[2..2 + n]);
            let xs = nats(&ws[2 + n..2 + 2 * n]);
            let c: i32 = ws[2 + 2 * n].parse().ok()?;
            Some(match ws[0] {
                "lineq" => KSpec::LinEq(cs, xs, c), "linle" => KSpec::LinLe(cs, xs, c), "linne" => KSpec::LinNe(cs, xs, c),
                "lineqr" => KSpec::LinEqR(cs, xs, c, ws[3 + 2 * n].parse().ok()?),
                "linler" => KSpec::LinLeR(cs, xs, c, ws[3 + 2 * n].parse().ok()?),
                _ => KSpec::LinNeR(cs, xs, c, ws[3 + 2 * n].parse().ok()?),
            })
        }
        "reif" => {
            let op = ["eq", "ne", "lt", "le", "gt", "ge"].into_iter().find(|o| *o == ws[1])?;
            Some(KSpec::Reif(op, ws[2].parse().ok()?, ws[3].parse().ok()?, ws[4].parse().ok()?))
        }
        "and" | "or" | "min" | "max" => {
            let n: usize = ws[1].parse().ok()?;
            let xs = nats(&ws[2..2 + n]);
            let r: usize = ws[2 + n].parse().ok()?;
            Some(match ws[0] { "and" => KSpec::And(xs, r), "or" => KSpec::Or(xs, r), "min" => KSpec::Min(xs, r), _ => KSpec::Max(xs, r) })
        }
        "mul" | "div" | "mod" => {
            let (x, r) = parse_view(&ws[1..])?;
            let (y, r) = parse_view(r)?;
            let s: usize = r[0].parse().ok()?;
            Some(match ws[0] { "mul" => KSpec::Mul(x, y, s), "div" => KSpec::Div(x, y, s), _ => KSpec::Mod(x, y, s) })
        }
        "alleq" => { let n: usize = ws[1].parse().ok()?; Some(KSpec::AllEq(nats(&ws[2..2 + n]))) }
        "alldiff" => { let n: usize = ws[1].parse().ok()?; Some(KSpec::AllDiff(nats(&ws[2..2 + n]))) }
        "between" => Some(KSpec::Between(ws[1].parse().ok()?, ws[2].parse().ok()?, ws[3].parse().ok()?)),
        "count" => {
            let n: usize = ws[1].parse().ok()?;
            let xs = nats(&ws[2..2 + n]);
            let (t, r) = parse_view(&ws[2 + n..])?;
            Some(KSpec::Count(xs, t, r[0].parse().ok()?))
        }
        "atleast" | "atmost" | "exactly" => {
            let ty = ["atleast", "atmost", "exactly"].into_iter().find(|o| *o == ws[0])?;
            let n: usize = ws[1].parse().ok()?;
            Some(KSpec::Card(ty, nats(&ws[2..2 + n]), ws[2 + n].parse().ok()?, ws[3 + n].parse().ok()?))
        }
        "element" => {
            let n: usize = ws[1].parse().ok()?;
            Some(KSpec::Element(nats(&ws[2..2 + n]), ws[2 + n].parse().ok()?, ws[3 + n].parse().ok()?))
        }
        "table" => {
            let n: usize = ws[1].parse().ok()?;
            let xs = nats(&ws[2..2 + n]);
            let m: usize = ws[2 + n].parse().ok()?;
            let mut ts = vec![];
            let mut at = 3 + n;
            for _ in 0..m {
                let len: usize = ws.get(at)?.parse().ok()?;
                ts.push(ints(ws.get(at + 1..at + 1 + len)?));
                at += 1 + len;
            }
            Some(KSpec::Table(xs, ts))
        }
        "ite" => {
            let cop = COND_OPS.into_iter().find(|o| *o == ws[1])?;
            let top = SIMP_OPS.into_iter().find(|o| *o == ws[4])?;
            let els = if ws[7] == "noelse" { None } else { Some((SIMP_OPS.into_iter().find(|o| *o == ws[8])?, ws[9].parse().ok()?, ws[10].parse().ok()?)) };
            Some(KSpec::Ite(cop, ws[2].parse().ok()?, ws[3].parse().ok()?, top, ws[5].parse().ok()?, ws[6].parse().ok()?, els))
        }
        "not" => Some(KSpec::Not(ws[1].parse().ok()?, ws[2].parse().ok()?)),
        "xor" => Some(KSpec::Xor(ws[1].parse().ok()?, ws[2].parse().ok()?, ws[3].parse().ok()?)),
        _ => None,
    }
}

//! Suite `gac` (property C19): the all-different engines `BitSetGAC`, `SparseSetGAC`,
//! `HybridGAC`, the bipartite-graph level (`BipartiteGraph`, `Matching`,
//! `SparseSetAllDiff::propagate`) and the `AllDiff::prune` glue, driven through their public
//! structs.  Every generated op is a text line that is executed by `apply` (so that replay runs
//! exactly the same code).
//!
//! Hash-order dependence of the sparse-set engine: `Matching::find_maximum_matching` iterates
//! `graph.var_domains` (a `HashMap`).  At graph level the harness observes that order
//! (`graph.variables()` on the unmodified map) and passes it to the model (`gac.g.match`,
//! `gac.g.prop`).  Inside `SparseSetGAC::propagate_alldiff` the graph is a temporary, its order is
//! unobservable: the op line carries the observed outcome and the model answers whether SOME
//! order of the key set produces exactly that outcome (`gac.s.prop … | <observed>`).
use crate::out::{b, guarded, show_ints, Out};
use crate::rng::Rng;
use selen::constraints::gac_bitset::BitSetGAC;
use selen::constraints::gac_hybrid::{BipartiteGraph, DomainType, HybridGAC, Matching, Value, Variable};
use selen::constraints::gac_sparseset::{SparseSetAllDiff, SparseSetGAC};
use selen::constraints::props::Propagators;
use selen::variables::views::Context;
use selen::variables::{Var, Vars};
use std::cell::RefCell;
use std::collections::{BTreeMap, BTreeSet};

pub struct Case {
    bg: BitSetGAC,
    sg: SparseSetGAC,
    hg: HybridGAC,
    hkeys: BTreeSet<usize>,
    /// variables of the hybrid engine that were added under both representations
    hboth: BTreeSet<usize>,
    hrep: BTreeMap<usize, bool>,
    graph: BipartiteGraph,
}

impl Case {
    pub fn new() -> Self {
        Case {
            bg: BitSetGAC::new(),
            sg: SparseSetGAC::new(),
            hg: HybridGAC::new(),
            hkeys: BTreeSet::new(),
            hboth: BTreeSet::new(),
            hrep: BTreeMap::new(),
            graph: BipartiteGraph::new(),
        }
    }
}

thread_local! {
    static CASE: RefCell<Case> = RefCell::new(Case::new());
}

/// outcome of a propagate op (for the engines-agree oracle)
#[derive(Clone, Copy, Debug, PartialEq)]
pub enum Flag {
    Consistent,
    Inconsistent,
    Panic,
}

// ---------------------------------------------------------------------------------------------
// printing (mirrors Driver/GacDriver.lean)
// ---------------------------------------------------------------------------------------------

fn opt_int(v: Option<i32>) -> String {
    match v {
        Some(x) => x.to_string(),
        None => "-".into(),
    }
}

fn opt_pair(v: Option<(i32, i32)>) -> String {
    match v {
        Some((a, c)) => format!("{a}..{c}"),
        None => "-".into(),
    }
}

fn show_bg(g: &BitSetGAC) -> String {
    let mut keys: Vec<usize> = g.domains.keys().map(|v| v.0).collect();
    keys.sort();
    let parts: Vec<String> = keys
        .iter()
        .map(|x| {
            let d = &g.domains[&Variable(*x)];
            format!("{x}:{}..{}/{}{}", d.min_universe_value(), d.max_universe_value(), d.universe_size(), show_ints(&d.to_vec()))
        })
        .collect();
    format!("flag={} {}", b(g.domains_changed()), parts.join(" "))
}

fn bg_doms(g: &BitSetGAC) -> BTreeMap<usize, Vec<i32>> {
    g.domains.iter().map(|(k, d)| (k.0, d.to_vec())).collect()
}

fn show_sg(g: &SparseSetGAC) -> String {
    let mut keys: Vec<usize> = g.domains.keys().map(|v| v.0).collect();
    keys.sort();
    let parts: Vec<String> = keys
        .iter()
        .map(|x| {
            let d = &g.domains[&Variable(*x)];
            let mm = if d.is_empty() { "-".to_string() } else { format!("{}..{}", d.min(), d.max()) };
            format!("{x}:off={},n={},{},mm={mm}", d.min_universe_value(), d.universe_size(), show_ints(&d.to_vec()))
        })
        .collect();
    parts.join(" ")
}

fn sg_doms(g: &SparseSetGAC) -> BTreeMap<usize, Vec<i32>> {
    g.domains.iter().map(|(k, d)| (k.0, d.to_vec())).collect()
}

fn show_hg(c: &Case) -> String {
    let (nb, ns) = c.hg.get_stats();
    let parts: Vec<String> = c
        .hkeys
        .iter()
        .map(|x| {
            let v = Variable(*x);
            format!(
                "{x}:{},asg={},val={},inc={},bnd={}",
                show_ints(&c.hg.get_domain_values(v)),
                b(c.hg.is_assigned(v)),
                opt_int(c.hg.assigned_value(v)),
                b(c.hg.is_inconsistent(v)),
                opt_pair(c.hg.get_bounds(v))
            )
        })
        .collect();
    format!("stats={nb},{ns} {}", parts.join(" "))
}

fn hg_doms(c: &Case) -> BTreeMap<usize, Vec<i32>> {
    c.hkeys.iter().map(|x| (*x, c.hg.get_domain_values(Variable(*x)))).collect()
}

fn show_graph(g: &BipartiteGraph) -> String {
    let mut keys: Vec<usize> = g.var_domains.keys().map(|v| v.0).collect();
    keys.sort();
    let parts: Vec<String> = keys
        .iter()
        .map(|x| match &g.var_domains[&Variable(*x)] {
            DomainType::BitSet(d) => format!("{x}:B{}", show_ints(&d.to_vec())),
            DomainType::SparseSet(s) => format!("{x}:S{}", show_ints(&s.to_vec())),
        })
        .collect();
    let mut vals: Vec<i32> = g.value_vars.keys().map(|v| v.0).collect();
    vals.sort();
    let vparts: Vec<String> = vals
        .iter()
        .map(|v| {
            let l: Vec<String> = g.value_vars[&Value(*v)].iter().map(|x| x.0.to_string()).collect();
            format!("{v}->[{}]", l.join(","))
        })
        .collect();
    format!("{} ; {}", parts.join(" "), vparts.join(" "))
}

fn graph_doms(g: &BipartiteGraph) -> BTreeMap<usize, Vec<i32>> {
    g.var_domains.iter().map(|(k, d)| (k.0, d.iter().collect())).collect()
}

fn show_matching(m: &Matching, g: &BipartiteGraph) -> String {
    let mut vs: Vec<(usize, i32)> = m.var_to_val.iter().map(|(k, v)| (k.0, v.0)).collect();
    vs.sort();
    let mut ls: Vec<(i32, usize)> = m.val_to_var.iter().map(|(k, v)| (k.0, v.0)).collect();
    ls.sort();
    let a: Vec<String> = vs.iter().map(|(x, v)| format!("{x}={v}")).collect();
    let c: Vec<String> = ls.iter().map(|(v, x)| format!("{v}={x}")).collect();
    format!("v2l=[{}] l2v=[{}] complete={}", a.join(","), c.join(","), b(m.is_complete(g)))
}

fn removed_list(before: &BTreeMap<usize, Vec<i32>>, after: &BTreeMap<usize, Vec<i32>>) -> String {
    let mut parts = vec![];
    for (x, d) in before {
        let a = after.get(x).cloned().unwrap_or_default();
        for v in d {
            if !a.contains(v) {
                parts.push(format!("{x}:{v}"));
            }
        }
    }
    format!("rm=[{}]", parts.join(","))
}

// ---------------------------------------------------------------------------------------------
// independent oracle: supports of all-different by bipartite matching (Kuhn), cross-checked
// against plain enumeration on small instances
// ---------------------------------------------------------------------------------------------

fn kuhn_try(i: usize, doms: &[Vec<i32>], seen: &mut BTreeSet<i32>, owner: &mut BTreeMap<i32, usize>) -> bool {
    for &v in &doms[i] {
        if seen.insert(v) {
            let free = match owner.get(&v) {
                None => true,
                Some(&j) => kuhn_try(j, doms, seen, owner),
            };
            if free {
                owner.insert(v, i);
                return true;
            }
        }
    }
    false
}

/// is there an assignment of pairwise different values?
fn satisfiable(doms: &[Vec<i32>]) -> bool {
    let mut owner: BTreeMap<i32, usize> = BTreeMap::new();
    for i in 0..doms.len() {
        let mut seen = BTreeSet::new();
        if !kuhn_try(i, doms, &mut seen, &mut owner) {
            return false;
        }
    }
    true
}

fn supported(doms: &[Vec<i32>], i: usize, v: i32) -> bool {
    if !doms[i].contains(&v) {
        return false;
    }
    let d2: Vec<Vec<i32>> = doms
        .iter()
        .enumerate()
        .map(|(j, d)| if j == i { vec![v] } else { d.iter().cloned().filter(|w| *w != v).collect() })
        .collect();
    satisfiable(&d2)
}

/// plain enumeration: set of (position, value) pairs used by some solution
fn brute_supports(doms: &[Vec<i32>]) -> (bool, BTreeSet<(usize, i32)>) {
    fn rec(doms: &[Vec<i32>], k: usize, a: &mut Vec<i32>, sup: &mut BTreeSet<(usize, i32)>, any: &mut bool) {
        if k == doms.len() {
            *any = true;
            for (i, v) in a.iter().enumerate() {
                sup.insert((i, *v));
            }
            return;
        }
        for &v in &doms[k] {
            if !a.contains(&v) {
                a.push(v);
                rec(doms, k + 1, a, sup, any);
                a.pop();
            }
        }
    }
    let mut sup = BTreeSet::new();
    let mut any = false;
    rec(doms, 0, &mut vec![], &mut sup, &mut any);
    (any, sup)
}

/// the property oracle for one propagate call.
/// `vars`: the slice passed to the engine; `before`/`after`: value sets of every known variable.
fn check_prop(out: &mut Out, l: usize, engine: &str, tag: &str, vars: &[usize], before: &BTreeMap<usize, Vec<i32>>, after: &BTreeMap<usize, Vec<i32>>, flag: Flag) {
    // no engine may ever add a value or touch a variable outside the slice
    for (x, d) in after {
        let bd = before.get(x).cloned().unwrap_or_default();
        if d.iter().any(|v| !bd.contains(v)) {
            out.fail(l, "C19", "-", format!("{engine}: domain of variable {x} grew: {bd:?} -> {d:?}"));
        }
        if !vars.contains(x) && {
            let mut a = d.clone();
            a.sort();
            let mut c = bd.clone();
            c.sort();
            a != c
        } {
            out.fail(l, "C19", "-", format!("{engine}: variable {x} outside the constraint changed: {bd:?} -> {d:?}"));
        }
    }
    let distinct: BTreeSet<usize> = vars.iter().cloned().collect();
    if distinct.len() != vars.len() || vars.iter().any(|x| !before.contains_key(x)) {
        out.stat("oracle.vacuous(duplicate-or-unknown-variable)");
        return;
    }
    if flag == Flag::Panic {
        return;
    }
    let doms: Vec<Vec<i32>> = vars.iter().map(|x| before[x].clone()).collect();
    let sat = satisfiable(&doms);
    let space: f64 = doms.iter().map(|d| d.len().max(1) as f64).product();
    let brute = if space <= 5000.0 { Some(brute_supports(&doms)) } else { None };
    if let Some((any, _)) = &brute {
        assert_eq!(*any, sat, "oracle self-check (satisfiable) failed on {doms:?}");
        out.stat("oracle.cross-checked");
    }
    out.stat(if sat { "oracle.satisfiable" } else { "oracle.unsatisfiable" });
    if flag == Flag::Inconsistent {
        if sat {
            out.fail(l, "C19", tag, format!("{engine}: declared inconsistent although {doms:?} (variables {vars:?}) has an assignment of pairwise different values"));
        }
        return;
    }
    let mut lost = vec![];
    for (i, x) in vars.iter().enumerate() {
        let a = &after[x];
        for v in &before[x] {
            if !a.contains(v) {
                let s = supported(&doms, i, *v);
                if let Some((_, sup)) = &brute {
                    assert_eq!(sup.contains(&(i, *v)), s, "oracle self-check (support) failed on {doms:?} {i} {v}");
                }
                if s {
                    lost.push((*x, *v));
                }
            }
        }
    }
    if !lost.is_empty() {
        out.fail(l, "C19", tag, format!("{engine}: removed supported values {lost:?} from {doms:?} (variables {vars:?})"));
    }
}

// ---------------------------------------------------------------------------------------------
// executing one protocol line
// ---------------------------------------------------------------------------------------------

fn ints(ws: &[&str]) -> Option<Vec<i32>> {
    ws.iter().map(|w| w.parse::<i32>().ok()).collect()
}
fn nats(ws: &[&str]) -> Option<Vec<usize>> {
    ws.iter().map(|w| w.parse::<usize>().ok()).collect()
}
fn join<T: ToString>(v: &[T]) -> String {
    v.iter().map(|x| x.to_string()).collect::<Vec<_>>().join(" ")
}

/// run `line` against the implementation; returns the consistency flag of propagate ops
pub fn apply(c: &mut Case, out: &mut Out, line: &str) -> Option<Flag> {
    let ws: Vec<&str> = line.split_whitespace().collect();
    if ws.is_empty() {
        return None;
    }
    let op = ws[0];
    out.stat(&format!("op.{op}"));
    let bad = |out: &mut Out| {
        out.emit(line, "bad-op");
        None
    };
    match op {
        // ------------------------------------------------------------------ BitSetGAC
        "gac.b.new" => {
            c.bg = BitSetGAC::new();
            out.emit(line, "ok");
            None
        }
        "gac.b.add" | "gac.b.addv" => {
            let Some(x) = ws.get(1).and_then(|w| w.parse::<usize>().ok()) else { return bad(out) };
            let Some(v) = ints(&ws[2..]) else { return bad(out) };
            if op == "gac.b.add" && v.len() != 2 {
                return bad(out);
            }
            let mut g = std::mem::replace(&mut c.bg, BitSetGAC::new());
            let r = guarded(move || {
                if op == "gac.b.add" { g.add_variable(Variable(x), v[0], v[1]) } else { g.add_variable_with_values(Variable(x), v) }
                g
            });
            match r {
                Some(g) => {
                    c.bg = g;
                    out.emit(line, show_bg(&c.bg));
                }
                None => {
                    // the panic happens before the map is touched; rebuild is not needed because
                    // `g` was moved: re-create the previous state from the transcript is impossible,
                    // so panicking adds are only generated on a fresh engine
                    let l = out.emit(line, "panic");
                    out.fail(l, "C17", "gac-span-overflow", format!("panic in {line}"));
                }
            }
            None
        }
        "gac.b.rm" | "gac.b.assign" | "gac.b.above" | "gac.b.below" => {
            let (Some(x), Some(v)) = (ws.get(1).and_then(|w| w.parse::<usize>().ok()), ws.get(2).and_then(|w| w.parse::<i32>().ok())) else { return bad(out) };
            if ws.len() != 3 {
                return bad(out);
            }
            let r = match op {
                "gac.b.rm" => c.bg.remove_value(Variable(x), v),
                "gac.b.assign" => c.bg.assign_variable(Variable(x), v),
                "gac.b.above" => c.bg.remove_above(Variable(x), v),
                _ => c.bg.remove_below(Variable(x), v),
            };
            out.emit(line, format!("ret={} {}", b(r), show_bg(&c.bg)));
            None
        }
        "gac.b.q" => {
            let Some(x) = ws.get(1).and_then(|w| w.parse::<usize>().ok()) else { return bad(out) };
            if ws.len() != 2 {
                return bad(out);
            }
            let v = Variable(x);
            out.emit(
                line,
                format!(
                    "size={} asg={} val={} inc={} bnd={} vals={}",
                    c.bg.domain_size(v),
                    b(c.bg.is_assigned(v)),
                    opt_int(c.bg.assigned_value(v)),
                    b(c.bg.is_inconsistent(v)),
                    opt_pair(c.bg.get_bounds(v)),
                    show_ints(&c.bg.get_domain_values(v))
                ),
            );
            None
        }
        "gac.b.prop" => {
            let Some(vars) = nats(&ws[1..]) else { return bad(out) };
            let before = bg_doms(&c.bg);
            let vs: Vec<Variable> = vars.iter().map(|x| Variable(*x)).collect();
            let (ch, ok) = c.bg.propagate_alldiff(&vs);
            let after = bg_doms(&c.bg);
            let l = out.emit(line, format!("ch={} ok={} {} {}", b(ch), b(ok), show_bg(&c.bg), removed_list(&before, &after)));
            let flag = if ok { Flag::Consistent } else { Flag::Inconsistent };
            out.stat(&format!("b.prop.{flag:?}.n{}", vars.len().min(9)));
            if ch {
                out.stat("b.prop.changed");
            }
            check_prop(out, l, "bitset", "-", &vars, &before, &after, flag);
            Some(flag)
        }
        // ------------------------------------------------------------------ SparseSetGAC
        "gac.s.new" => {
            c.sg = SparseSetGAC::new();
            out.emit(line, "ok");
            None
        }
        "gac.s.add" | "gac.s.addv" => {
            let Some(x) = ws.get(1).and_then(|w| w.parse::<usize>().ok()) else { return bad(out) };
            let Some(v) = ints(&ws[2..]) else { return bad(out) };
            if op == "gac.s.add" {
                if v.len() != 2 {
                    return bad(out);
                }
                c.sg.add_variable(Variable(x), v[0], v[1]);
            } else {
                c.sg.add_variable_with_values(Variable(x), v);
            }
            out.emit(line, show_sg(&c.sg));
            None
        }
        "gac.s.rm" | "gac.s.assign" | "gac.s.above" | "gac.s.below" => {
            let (Some(x), Some(v)) = (ws.get(1).and_then(|w| w.parse::<usize>().ok()), ws.get(2).and_then(|w| w.parse::<i32>().ok())) else { return bad(out) };
            if ws.len() != 3 {
                return bad(out);
            }
            let r = match op {
                "gac.s.rm" => c.sg.remove_value(Variable(x), v),
                "gac.s.assign" => c.sg.assign_variable(Variable(x), v),
                "gac.s.above" => c.sg.remove_above(Variable(x), v),
                _ => c.sg.remove_below(Variable(x), v),
            };
            out.emit(line, format!("ret={} {}", b(r), show_sg(&c.sg)));
            None
        }
        "gac.s.prop" => {
            let upto = ws.iter().position(|w| *w == "|").unwrap_or(ws.len());
            let Some(vars) = nats(&ws[1..upto]) else { return bad(out) };
            let before = sg_doms(&c.sg);
            let vs: Vec<Variable> = vars.iter().map(|x| Variable(*x)).collect();
            let sg = &mut c.sg;
            let r = guarded(|| sg.propagate_alldiff(&vs));
            let after = sg_doms(&c.sg);
            let observed = match r {
                Some((ch, ok)) => format!("ch={} ok={} {} {}", b(ch), b(ok), show_sg(&c.sg), removed_list(&before, &after)),
                None => "panic".to_string(),
            };
            let l = out.emit(format!("gac.s.prop {} | {observed}", join(&vars)), format!("member {observed}"));
            let flag = match r {
                Some((_, true)) => Flag::Consistent,
                Some((_, false)) => Flag::Inconsistent,
                None => Flag::Panic,
            };
            out.stat(&format!("s.prop.{flag:?}.n{}", vars.len().min(9)));
            if flag == Flag::Panic {
                out.fail(l, "C17", "sparse-gac-shift-panic", format!("panic in SparseSetGAC::propagate_alldiff({vars:?}) on {before:?}"));
            }
            check_prop(out, l, "sparse", "sparse-gac-unsound", &vars, &before, &after, flag);
            // ---- C16: the same domains in fresh engines (fresh `HashMap`s, other iteration orders)
            if flag != Flag::Panic {
                let canon = |g: &SparseSetGAC, r: (bool, bool)| -> String {
                    let mut d: Vec<(usize, Vec<i32>)> = g.domains.iter().map(|(k, d)| { let mut v = d.to_vec(); v.sort(); (k.0, v) }).collect();
                    d.sort();
                    format!("{r:?} {d:?}")
                };
                let mut outcomes: BTreeSet<String> = BTreeSet::new();
                for _ in 0..6 {
                    let mut g2 = SparseSetGAC::new();
                    for (x, d) in &before {
                        g2.add_variable_with_values(Variable(*x), d.clone());
                    }
                    if let Some(r2) = guarded(|| g2.propagate_alldiff(&vs)) {
                        outcomes.insert(canon(&g2, r2));
                    }
                }
                if outcomes.len() > 1 {
                    out.stat("s.prop.hash-order-dependent");
                    out.fail(l, "C16", "sparse-gac-hash-order", format!("SparseSetGAC::propagate_alldiff({vars:?}) on {before:?} has {} different outcomes in one process: {:?}", outcomes.len(), outcomes));
                }
            }
            Some(flag)
        }
        // ------------------------------------------------------------------ BipartiteGraph level
        "gac.g.new" => {
            c.graph = BipartiteGraph::new();
            out.emit(line, "ok");
            None
        }
        "gac.g.addv" | "gac.g.addr" => {
            let Some(x) = ws.get(1).and_then(|w| w.parse::<usize>().ok()) else { return bad(out) };
            let Some(v) = ints(&ws[2..]) else { return bad(out) };
            if op == "gac.g.addr" {
                if v.len() != 2 {
                    return bad(out);
                }
                c.graph.add_variable_range(Variable(x), v[0], v[1]);
            } else {
                c.graph.add_variable(Variable(x), v);
            }
            out.emit(line, show_graph(&c.graph));
            None
        }
        "gac.g.rm" => {
            let (Some(x), Some(v)) = (ws.get(1).and_then(|w| w.parse::<usize>().ok()), ws.get(2).and_then(|w| w.parse::<i32>().ok())) else { return bad(out) };
            if ws.len() != 3 {
                return bad(out);
            }
            let r = c.graph.remove_value(Variable(x), Value(v));
            out.emit(line, format!("ret={} {}", b(r), show_graph(&c.graph)));
            None
        }
        "gac.g.match" => {
            // the order argument of the line is replaced by the order observed now
            let order: Vec<usize> = c.graph.variables().map(|v| v.0).collect();
            let g = &c.graph;
            let r = guarded(|| Matching::find_maximum_matching(g));
            let res = match &r {
                Some(m) => show_matching(m, &c.graph),
                None => "panic".to_string(),
            };
            let l = out.emit(format!("gac.g.match {}", join(&order)), res);
            if r.is_none() {
                out.stat("g.match.panic");
                out.fail(l, "C17", "sparse-gac-shift-panic", format!("panic in Matching::find_maximum_matching on {:?}", graph_doms(&c.graph)));
            }
            None
        }
        "gac.g.prop" => {
            let order: Vec<usize> = c.graph.variables().map(|v| v.0).collect();
            let before = graph_doms(&c.graph);
            let g = &mut c.graph;
            let r = guarded(|| SparseSetAllDiff::propagate(g));
            let after = graph_doms(&c.graph);
            let res = match r {
                Some(ok) => format!("ok={} {}", b(ok), show_graph(&c.graph)),
                None => "panic".to_string(),
            };
            let l = out.emit(format!("gac.g.prop {}", join(&order)), res);
            let flag = match r {
                Some(true) => Flag::Consistent,
                Some(false) => Flag::Inconsistent,
                None => Flag::Panic,
            };
            out.stat(&format!("g.prop.{flag:?}.n{}", order.len().min(9)));
            if flag == Flag::Panic {
                out.fail(l, "C17", "sparse-gac-shift-panic", format!("panic in SparseSetAllDiff::propagate on {before:?}"));
            }
            let mut vars = order.clone();
            vars.sort();
            check_prop(out, l, "sparse-graph", "sparse-gac-unsound", &vars, &before, &after, flag);
            Some(flag)
        }
        // ------------------------------------------------------------------ HybridGAC
        "gac.h.new" => {
            c.hg = HybridGAC::new();
            c.hkeys.clear();
            c.hboth.clear();
            c.hrep.clear();
            out.emit(line, "ok");
            None
        }
        "gac.h.add" | "gac.h.addv" => {
            let Some(x) = ws.get(1).and_then(|w| w.parse::<usize>().ok()) else { return bad(out) };
            let Some(v) = ints(&ws[2..]) else { return bad(out) };
            if op == "gac.h.add" && v.len() != 2 {
                return bad(out);
            }
            let span: Option<i64> = if op == "gac.h.add" {
                if v[0] <= v[1] { Some(v[1] as i64 - v[0] as i64 + 1) } else { None }
            } else if v.is_empty() {
                None
            } else {
                Some(*v.iter().max().unwrap() as i64 - *v.iter().min().unwrap() as i64 + 1)
            };
            let hg = &mut c.hg;
            let r = guarded(move || if op == "gac.h.add" { hg.add_variable(Variable(x), v[0], v[1]) } else { hg.add_variable_with_values(Variable(x), v) });
            match r {
                Some(Ok(())) => {
                    let bits = span.unwrap_or(0) <= 128;
                    if let Some(prev) = c.hrep.get(&x) {
                        if *prev != bits {
                            c.hboth.insert(x);
                        }
                    }
                    c.hrep.insert(x, bits);
                    c.hkeys.insert(x);
                    out.stat(if bits { "h.add.bitset" } else { "h.add.sparse" });
                    out.emit(line, show_hg(c));
                }
                Some(Err(_)) => {
                    out.stat("h.add.err");
                    out.emit(line, "err");
                }
                None => {
                    let l = out.emit(line, "panic");
                    out.fail(l, "C17", "gac-span-overflow", format!("panic in {line}"));
                }
            }
            None
        }
        "gac.h.rm" | "gac.h.assign" | "gac.h.above" | "gac.h.below" => {
            let (Some(x), Some(v)) = (ws.get(1).and_then(|w| w.parse::<usize>().ok()), ws.get(2).and_then(|w| w.parse::<i32>().ok())) else { return bad(out) };
            if ws.len() != 3 {
                return bad(out);
            }
            let r = match op {
                "gac.h.rm" => c.hg.remove_value(Variable(x), v),
                "gac.h.assign" => c.hg.assign_variable(Variable(x), v),
                "gac.h.above" => c.hg.remove_above(Variable(x), v),
                _ => c.hg.remove_below(Variable(x), v),
            };
            out.emit(line, format!("ret={} {}", b(r), show_hg(c)));
            None
        }
        "gac.h.prop" => {
            let Some(vars) = nats(&ws[1..]) else { return bad(out) };
            let before = hg_doms(c);
            let vs: Vec<Variable> = vars.iter().map(|x| Variable(*x)).collect();
            let (ch, ok) = c.hg.propagate_alldiff(&vs);
            let after = hg_doms(c);
            let l = out.emit(line, format!("ch={} ok={} {} {}", b(ch), b(ok), show_hg(c), removed_list(&before, &after)));
            let flag = if ok { Flag::Consistent } else { Flag::Inconsistent };
            out.stat(&format!("h.prop.{flag:?}.n{}", vars.len().min(9)));
            let mixed = vars.iter().any(|x| c.hrep.get(x) == Some(&true)) && vars.iter().any(|x| c.hrep.get(x) == Some(&false));
            if mixed {
                out.stat("h.prop.mixed-representations");
            }
            let tag = if c.hboth.is_empty() { "-" } else { "hybrid-readd-stale" };
            check_prop(out, l, "hybrid", tag, &vars, &before, &after, flag);
            Some(flag)
        }
        // ------------------------------------------------------------------ AllDiff::prune glue
        "gac.prune" => {
            let Some(v) = ints(&ws[1..]) else { return bad(out) };
            if v.len() % 2 != 0 {
                return bad(out);
            }
            let bounds: Vec<(i32, i32)> = v.chunks(2).map(|p| (p[0], p[1])).collect();
            if bounds.iter().any(|(lo, hi)| lo > hi) {
                // interval variables only (an empty interval cannot be created through `Vars`)
                return bad(out);
            }
            let r = guarded(|| {
                let mut vars = Vars::new();
                let ids: Vec<_> = bounds.iter().map(|(lo, hi)| vars.new_var_with_values((*lo..=*hi).collect())).collect();
                let mut props = Propagators::default();
                for _ in &ids {
                    props.on_new_var();
                }
                let p = props.all_different(ids.clone());
                let mut events = Vec::new();
                let res = {
                    let mut ctx = Context::verif_new(&mut vars, &mut events);
                    props.get_state(p).as_ref().prune(&mut ctx)
                };
                res.map(|_| {
                    ids.iter()
                        .map(|id| match &vars[*id] {
                            Var::VarI(s) => (s.min(), s.max()),
                            Var::VarF(_) => (0, -1),
                        })
                        .collect::<Vec<(i32, i32)>>()
                })
            });
            let Some(res) = r else {
                let l = out.emit(line, "panic");
                out.fail(l, "C17", "-", format!("panic in {line}"));
                return None;
            };
            let text = match &res {
                None => "none".to_string(),
                Some(bs) => format!("some {}", bs.iter().map(|(a, c)| format!("{a}..{c}")).collect::<Vec<_>>().join(" ")),
            };
            let l = out.emit(line, text);
            let doms: Vec<Vec<i32>> = bounds.iter().map(|(lo, hi)| (*lo..=*hi).collect()).collect();
            let sat = satisfiable(&doms);
            match &res {
                None => {
                    out.stat("prune.none");
                    if sat {
                        out.fail(l, "C19", "-", format!("AllDiff::prune failed although {bounds:?} has a solution"));
                    }
                }
                Some(bs) => {
                    out.stat(if *bs == bounds { "prune.fixpoint" } else { "prune.changed" });
                    for (i, (nlo, nhi)) in bs.iter().enumerate() {
                        if *nlo < bounds[i].0 || *nhi > bounds[i].1 {
                            out.fail(l, "C19", "-", format!("AllDiff::prune widened variable {i}: {:?} -> {:?}", bounds[i], (nlo, nhi)));
                        }
                        for v in bounds[i].0..=bounds[i].1 {
                            if (v < *nlo || v > *nhi) && supported(&doms, i, v) {
                                out.fail(l, "C19", "-", format!("AllDiff::prune cut the supported value {v} of variable {i} from {bounds:?}"));
                                break;
                            }
                        }
                    }
                }
            }
            None
        }
        _ => bad(out),
    }
}

/// replay of one protocol line of this suite inside the current case
pub fn replay_line(out: &mut Out, line: &str) {
    CASE.with(|c| {
        apply(&mut c.borrow_mut(), out, line);
    });
}

// ---------------------------------------------------------------------------------------------
// generators
// ---------------------------------------------------------------------------------------------

#[derive(Clone, Debug)]
enum Dom {
    Range(i32, i32),
    Values(Vec<i32>),
}

impl Dom {
    fn values(&self) -> Vec<i32> {
        match self {
            Dom::Range(a, c) => (*a..=*c).collect(),
            Dom::Values(v) => {
                let s: BTreeSet<i32> = v.iter().cloned().collect();
                s.into_iter().collect()
            }
        }
    }
    fn span(&self) -> i64 {
        let v = self.values();
        if v.is_empty() { 0 } else { (v[v.len() - 1] - v[0]) as i64 + 1 }
    }
    fn add_line(&self, prefix: &str, x: usize) -> String {
        match self {
            Dom::Range(a, c) => format!("gac.{prefix}.add {x} {a} {c}"),
            Dom::Values(v) => format!("gac.{prefix}.addv {x} {}", join(v)),
        }
    }
    fn graph_line(&self, x: usize) -> String {
        match self {
            Dom::Range(a, c) => format!("gac.g.addr {x} {a} {c}"),
            Dom::Values(v) => format!("gac.g.addv {x} {}", join(v)),
        }
    }
}

/// does `SparseSetGAC` take the bit-set BFS (and panic on values outside 0..128)?
fn sparse_small(doms: &[Dom]) -> bool {
    let all: BTreeSet<i32> = doms.iter().flat_map(|d| d.values()).collect();
    doms.len() <= 64 && all.len() <= 128
}

/// build the family in every engine, propagate, compare the consistency flags
fn family(c: &mut Case, out: &mut Out, ids: &[usize], doms: &[Dom], engines: &str) {
    let vars = join(ids);
    let mut flags: Vec<(&str, Flag)> = vec![];
    let all_small = doms.iter().all(|d| d.span() <= 128);
    if engines.contains('b') && all_small {
        apply(c, out, "gac.b.new");
        for (x, d) in ids.iter().zip(doms) {
            apply(c, out, &d.add_line("b", *x));
        }
        if let Some(f) = apply(c, out, &format!("gac.b.prop {vars}")) {
            flags.push(("bitset", f));
        }
    }
    if engines.contains('h') {
        apply(c, out, "gac.h.new");
        for (x, d) in ids.iter().zip(doms) {
            apply(c, out, &d.add_line("h", *x));
        }
        if let Some(f) = apply(c, out, &format!("gac.h.prop {vars}")) {
            flags.push(("hybrid", f));
        }
    }
    if engines.contains('s') && ids.len() <= 5 {
        apply(c, out, "gac.s.new");
        for (x, d) in ids.iter().zip(doms) {
            apply(c, out, &d.add_line("s", *x));
        }
        if let Some(f) = apply(c, out, &format!("gac.s.prop {vars}")) {
            flags.push(("sparse", f));
        }
    }
    if engines.contains('g') {
        apply(c, out, "gac.g.new");
        for (x, d) in ids.iter().zip(doms) {
            apply(c, out, &d.graph_line(*x));
        }
        apply(c, out, "gac.g.match");
        if let Some(f) = apply(c, out, "gac.g.prop") {
            flags.push(("sparse-graph", f));
        }
    }
    // ---- oracle: the engines agree on consistency
    let l = out.ops.len() - 1;
    let seen: BTreeSet<bool> = flags.iter().filter(|(_, f)| *f != Flag::Panic).map(|(_, f)| *f == Flag::Consistent).collect();
    if seen.len() > 1 {
        let dv: Vec<Vec<i32>> = doms.iter().map(|d| d.values()).collect();
        let sat = satisfiable(&dv);
        // with a solution, the engine that said "inconsistent" is already reported by its own
        // soundness oracle; without one, the engine that said "consistent" is merely incomplete
        let tag = if !sat { "engines-disagree-incomplete" } else if flags.iter().any(|(e, f)| e.starts_with("sparse") && *f == Flag::Inconsistent) { "sparse-gac-unsound" } else { "-" };
        out.fail(l, "C19", tag, format!("engines disagree on consistency of {dv:?}: {flags:?} (satisfiable: {sat})"));
        out.stat("agree.disagree");
    } else if flags.len() > 1 {
        out.stat("agree.agree");
    }
}

fn small_dom(r: &mut Rng, off: i32, width: i32) -> Dom {
    // a non-empty subset of [off, off+width)
    match r.below(10) {
        0 => Dom::Values(vec![off + r.below(width as u64) as i32]),
        1 | 2 => {
            let a = r.below(width as u64) as i32;
            let c = r.range(a as i64, width as i64 - 1) as i32;
            Dom::Range(off + a, off + c)
        }
        _ => {
            let mut v: Vec<i32> = (0..width).filter(|_| r.chance(1, 2)).map(|k| off + k).collect();
            if v.is_empty() {
                v.push(off + r.below(width as u64) as i32);
            }
            if r.chance(1, 4) {
                // unsorted with a duplicate
                v.reverse();
                let d = v[0];
                v.push(d);
            }
            Dom::Values(v)
        }
    }
}

fn big_dom(r: &mut Rng, off: i32) -> Dom {
    match r.below(6) {
        0 => {
            // sizes exactly 127 / 128 / 129 / 130
            let n = *r.pick(&[127, 128, 129, 130]);
            let lo = off - r.below(3) as i32;
            Dom::Range(lo, lo + n - 1)
        }
        1 => {
            let n = r.range(131, 260) as i32;
            let lo = off - r.below(20) as i32;
            Dom::Range(lo, lo + n - 1)
        }
        2 => {
            // few values spanning >= 128 integers
            let mut v = vec![off + r.below(4) as i32, off + 127 + r.below(40) as i32];
            for _ in 0..r.below(3) {
                v.push(off + r.below(160) as i32);
            }
            Dom::Values(v)
        }
        3 => {
            // value list whose span is exactly 127 / 128 / 129 / 130
            let n = *r.pick(&[127, 128, 129, 130]);
            let mut v = vec![off, off + n - 1];
            for _ in 0..r.below(4) {
                v.push(off + r.below(n as u64) as i32);
            }
            Dom::Values(v)
        }
        4 => {
            // more than 128 values as a list with holes
            let n = r.range(140, 200) as i32;
            let hole = r.below(n as u64) as i32;
            Dom::Values((0..n).filter(|k| *k != hole && k % 17 != 3).map(|k| off + k).collect())
        }
        _ => Dom::Range(off, off + r.range(60, 126) as i32),
    }
}

fn random_family(r: &mut Rng, out: &mut Out) -> (Vec<usize>, Vec<Dom>) {
    let n = match r.below(10) {
        0 => 2,
        1 | 2 => 3,
        3 | 4 => 4,
        5 => 5,
        6 => 6,
        7 => 7,
        _ => 8,
    } as usize;
    let profile = r.below(10);
    let off: i32 = match r.below(20) {
        0 => -3,
        1 => -100,
        2 | 3 | 4 => 1,
        5 => 125,
        6 => 1000,
        _ => 0,
    };
    out.stat(&format!("family.n{n}"));
    out.stat(&format!("family.off{off}"));
    let width = r.range((n as i64 - 2).max(1), n as i64 + 2) as i32;
    let mut doms = vec![];
    for _ in 0..n {
        let d = if profile >= 6 && r.chance(1, 3) { big_dom(r, off) } else { small_dom(r, off, width) };
        out.stat(match (&d, d.span() > 128) {
            (Dom::Range(..), false) => "dom.range.small",
            (Dom::Range(..), true) => "dom.range.big",
            (Dom::Values(..), false) => "dom.values.small",
            (Dom::Values(..), true) => "dom.values.big",
        });
        doms.push(d);
    }
    // variable ids: mostly 0..n, sometimes scattered (node ids of the bit matrix are raw ids)
    let ids: Vec<usize> = if r.chance(1, 5) {
        let f = *r.pick(&[3usize, 3, 10]);
        (0..n).map(|i| i * f + r.below(f as u64) as usize).collect()
    } else {
        (0..n).collect()
    };
    (ids, doms)
}

/// a random sequence on one engine: propagate, remove / assign / cut, propagate again
fn sequence(c: &mut Case, out: &mut Out, r: &mut Rng, prefix: &str, ids: &[usize], doms: &[Dom], malformed: bool) {
    apply(c, out, &format!("gac.{prefix}.new"));
    for (x, d) in ids.iter().zip(doms) {
        let l = if prefix == "g" { d.graph_line(*x) } else { d.add_line(prefix, *x) };
        apply(c, out, &l);
    }
    let universe: Vec<i32> = doms.iter().flat_map(|d| d.values()).collect();
    let steps = r.range(3, 8);
    for _ in 0..steps {
        let x = *r.pick(ids);
        let v = if r.chance(1, 8) { *r.pick(&universe) + r.range(-2, 2) as i32 } else { *r.pick(&universe) };
        let x = if malformed && r.chance(1, 6) { x + 50 } else { x };
        match r.below(10) {
            0..=3 => {
                // propagate on all or on a sub-slice
                let mut vs: Vec<usize> = if r.chance(2, 3) { ids.to_vec() } else { ids.iter().cloned().filter(|_| r.chance(2, 3)).collect() };
                if r.chance(1, 4) {
                    // a different order of the slice
                    vs.reverse();
                }
                if malformed && r.chance(1, 3) && !vs.is_empty() {
                    if r.chance(1, 2) { vs.push(vs[0]) } else { vs.push(99) }
                }
                if prefix == "g" {
                    apply(c, out, "gac.g.match");
                    apply(c, out, "gac.g.prop");
                } else if prefix == "s" {
                    let distinct: BTreeSet<usize> = vs.iter().cloned().collect();
                    if distinct.len() <= 5 {
                        apply(c, out, &format!("gac.s.prop {}", join(&vs)));
                    }
                } else {
                    apply(c, out, &format!("gac.{prefix}.prop {}", join(&vs)));
                }
            }
            4..=6 => {
                apply(c, out, &format!("gac.{prefix}.rm {x} {v}"));
            }
            7 if prefix != "g" => {
                apply(c, out, &format!("gac.{prefix}.assign {x} {v}"));
            }
            8 if prefix != "g" => {
                apply(c, out, &format!("gac.{prefix}.above {x} {v}"));
            }
            9 if prefix != "g" => {
                apply(c, out, &format!("gac.{prefix}.below {x} {v}"));
            }
            _ => {
                apply(c, out, &format!("gac.{prefix}.rm {x} {v}"));
            }
        }
        if prefix == "b" && r.chance(1, 4) {
            apply(c, out, &format!("gac.b.q {x}"));
        }
    }
}

fn exhaustive(out: &mut Out, nvars: usize, nvals: i32, off: i32, shard: u64, shards: u64) {
    // every family of `k <= nvars` non-empty subsets of [off, off+nvals)
    let subsets: Vec<Vec<i32>> = (1u32..(1 << nvals)).map(|m| (0..nvals).filter(|k| m & (1 << k) != 0).map(|k| off + k).collect()).collect();
    let mut c = Case::new();
    let mut idx: u64 = 0;
    for k in 2..=nvars {
        let mut sel = vec![0usize; k];
        loop {
            if idx % shards == shard {
                out.case(&format!("exh-{k}-{idx}"));
                let doms: Vec<Dom> = sel.iter().map(|s| Dom::Values(subsets[*s].clone())).collect();
                let ids: Vec<usize> = (0..k).collect();
                family(&mut c, out, &ids, &doms, "bhsg");
            }
            idx += 1;
            // next tuple
            let mut p = k;
            loop {
                if p == 0 {
                    break;
                }
                p -= 1;
                sel[p] += 1;
                if sel[p] < subsets.len() {
                    break;
                }
                sel[p] = 0;
                if p == 0 {
                    p = usize::MAX;
                    break;
                }
            }
            if p == usize::MAX {
                break;
            }
        }
    }
}

fn arg(args: &[String], name: &str, default: &str) -> String {
    args.iter().position(|a| a == name).and_then(|i| args.get(i + 1)).cloned().unwrap_or_else(|| default.to_string())
}

pub fn suite(out: &mut Out, seed: u64, count: u64, args: &[String]) {
    if args.iter().any(|a| a == "--exh") {
        // `gac --exh --universe <vals> --vars <n> [--offset o] [--shard i --shards k]`
        let nvals: i32 = arg(args, "--universe", "4").parse().unwrap();
        let nvars: usize = arg(args, "--vars", "3").parse().unwrap();
        let off: i32 = arg(args, "--offset", "0").parse().unwrap();
        let shard: u64 = arg(args, "--shard", "0").parse().unwrap();
        let shards: u64 = arg(args, "--shards", "1").parse().unwrap();
        exhaustive(out, nvars, nvals, off, shard, shards);
        return;
    }
    let mut root = Rng::new(seed ^ 0x6AC0_19C1_9A11_D1FF);
    let mut c = Case::new();
    for i in 0..count {
        let mut r = root.fork();
        out.case(&format!("gac-{seed}-{i}"));
        match r.below(20) {
            0..=7 => {
                // the same family in all engines
                let (ids, doms) = random_family(&mut r, out);
                if sparse_small(&doms) && doms.iter().flat_map(|d| d.values()).any(|v| !(0..128).contains(&v)) {
                    out.stat("family.sparse-bitset-bfs-with-values-outside-0..128");
                }
                family(&mut c, out, &ids, &doms, "bhsg");
            }
            8..=10 => {
                let (ids, doms) = random_family(&mut r, out);
                let small: Vec<Dom> = doms.into_iter().map(|d| if d.span() > 128 { Dom::Range(0, 3) } else { d }).collect();
                sequence(&mut c, out, &mut r, "b", &ids, &small, false);
            }
            11..=13 => {
                let (ids, doms) = random_family(&mut r, out);
                sequence(&mut c, out, &mut r, "h", &ids, &doms, false);
            }
            14 | 15 => {
                let (ids, doms) = random_family(&mut r, out);
                sequence(&mut c, out, &mut r, "s", &ids, &doms, false);
            }
            16 => {
                let (ids, doms) = random_family(&mut r, out);
                sequence(&mut c, out, &mut r, "g", &ids, &doms, false);
            }
            17 | 18 => {
                // AllDiff::prune on interval domains
                let n = r.range(2, 7) as usize;
                let off = *r.pick(&[0, -5, 100]);
                let w = r.range((n as i64 - 1).max(1), n as i64 + 3) as i32;
                let mut bs = vec![];
                for _ in 0..n {
                    if r.chance(1, 8) {
                        let lo = off - r.below(5) as i32;
                        bs.push((lo, lo + *r.pick(&[126, 127, 128, 129, 150])));
                    } else {
                        let a = off + r.below(w as u64) as i32;
                        let c2 = r.range(a as i64, (off + w - 1) as i64) as i32;
                        bs.push((a, c2));
                    }
                }
                let flat: Vec<String> = bs.iter().map(|(a, c2)| format!("{a} {c2}")).collect();
                apply(&mut c, out, &format!("gac.prune {}", flat.join(" ")));
            }
            _ => {
                // malformed stream: unknown variables, duplicates in the slice, re-added variables
                // (possibly under the other representation), reversed / empty / overflowing ranges
                out.stat("malformed");
                let (ids, doms) = random_family(&mut r, out);
                match r.below(5) {
                    0 => sequence(&mut c, out, &mut r, "b", &ids, &doms, true),
                    1 => sequence(&mut c, out, &mut r, "h", &ids, &doms, true),
                    2 => {
                        apply(&mut c, out, "gac.h.new");
                        apply(&mut c, out, "gac.h.add 0 5 1");
                        apply(&mut c, out, "gac.h.addv 0");
                        apply(&mut c, out, "gac.h.add 1 -2147483648 2147483647");
                        apply(&mut c, out, "gac.h.add 0 0 200");
                        apply(&mut c, out, "gac.h.assign 0 7");
                        apply(&mut c, out, "gac.h.add 0 1 5");
                        apply(&mut c, out, "gac.h.add 2 5 9");
                        apply(&mut c, out, "gac.h.prop 0 2");
                        apply(&mut c, out, "gac.h.prop");
                        apply(&mut c, out, "gac.h.prop 7");
                    }
                    3 => {
                        apply(&mut c, out, "gac.b.new");
                        apply(&mut c, out, "gac.b.add 0 5 1");
                        apply(&mut c, out, "gac.b.addv 1");
                        apply(&mut c, out, "gac.b.add 2 0 128");
                        apply(&mut c, out, "gac.b.add 3 0 127");
                        apply(&mut c, out, "gac.b.addv 4 0 200");
                        apply(&mut c, out, "gac.b.q 2");
                        apply(&mut c, out, "gac.b.q 9");
                        apply(&mut c, out, "gac.b.prop 0 1 2 3 4");
                        apply(&mut c, out, "gac.b.prop 0");
                        apply(&mut c, out, "gac.b.prop 0 0");
                        apply(&mut c, out, "gac.b.new");
                        apply(&mut c, out, "gac.b.add 0 -2147483648 2147483647");
                    }
                    _ => {
                        apply(&mut c, out, "gac.g.new");
                        apply(&mut c, out, "gac.g.addr 0 5 1");
                        apply(&mut c, out, "gac.g.addr 1 3 2");
                        apply(&mut c, out, "gac.g.addv 2");
                        apply(&mut c, out, "gac.g.addv 70 1 2");
                        apply(&mut c, out, "gac.g.addv 2 1 1 2");
                        apply(&mut c, out, "gac.g.rm 2 1");
                        apply(&mut c, out, "gac.g.match");
                        apply(&mut c, out, "gac.g.prop");
                        apply(&mut c, out, "gac.s.new");
                        apply(&mut c, out, "gac.s.add 0 3 1");
                        apply(&mut c, out, "gac.s.addv 1");
                        apply(&mut c, out, "gac.s.prop 0 1");
                        apply(&mut c, out, "gac.s.prop 0 0");
                        apply(&mut c, out, "gac.s.prop 5 6");
                    }
                }
            }
        }
    }
}

//! Transcript of one harness run: protocol lines, implementation results,
//! oracle verdicts and the input distribution.
use std::collections::BTreeMap;
use std::fmt::Write as _;

#[derive(Default)]
pub struct Out {
    pub ops: Vec<String>,
    pub imp: Vec<String>,
    /// (line index, property, tag, detail): the implementation-side oracle found the
    /// property violated at that line.  `tag` names a known-finding matcher or "-".
    pub oracle: Vec<(usize, String, String, String)>,
    pub stats: BTreeMap<String, u64>,
    pub samples: Vec<String>,
}

impl Out {
    pub fn emit(&mut self, op: impl Into<String>, res: impl Into<String>) -> usize {
        self.ops.push(op.into());
        self.imp.push(res.into());
        self.ops.len() - 1
    }
    pub fn case(&mut self, id: &str) {
        self.emit(format!("case {id}"), "-");
        self.stat("cases");
    }
    pub fn fail(&mut self, line: usize, prop: &str, tag: &str, detail: impl Into<String>) {
        self.oracle.push((line, prop.to_string(), tag.to_string(), detail.into()));
    }
    pub fn stat(&mut self, k: &str) {
        *self.stats.entry(k.to_string()).or_insert(0) += 1;
    }
    pub fn stat_n(&mut self, k: &str, n: u64) {
        *self.stats.entry(k.to_string()).or_insert(0) += n;
    }
    /// keep only the case `id` (used to replay one generated case of an oracle-only stream)
    pub fn restrict(&mut self, id: &str) {
        let want = format!("case {id}");
        let start = match self.ops.iter().position(|o| *o == want) { Some(s) => s, None => { self.ops.clear(); self.imp.clear(); self.oracle.clear(); return; } };
        let end = self.ops[start + 1..].iter().position(|o| o.starts_with("case ")).map(|e| start + 1 + e).unwrap_or(self.ops.len());
        self.ops = self.ops[start..end].to_vec();
        self.imp = self.imp[start..end].to_vec();
        self.oracle = self.oracle.iter().filter(|o| o.0 >= start && o.0 < end).map(|o| (o.0 - start, o.1.clone(), o.2.clone(), o.3.clone())).collect();
    }
    pub fn write(&self, dir: &str, suite: &str) -> std::io::Result<()> {
        std::fs::create_dir_all(dir)?;
        std::fs::write(format!("{dir}/{suite}.ops"), self.ops.join("\n") + "\n")?;
        std::fs::write(format!("{dir}/{suite}.impl"), self.imp.join("\n") + "\n")?;
        let mut o = String::new();
        for (l, p, t, d) in &self.oracle {
            let _ = writeln!(o, "{l}\t{p}\t{t}\t{d}");
        }
        std::fs::write(format!("{dir}/{suite}.oracle"), o)?;
        let mut s = String::from("{");
        let mut first = true;
        for (k, v) in &self.stats {
            if !first {
                s.push(',');
            }
            first = false;
            let _ = write!(s, "\"{k}\":{v}");
        }
        s.push('}');
        std::fs::write(format!("{dir}/{suite}.stats.json"), s)?;
        Ok(())
    }
}

pub fn show_ints(v: &[i32]) -> String {
    let mut s = String::from("[");
    for (i, x) in v.iter().enumerate() {
        if i > 0 {
            s.push(',');
        }
        let _ = write!(s, "{x}");
    }
    s.push(']');
    s
}

pub fn b(x: bool) -> &'static str {
    if x { "1" } else { "0" }
}

/// run `f`, mapping a panic to `None`
pub fn guarded<T>(f: impl FnOnce() -> T) -> Option<T> {
    std::panic::catch_unwind(std::panic::AssertUnwindSafe(f)).ok()
}

//! API-level differential oracle (C01–C04, C10, C14, C17): random small integer/boolean models are
//! posted through the *public* selen API (fluent expressions, result-variable functions, globals,
//! reified / boolean / linear helpers), solved with solve / enumerate / minimize / maximize /
//! *_and_iterate, and compared with an independent brute-force evaluator of the documented meaning.
//!
//! Semantics assumed by the oracle (doc reference in brackets):
//! * `/` (fluent `div`, `Model::div`): real (rational) division, divisor must be non-zero
//!   [api/arithmetic.rs `div`: "x / y (division) ... The solver will ensure y ≠ 0"; nothing says
//!   "integer division", and `Model::div` returns a float result variable] — mathematical reading.
//! * `%`: Rust's truncated remainder `x % y` (sign of the dividend) [README "remainder = x % y",
//!   docs/development/VAR_TO_VAR_EQUALITY_TESTS.md "Rust's modulo behavior with negative numbers
//!   (-25 % 6 = -1)"].  The doc comment of `Model::modulo` in api/arithmetic.rs gives result ranges
//!   ("y > 0: [0, y-1]; y < 0: [y+1, 0]") that only fit this for non-negative dividends and positive
//!   divisors (the propagator applied those ranges and lost the mixed-sign cases until the `fix:`
//!   commits 1585566 / 49b880e / 12c54d2; former matchers `modulo-negative`, `modulo-*-boundary-sampling`).
//! * `element`: 0-based, `value = array[index]`, an index outside the array violates the constraint
//!   [api/global.rs `element`, functions.rs `element`: "The `index` is 0-based"].
//! * `count(vars, t, c)`: `c = #{i | vars[i] = t}`; `gcc`: one `count` per listed value;
//!   `at_least/at_most/exactly(vars, v, n)`: `#{i | vars[i] = v} >=/<=/= n`; `between(l,m,u)`:
//!   `l <= m <= u`; `table`: the tuple of values is one of the rows [api/global.rs].
//! * `bool_and/or/not/xor` result variables: 1 iff all / any / none / exactly one operand non-zero;
//!   `implies(a,b)`: `a = 1 → b = 1`; `bool_clause(pos,neg)`: `∨pos ∨ ∨¬neg` [api/boolean.rs].
//! * `*_reif(x,y,b)`: `b ⇔ (x op y)` [api/reified.rs]; `lin_*`: `Σ c_i·v_i op k` [api/linear.rs].
//! * `element_2d(matrix, r, c, v)`: `matrix[r][c] = v`, `element_3d(cube, d, r, c, v)`: `cube[d][r][c] = v`,
//!   0-based; an index outside its own dimension violates the constraint (the doc examples declare the
//!   index variables as "valid row indices: 0, 1, 2") [api/global.rs].
//! * `table_2d` / `table_3d`: every row of the matrix / of every layer equals one of the tuples (a tuple
//!   of another length equals no row) [api/global.rs].
//! * `cumulative(starts, durations, demands, capacity)`: "at any point in time, the sum of resource demands
//!   of overlapping tasks does not exceed the resource capacity"; task i occupies [s_i, s_i + d_i)
//!   [functions.rs].  `bool2int(b)`: a new variable equal to `b`.
//! * float kinds (`int2float`, `float2int_floor/ceil/round`, the free functions `int2float/floor/ceil/round`,
//!   `array_float_minimum/maximum/element`): the float variables are local to the unit and existentially
//!   quantified; the oracle computes, per integer assignment, the exact interval of values every float
//!   term can take (bounds are multiples of 1/4, exact in f64) and from it the exact set of integers the
//!   conversion can yield.  A returned solution is checked node by node with the tolerance
//!   `FTOL` = 1.5·step(precision 6) on every float value (so `ceil(1.0) = 2` is accepted: 1.000001 is within
//!   tolerance).  Float variables that are not determined by the integers make `enumerate` walk the
//!   step grid, so models with a free float variable are judged through `solve` only (verdict +
//!   returned assignment).
//!
//! Tags (the `tag` column of the oracle file) are decided by matchers on the model description, the
//! outcome and the path flags, see `Tagger::tag`: the lowering defects (`not-ignored`,
//! `or-lowered-as-and`, `neq-noop`, `lin-all-zero-coefficients`, `fn-implies-noop`) are only used when
//! the outcome is *exactly* what the defect predicts (the oracle evaluates the model once more with
//! the defect built in); `root-lp` / `root-lp-infeasible` / `fast-path` only when re-running the call
//! with the corresponding verification switch off repairs the answer; the remaining tags are
//! syntactic/semantic matchers on the description (`syntactic_tag`, `rejection_tag`).
//! Tags of the kinds added for the remaining public API (all "outcome exactly as predicted" matchers):
//! * `element-nd-ragged-matrix` (malformed stream): element_2d/3d accept a matrix whose rows have different
//!   lengths, bound every index by the dimensions of the FIRST row / layer and read the flattened cells
//!   with the stride of the first row: `element_2d([[1],[2,3],[4]], r=2, c=0, v)` gives v = 3.
//!   (That an index outside its own dimension read a neighbouring row — former matcher
//!   `element-nd-index-aliasing` — was repaired by `fix:` 41a7aa1.)
//! * `cumulative-pairwise-only`: `functions::cumulative` is the pairwise decomposition "two tasks whose
//!   demands together exceed the capacity must not overlap": a single task above the capacity and three
//!   overlapping tasks are accepted, a zero-duration task wrongly blocks.  (That it constrained nothing at
//!   all — former matcher `cumulative-noop` — was repaired by `fix:` 0f1b5e9.)
//! * `float-relative-bound-tolerance`: a float value of the returned solution misses its documented value
//!   by more than `FTOL` but less than the slack `max(3·step, 1e-5·|bound|)` of `Context::try_set_min/max`.
use crate::out::{guarded, Out};
use crate::rng::Rng;
use selen::prelude as sp;
use selen::prelude::{Constraint, ConstraintVecExt, ExprBuilder, Model, ModelExt, Solution, SolverError, Val, VarId, VarIdExt};
use selen::verif_hooks as hooks;
use std::fmt::Write as _;

const STREAM: u64 = 0xA91_5EED_0C0F_FEE5;

// ------------------------------------------------------------------------------------------------
// exact rationals (values of fluent expressions with `/`)
// ------------------------------------------------------------------------------------------------
#[derive(Clone, Copy, Debug, PartialEq, Eq)]
pub struct Rat {
    n: i64,
    d: i64,
}

fn gcd(a: i64, b: i64) -> i64 {
    if b == 0 { a.abs() } else { gcd(b, a % b) }
}

impl Rat {
    fn new(n: i64, d: i64) -> Rat {
        let g = gcd(n, d).max(1);
        let s = if d < 0 { -1 } else { 1 };
        Rat { n: s * n / g, d: s * d / g }
    }
    fn int(i: i64) -> Rat {
        Rat { n: i, d: 1 }
    }
    fn is_int(self) -> bool {
        self.d == 1
    }
    fn add(self, o: Rat) -> Rat {
        Rat::new(self.n * o.d + o.n * self.d, self.d * o.d)
    }
    fn sub(self, o: Rat) -> Rat {
        Rat::new(self.n * o.d - o.n * self.d, self.d * o.d)
    }
    fn mul(self, o: Rat) -> Rat {
        Rat::new(self.n * o.n, self.d * o.d)
    }
    fn div(self, o: Rat) -> Option<Rat> {
        if o.n == 0 { None } else { Some(Rat::new(self.n * o.d, self.d * o.n)) }
    }
    fn cmp(self, o: Rat) -> std::cmp::Ordering {
        (self.n * o.d).cmp(&(o.n * self.d))
    }
    fn f(self) -> f64 {
        self.n as f64 / self.d as f64
    }
    fn show(self) -> String {
        if self.d == 1 { format!("{}", self.n) } else { format!("{}/{}", self.n, self.d) }
    }
}

/// Rust's truncated remainder (sign of the dividend), see the module comment
fn doc_mod(x: i64, y: i64) -> i64 {
    x % y
}

// ------------------------------------------------------------------------------------------------
// model description
// ------------------------------------------------------------------------------------------------
#[derive(Clone, Debug, PartialEq)]
pub enum VarDecl {
    Int(i32, i32),
    Set(Vec<i32>),
    Bool,
}

impl VarDecl {
    fn dom(&self) -> Vec<i32> {
        match self {
            VarDecl::Int(a, b) => (*a..=*b).collect(),
            VarDecl::Set(v) => {
                let mut v = v.clone();
                v.sort();
                v.dedup();
                v
            }
            VarDecl::Bool => vec![0, 1],
        }
    }
    fn show(&self) -> String {
        match self {
            VarDecl::Int(a, b) => format!("int({a},{b})"),
            VarDecl::Set(v) => format!("intset({})", crate::out::show_ints(v)),
            VarDecl::Bool => "bool()".into(),
        }
    }
}

#[derive(Clone, Copy, Debug, PartialEq, Eq)]
pub enum Cmp {
    Eq,
    Ne,
    Lt,
    Le,
    Gt,
    Ge,
}

impl Cmp {
    const ALL: [Cmp; 6] = [Cmp::Eq, Cmp::Ne, Cmp::Lt, Cmp::Le, Cmp::Gt, Cmp::Ge];
    fn test(self, a: Rat, b: Rat) -> bool {
        use std::cmp::Ordering::*;
        let o = a.cmp(b);
        match self {
            Cmp::Eq => o == Equal,
            Cmp::Ne => o != Equal,
            Cmp::Lt => o == Less,
            Cmp::Le => o != Greater,
            Cmp::Gt => o == Greater,
            Cmp::Ge => o != Less,
        }
    }
    /// the comparison with the two sides swapped
    fn flip(self) -> Cmp {
        match self {
            Cmp::Lt => Cmp::Gt,
            Cmp::Le => Cmp::Ge,
            Cmp::Gt => Cmp::Lt,
            Cmp::Ge => Cmp::Le,
            c => c,
        }
    }
    /// the logical negation
    fn neg(self) -> Cmp {
        match self {
            Cmp::Eq => Cmp::Ne,
            Cmp::Ne => Cmp::Eq,
            Cmp::Lt => Cmp::Ge,
            Cmp::Le => Cmp::Gt,
            Cmp::Gt => Cmp::Le,
            Cmp::Ge => Cmp::Lt,
        }
    }
    fn name(self) -> &'static str {
        match self {
            Cmp::Eq => "eq",
            Cmp::Ne => "ne",
            Cmp::Lt => "lt",
            Cmp::Le => "le",
            Cmp::Gt => "gt",
            Cmp::Ge => "ge",
        }
    }
}

#[derive(Clone, Copy, Debug, PartialEq, Eq)]
pub enum Bin {
    Add,
    Sub,
    Mul,
    Div,
    Mod,
}

impl Bin {
    fn name(self) -> &'static str {
        match self {
            Bin::Add => "add",
            Bin::Sub => "sub",
            Bin::Mul => "mul",
            Bin::Div => "div",
            Bin::Mod => "modulo",
        }
    }
}

/// fluent arithmetic expression over the user variables
#[derive(Clone, Debug, PartialEq)]
pub enum Ex {
    V(usize),
    C(i32),
    B(Bin, Box<Ex>, Box<Ex>),
}

fn apply_bin(op: Bin, x: Rat, y: Rat) -> Option<Rat> {
    Some(match op {
        Bin::Add => x.add(y),
        Bin::Sub => x.sub(y),
        Bin::Mul => x.mul(y),
        Bin::Div => x.div(y)?,
        Bin::Mod => {
            if !x.is_int() || !y.is_int() || y.n == 0 {
                return None;
            }
            Rat::int(doc_mod(x.n, y.n))
        }
    })
}

impl Ex {
    fn b(op: Bin, a: Ex, b: Ex) -> Ex {
        Ex::B(op, Box::new(a), Box::new(b))
    }
    fn ev(&self, a: &[i64]) -> Option<Rat> {
        match self {
            Ex::V(i) => Some(Rat::int(a[*i])),
            Ex::C(c) => Some(Rat::int(*c as i64)),
            Ex::B(op, x, y) => apply_bin(*op, x.ev(a)?, y.ev(a)?),
        }
    }
    fn has_var(&self) -> bool {
        match self {
            Ex::V(_) => true,
            Ex::C(_) => false,
            Ex::B(_, x, y) => x.has_var() || y.has_var(),
        }
    }
    fn each_node(&self, f: &mut dyn FnMut(&Ex)) {
        f(self);
        if let Ex::B(_, x, y) = self {
            x.each_node(f);
            y.each_node(f);
        }
    }
    fn show(&self) -> String {
        match self {
            Ex::V(i) => format!("x{i}"),
            Ex::C(c) => format!("{c}"),
            Ex::B(op, x, y) => {
                let l = match **x {
                    Ex::C(c) => format!("int({c})"),
                    _ => x.show(),
                };
                format!("{l}.{}({})", op.name(), y.show())
            }
        }
    }
    /// the expression as the (folding) method-style builder constructs it
    fn as_built(&self, fs: bool) -> Ex {
        match self {
            Ex::B(op, x, y) => {
                let x = x.as_built(fs);
                let y = y.as_built(fs);
                if !fs && *op != Bin::Mod {
                    if let (Ex::C(p), Ex::C(q)) = (&x, &y) {
                        match op {
                            Bin::Add => return Ex::C(p + q),
                            Bin::Sub => return Ex::C(p - q),
                            Bin::Mul => return Ex::C(p * q),
                            _ => {}
                        }
                    }
                    if *op == Bin::Mul {
                        if y == Ex::C(1) {
                            return x;
                        }
                        if x == Ex::C(1) {
                            return y;
                        }
                    }
                    if *op == Bin::Div && y == Ex::C(1) {
                        return x;
                    }
                }
                Ex::b(*op, x, y)
            }
            e => e.clone(),
        }
    }
    /// mirror of `try_extract_linear_form` (runtime_api): coefficients per variable and constant
    fn lin_form(&self) -> Option<(Vec<(usize, i64)>, i64)> {
        fn merge(mut l: Vec<(usize, i64)>, r: Vec<(usize, i64)>, s: i64) -> Vec<(usize, i64)> {
            for (v, c) in r {
                if let Some(e) = l.iter_mut().find(|e| e.0 == v) {
                    e.1 += s * c;
                } else {
                    l.push((v, s * c));
                }
            }
            l
        }
        match self {
            Ex::V(i) => Some((vec![(*i, 1)], 0)),
            Ex::C(c) => Some((vec![], *c as i64)),
            Ex::B(Bin::Mul, x, y) => match (&**x, &**y) {
                (Ex::V(i), Ex::C(c)) | (Ex::C(c), Ex::V(i)) => Some((vec![(*i, *c as i64)], 0)),
                _ => None,
            },
            Ex::B(Bin::Add, x, y) => {
                let (lc, lk) = x.lin_form()?;
                let (rc, rk) = y.lin_form()?;
                Some((merge(lc, rc, 1), lk + rk))
            }
            Ex::B(Bin::Sub, x, y) => {
                let (lc, lk) = x.lin_form()?;
                let (rc, rk) = y.lin_form()?;
                Some((merge(lc, rc, -1), lk - rk))
            }
            _ => None,
        }
    }
}

/// lowering defects whose effect on the solution set the oracle can predict (used for tagging)
#[derive(Clone, Copy, Default, PartialEq, Debug)]
pub struct Quirks {
    or_and: bool,
    not_ign: bool,
    ne_noop: bool,
    zero_lin: bool,
    fn_implies: bool,
    /// element_2d/3d over a ragged matrix: every index is bounded by the dimensions of the first row /
    /// layer, the cell is read with the first row's stride (`element-nd-ragged-matrix`; the documented
    /// meaning on rectangular matrices)
    ragged_stride: bool,
    /// cumulative: only pairs of tasks are looked at (`cumulative-pairwise-only`)
    cum_pairs: bool,
    /// not a defect: the TOLERANT reading of the float → integer conversions (the float value may be
    /// off by `FTOL`), i.e. the set of assignments a returned solution may come from; the exact reading
    /// (all-false `Quirks`) is the set every solver answer must cover
    tol: bool,
    /// float values are compared with `wide_tol` instead of `FTOL` (`float-relative-bound-tolerance`)
    wide_tol: bool,
}

/// fluent constraint tree
#[derive(Clone, Debug, PartialEq)]
pub enum CT {
    Cmp(Ex, Cmp, Ex),
    And(Box<CT>, Box<CT>),
    Or(Box<CT>, Box<CT>),
    Not(Box<CT>),
}

/// `l op r` posted at top level becomes a LinearInt row when both sides have a linear form
fn top_lin(l: &Ex, r: &Ex, fs: bool) -> Option<Vec<(usize, i64)>> {
    let (lc, _) = l.as_built(fs).lin_form()?;
    let (rc, _) = r.as_built(fs).lin_form()?;
    let mut all = lc;
    for (v, c) in rc {
        if let Some(e) = all.iter_mut().find(|e| e.0 == v) {
            e.1 -= c;
        } else {
            all.push((v, -c));
        }
    }
    Some(all)
}

impl CT {
    /// `x == a or x == b` on one variable with integer constants: lowered as a domain constraint
    fn special_or(&self) -> bool {
        if let CT::Or(a, b) = self {
            if let (CT::Cmp(Ex::V(i), Cmp::Eq, Ex::C(_)), CT::Cmp(Ex::V(j), Cmp::Eq, Ex::C(_))) = (&**a, &**b) {
                return i == j;
            }
        }
        false
    }
    /// `or` of two comparisons over integer operands (all variables of the API cases are integer
    /// variables; the method-style builder folds `int(a).div(b)` into a FLOAT literal, which keeps the
    /// old lowering), other than the same-variable special case: lowered as a reified disjunction
    /// (`b1 <=> c1`, `b2 <=> c2`, `b1 or b2`) since the repair `fix: or of two comparisons is a disjunction`
    fn reified_or(&self, fs: bool) -> bool {
        if let CT::Or(a, b) = self {
            if let (CT::Cmp(l1, _, r1), CT::Cmp(l2, _, r2)) = (&**a, &**b) {
                return !self.special_or() && (fs || ![l1, r1, l2, r2].iter().any(|e| folded_const_div(e, false)));
            }
        }
        false
    }
    /// an `or` node that is still lowered as a conjunction (finding `or-lowered-as-and`)
    fn or_as_and(&self, fs: bool) -> bool {
        matches!(self, CT::Or(..)) && !self.special_or() && !self.reified_or(fs)
    }
    /// a `!=` that is materialised through the no-op `NotEquals`: not a top-level linear row and not
    /// a side of a reified `or` (`int_ne_reif` does enforce it)
    fn has_noop_ne(&self, top: bool, fs: bool) -> bool {
        match self {
            CT::Cmp(l, op, r) => *op == Cmp::Ne && (!top || top_lin(l, r, fs).is_none()),
            CT::Or(x, y) => !self.reified_or(fs) && (x.has_noop_ne(false, fs) || y.has_noop_ne(false, fs)),
            CT::And(x, y) => x.has_noop_ne(false, fs) || y.has_noop_ne(false, fs),
            CT::Not(x) => x.has_noop_ne(false, fs),
        }
    }
    /// the tree as `Constraint::not` builds it (since fix 7500ca2): the negation of a comparison is
    /// the complementary comparison, a double negation cancels; only negated and/or nodes stay
    fn norm(&self) -> CT {
        match self {
            CT::Cmp(..) => self.clone(),
            CT::And(x, y) => CT::And(Box::new(x.norm()), Box::new(y.norm())),
            CT::Or(x, y) => CT::Or(Box::new(x.norm()), Box::new(y.norm())),
            CT::Not(x) => match x.norm() {
                CT::Cmp(l, op, r) => CT::Cmp(l, op.neg(), r),
                CT::Not(c) => *c,
                other => CT::Not(Box::new(other)),
            },
        }
    }
    fn holds(&self, a: &[i64], q: Quirks, top: bool, fs: bool) -> Option<bool> {
        self.norm().holds_n(a, q, top, fs)
    }
    fn holds_n(&self, a: &[i64], q: Quirks, top: bool, fs: bool) -> Option<bool> {
        match self {
            CT::Cmp(l, op, r) => {
                if q.ne_noop && *op == Cmp::Ne && (!top || top_lin(l, r, fs).is_none()) {
                    // still undefined when a divisor is zero
                    l.ev(a)?;
                    r.ev(a)?;
                    return Some(true);
                }
                if q.zero_lin && top {
                    if let Some(cs) = top_lin(l, r, fs) {
                        if cs.iter().all(|c| c.1 == 0) && !simple_var_val(l, r) {
                            return Some(true);
                        }
                    }
                }
                Some(op.test(l.ev(a)?, r.ev(a)?))
            }
            CT::And(x, y) => Some(x.holds_n(a, q, false, fs)? & y.holds_n(a, q, false, fs)?),
            CT::Or(x, y) => {
                // the two sides of a reified `or` are reified comparisons: `!=` is enforced there
                let qs = if self.reified_or(fs) { Quirks { ne_noop: false, ..q } } else { q };
                let (p, r) = (x.holds_n(a, qs, false, fs)?, y.holds_n(a, qs, false, fs)?);
                if q.or_and && self.or_as_and(fs) { Some(p && r) } else { Some(p || r) }
            }
            CT::Not(x) => {
                let p = x.holds_n(a, q, false, fs)?;
                Some(if q.not_ign { p } else { !p })
            }
        }
    }
    fn each_cmp(&self, top: bool, f: &mut dyn FnMut(&Ex, Cmp, &Ex, bool)) {
        match self {
            CT::Cmp(l, op, r) => f(l, *op, r, top),
            CT::And(x, y) | CT::Or(x, y) => {
                x.each_cmp(false, f);
                y.each_cmp(false, f);
            }
            CT::Not(x) => x.each_cmp(false, f),
        }
    }
    fn any(&self, f: &dyn Fn(&CT) -> bool) -> bool {
        if f(self) {
            return true;
        }
        match self {
            CT::Cmp(..) => false,
            CT::And(x, y) | CT::Or(x, y) => x.any(f) || y.any(f),
            CT::Not(x) => x.any(f),
        }
    }
    fn show(&self) -> String {
        match self {
            CT::Cmp(l, op, r) => {
                let ls = match l {
                    Ex::C(c) => format!("int({c})"),
                    _ => l.show(),
                };
                format!("{ls}.{}({})", op.name(), r.show())
            }
            CT::And(x, y) => format!("{}.and({})", x.show(), y.show()),
            CT::Or(x, y) => format!("{}.or({})", x.show(), y.show()),
            CT::Not(x) => format!("{}.not()", x.show()),
        }
    }
}

/// `x == 3` / `3 == x` are materialised immediately as `equals`, never as a linear row
fn simple_var_val(l: &Ex, r: &Ex) -> bool {
    matches!((l, r), (Ex::V(_), Ex::C(_)) | (Ex::C(_), Ex::V(_)))
}

/// argument of a result-variable function
#[derive(Clone, Debug, PartialEq)]
pub enum Term {
    V(usize),
    K(i32),
    F(Box<Fun>),
}

#[derive(Clone, Copy, Debug, PartialEq, Eq)]
pub enum FK {
    Add,
    Sub,
    Mul,
    Div,
    Mod,
    Abs,
    Min,
    Max,
    Sum,
    BAnd,
    BOr,
    BNot,
    BXor,
    /// `functions::element(model, array, index)`: args = array ++ [index]
    Elem,
    /// `functions::bool2int(model, b)`
    B2I,
}

/// `let s = m.add(x, y)` …: creates a result variable with the documented meaning.
/// style 0 = `Model` method, 1 = free function of `constraints::functions`, 2 = `array_int_*`
#[derive(Clone, Debug, PartialEq)]
pub struct Fun {
    k: FK,
    args: Vec<Term>,
    style: u8,
}

impl Term {
    fn ev(&self, a: &[i64]) -> Option<Rat> {
        match self {
            Term::V(i) => Some(Rat::int(a[*i])),
            Term::K(c) => Some(Rat::int(*c as i64)),
            Term::F(f) => f.ev(a),
        }
    }
    fn show(&self) -> String {
        match self {
            Term::V(i) => format!("x{i}"),
            Term::K(c) => format!("int({c})"),
            Term::F(f) => f.show(),
        }
    }
    fn each_fun(&self, f: &mut dyn FnMut(&Fun)) {
        if let Term::F(g) = self {
            g.each_fun(f);
        }
    }
}

impl Fun {
    fn ev(&self, a: &[i64]) -> Option<Rat> {
        let mut v = Vec::with_capacity(self.args.len());
        for t in &self.args {
            v.push(t.ev(a)?);
        }
        let nz = |r: &Rat| r.n != 0;
        let b = |x: bool| Rat::int(x as i64);
        Some(match self.k {
            FK::Add => apply_bin(Bin::Add, v[0], v[1])?,
            FK::Sub => apply_bin(Bin::Sub, v[0], v[1])?,
            FK::Mul => apply_bin(Bin::Mul, v[0], v[1])?,
            FK::Div => apply_bin(Bin::Div, v[0], v[1])?,
            FK::Mod => apply_bin(Bin::Mod, v[0], v[1])?,
            FK::Abs => if v[0].n < 0 { Rat::new(-v[0].n, v[0].d) } else { v[0] },
            FK::Min => v.iter().copied().reduce(|x, y| if y.cmp(x).is_lt() { y } else { x })?,
            FK::Max => v.iter().copied().reduce(|x, y| if y.cmp(x).is_gt() { y } else { x })?,
            FK::Sum => v.iter().fold(Rat::int(0), |x, y| x.add(*y)),
            FK::BAnd => b(v.iter().all(nz)),
            FK::BOr => b(v.iter().any(nz)),
            FK::BNot => b(!nz(&v[0])),
            FK::BXor => b(nz(&v[0]) != nz(&v[1])),
            FK::Elem => {
                let idx = *v.last()?;
                let n = v.len() as i64 - 1;
                if !idx.is_int() || idx.n < 0 || idx.n >= n {
                    return None;
                }
                v[idx.n as usize]
            }
            FK::B2I => v[0],
        })
    }
    fn name(&self) -> &'static str {
        match (self.k, self.style) {
            (FK::Add, _) => "m.add",
            (FK::Sub, _) => "m.sub",
            (FK::Mul, _) => "m.mul",
            (FK::Div, _) => "m.div",
            (FK::Mod, 1) => "fn.modulo",
            (FK::Mod, _) => "m.modulo",
            (FK::Abs, 1) => "fn.abs",
            (FK::Abs, _) => "m.abs",
            (FK::Min, 1) => "fn.min",
            (FK::Min, 2) => "m.array_int_minimum",
            (FK::Min, _) => "m.min",
            (FK::Max, 1) => "fn.max",
            (FK::Max, 2) => "m.array_int_maximum",
            (FK::Max, _) => "m.max",
            (FK::Sum, 1) => "fn.sum",
            (FK::Sum, 2) => "m.sum_iter",
            (FK::Sum, _) => "m.sum",
            (FK::BAnd, 1) => "fn.and",
            (FK::BAnd, _) => "m.bool_and",
            (FK::BOr, 1) => "fn.or",
            (FK::BOr, _) => "m.bool_or",
            (FK::BNot, 1) => "fn.not",
            (FK::BNot, _) => "m.bool_not",
            (FK::BXor, 1) => "fn.xor",
            (FK::BXor, _) => "m.bool_xor",
            (FK::Elem, _) => "fn.element",
            (FK::B2I, _) => "fn.bool2int",
        }
    }
    fn show(&self) -> String {
        let a: Vec<String> = self.args.iter().map(|t| t.show()).collect();
        format!("{}({})", self.name(), a.join(","))
    }
    fn each_fun(&self, f: &mut dyn FnMut(&Fun)) {
        f(self);
        for t in &self.args {
            t.each_fun(f);
        }
    }
}

// ------------------------------------------------------------------------------------------------
// float terms (unit-local float variables; all bounds in quarters, exact in f64)
// ------------------------------------------------------------------------------------------------
/// tolerance on every float value of a returned solution: 1.5 · step(precision 6)
const FTOL: f64 = 1.5e-6;

/// the tolerance the float bound setters of the crate apply themselves (`Context::try_set_min/max`:
/// a bound that misses the interval by less than max(3·step, 1e-5·|bound|) is accepted without change)
/// plus `FTOL`; used only to attribute failures of the `FTOL` check (`float-relative-bound-tolerance`)
fn wide_tol(v: f64) -> f64 {
    (3e-6f64).max(1e-5 * v.abs()) + FTOL
}

fn q4(q: i32) -> f64 {
    q as f64 / 4.0
}

fn show_q(q: i32) -> String {
    format!("{:?}", q4(q))
}

/// a float-valued term; every node creates one float variable of the solver model
#[derive(Clone, Debug, PartialEq)]
pub enum FT {
    /// `m.float(lo/4, hi/4)`: a free float variable
    Fresh(i32, i32),
    /// `None`: `functions::int2float(m, x)`; `Some((lo,hi))`: `f = m.float(lo/4,hi/4); m.int2float(x, f)`
    OfInt(usize, Option<(i32, i32)>),
    /// `m.float(c/4, c/4)`
    Const(i32),
    /// `m.array_float_minimum(&kids)`
    Min(Vec<FT>),
    /// `m.array_float_maximum(&kids)`
    Max(Vec<FT>),
    /// `r = m.float(lo/4, hi/4); m.array_float_element(idx, &kids, r)`
    Elem(usize, Vec<FT>, (i32, i32)),
    /// product of a float term (one kid) and an integer variable or constant: `m.mul(f, n)` when
    /// the flag is set (float operand first), `m.mul(n, f)` otherwise
    MulI(Vec<FT>, Term, bool),
}

impl FT {
    fn name(&self) -> &'static str {
        match self {
            FT::Fresh(..) => "m.float",
            FT::OfInt(_, None) => "fn.int2float",
            FT::OfInt(_, Some(_)) => "m.int2float",
            FT::Const(_) => "m.float.const",
            FT::Min(_) => "m.array_float_minimum",
            FT::Max(_) => "m.array_float_maximum",
            FT::Elem(..) => "m.array_float_element",
            FT::MulI(_, Term::K(_), true) => "m.mul(float,const)",
            FT::MulI(_, Term::K(_), false) => "m.mul(const,float)",
            FT::MulI(_, _, true) => "m.mul(float,int)",
            FT::MulI(_, _, false) => "m.mul(int,float)",
        }
    }
    fn kids(&self) -> &[FT] {
        match self {
            FT::Min(k) | FT::Max(k) | FT::Elem(_, k, _) | FT::MulI(k, _, _) => k,
            _ => &[],
        }
    }
    fn each(&self, f: &mut dyn FnMut(&FT)) {
        f(self);
        for k in self.kids() {
            k.each(f);
        }
    }
    /// some float variable of the term is not determined by the integer variables
    fn free(&self) -> bool {
        matches!(self, FT::Fresh(..)) || self.kids().iter().any(|k| k.free())
    }
    fn show(&self) -> String {
        let ks = |k: &[FT]| k.iter().map(|x| x.show()).collect::<Vec<_>>().join(",");
        match self {
            FT::Fresh(lo, hi) => format!("float({},{})", show_q(*lo), show_q(*hi)),
            FT::OfInt(x, None) => format!("fn.int2float(x{x})"),
            FT::OfInt(x, Some((lo, hi))) => format!("m.int2float(x{x},float({},{}))", show_q(*lo), show_q(*hi)),
            FT::Const(c) => format!("float({0},{0})", show_q(*c)),
            FT::Min(k) => format!("m.array_float_minimum([{}])", ks(k)),
            FT::Max(k) => format!("m.array_float_maximum([{}])", ks(k)),
            FT::Elem(i, k, (lo, hi)) => format!("m.array_float_element(x{i},[{}],float({},{}))", ks(k), show_q(*lo), show_q(*hi)),
            FT::MulI(k, t, true) => format!("m.mul({},{})", ks(k), t.show()),
            FT::MulI(k, t, false) => format!("m.mul({},{})", t.show(), ks(k)),
        }
    }
    /// exact interval (in quarters) of the values the term can take under the integer assignment `a`;
    /// `None`: the constraints posted by the term cannot be satisfied under `a`.
    /// (The free variables are independent leaves of a tree, so the attainable sets compose.)
    fn iv(&self, a: &[i64]) -> Option<(i64, i64)> {
        let mut ks = vec![];
        for k in self.kids() {
            ks.push(k.iv(a)?);
        }
        match self {
            FT::Fresh(lo, hi) => if lo <= hi { Some((*lo as i64, *hi as i64)) } else { None },
            FT::OfInt(x, None) => Some((4 * a[*x], 4 * a[*x])),
            FT::OfInt(x, Some((lo, hi))) => {
                let v = 4 * a[*x];
                if (*lo as i64) <= v && v <= *hi as i64 { Some((v, v)) } else { None }
            }
            FT::Const(c) => Some((*c as i64, *c as i64)),
            FT::Min(_) => Some((ks.iter().map(|k| k.0).min()?, ks.iter().map(|k| k.1).min()?)),
            FT::Max(_) => Some((ks.iter().map(|k| k.0).max()?, ks.iter().map(|k| k.1).max()?)),
            FT::Elem(i, _, (lo, hi)) => {
                let i = a[*i];
                if i < 0 || i as usize >= ks.len() {
                    return None;
                }
                let (l, h) = ks[i as usize];
                let (l, h) = (l.max(*lo as i64), h.min(*hi as i64));
                if l <= h { Some((l, h)) } else { None }
            }
            FT::MulI(_, t, _) => {
                let n = cell_val(t, a);
                let (l, h) = ks[0];
                Some(((l * n).min(h * n), (l * n).max(h * n)))
            }
        }
    }
    /// bounds of the term's variable when it is created (what `floor/ceil/round` read)
    fn decl_bounds(&self, doms: &[Vec<i32>]) -> (f64, f64) {
        let ks: Vec<(f64, f64)> = self.kids().iter().map(|k| k.decl_bounds(doms)).collect();
        match self {
            FT::Fresh(lo, hi) | FT::OfInt(_, Some((lo, hi))) | FT::Elem(_, _, (lo, hi)) => (q4(*lo), q4(*hi)),
            FT::OfInt(x, None) => (*doms[*x].first().unwrap_or(&0) as f64, *doms[*x].last().unwrap_or(&0) as f64),
            FT::Const(c) => (q4(*c), q4(*c)),
            FT::Min(_) => (ks.iter().map(|k| k.0).fold(f64::INFINITY, f64::min), ks.iter().map(|k| k.1).fold(f64::INFINITY, f64::min)),
            FT::Max(_) => (ks.iter().map(|k| k.0).fold(f64::NEG_INFINITY, f64::max), ks.iter().map(|k| k.1).fold(f64::NEG_INFINITY, f64::max)),
            FT::MulI(_, t, _) => {
                let (nl, nh) = match t {
                    Term::V(x) => (*doms[*x].first().unwrap_or(&0) as f64, *doms[*x].last().unwrap_or(&0) as f64),
                    Term::K(c) => (*c as f64, *c as f64),
                    Term::F(_) => unreachable!(),
                };
                let c = [ks[0].0 * nl, ks[0].0 * nh, ks[0].1 * nl, ks[0].1 * nh];
                (c.iter().copied().fold(f64::INFINITY, f64::min), c.iter().copied().fold(f64::NEG_INFINITY, f64::max))
            }
        }
    }
    /// check the values of the float variables of a returned solution (creation order = post-order);
    /// returns the value of this node
    fn check(&self, a: &[i64], vals: &mut std::slice::Iter<XV>, wide: bool) -> Result<f64, String> {
        let mut ks = vec![];
        for k in self.kids() {
            ks.push(k.check(a, vals, wide)?);
        }
        let v = match vals.next() {
            Some(XV::F(f)) => *f,
            Some(XV::I(i)) => *i as f64,
            None => return Err(format!("no value recorded for {}", self.show())),
        };
        let tol = |x: f64| if wide { wide_tol(x) } else { FTOL };
        let near = |x: f64, y: f64| (x - y).abs() <= tol(x.abs().max(y.abs()));
        let within = |lo: i32, hi: i32| v >= q4(lo) - tol(q4(lo)) && v <= q4(hi) + tol(q4(hi));
        let bad = |why: String| Err(format!("{} = {v:?}: {why}", self.show()));
        match self {
            FT::Fresh(lo, hi) => if !within(*lo, *hi) { return bad("outside its declared bounds".into()); },
            FT::OfInt(x, d) => {
                if !near(v, a[*x] as f64) {
                    return bad(format!("differs from x{x} = {}", a[*x]));
                }
                if let Some((lo, hi)) = d {
                    if !within(*lo, *hi) {
                        return bad("outside its declared bounds".into());
                    }
                }
            }
            FT::Const(c) => if !near(v, q4(*c)) { return bad("differs from the constant".into()); },
            FT::Min(_) | FT::Max(_) => {
                let want = if matches!(self, FT::Min(_)) { ks.iter().copied().fold(f64::INFINITY, f64::min) } else { ks.iter().copied().fold(f64::NEG_INFINITY, f64::max) };
                if !near(v, want) {
                    return bad(format!("but the operands are {ks:?}"));
                }
            }
            FT::Elem(i, _, (lo, hi)) => {
                let i = a[*i];
                if i < 0 || i as usize >= ks.len() {
                    return bad(format!("index {i} is outside the array"));
                }
                if !near(v, ks[i as usize]) {
                    return bad(format!("but the selected element [{i}] is {:?}", ks[i as usize]));
                }
                if !within(*lo, *hi) {
                    return bad("outside its declared bounds".into());
                }
            }
            FT::MulI(_, t, _) => {
                let n = cell_val(t, a) as f64;
                let want = ks[0] * n;
                // (the operand itself is only known up to its tolerance)
                if (v - want).abs() > tol(v.abs().max(want.abs())) + n.abs() * tol(ks[0].abs()) {
                    return bad(format!("but the operands are {:?} and {n}", ks[0]));
                }
            }
        }
        Ok(v)
    }
}

/// float → integer conversion
#[derive(Clone, Copy, Debug, PartialEq, Eq)]
pub enum Conv {
    Floor,
    Ceil,
    Round,
}

impl Conv {
    fn name(self, style: u8) -> &'static str {
        match (self, style == 1) {
            (Conv::Floor, false) => "m.float2int_floor",
            (Conv::Ceil, false) => "m.float2int_ceil",
            (Conv::Round, false) => "m.float2int_round",
            (Conv::Floor, true) => "fn.floor",
            (Conv::Ceil, true) => "fn.ceil",
            (Conv::Round, true) => "fn.round",
        }
    }
    /// on quarters (ties never occur at the interval ends of a `Round` unit, see the generator)
    fn of_q(self, q: i64) -> i64 {
        match self {
            Conv::Floor => q.div_euclid(4),
            Conv::Ceil => -((-q).div_euclid(4)),
            Conv::Round => (q + 2).div_euclid(4),
        }
    }
    fn of_f(self, v: f64) -> i64 {
        match self {
            Conv::Floor => v.floor() as i64,
            Conv::Ceil => v.ceil() as i64,
            Conv::Round => (v + 0.5).floor() as i64,
        }
    }
}

/// matrix cell: a user variable or a constant (`m.int(c, c)`)
fn cell_val(t: &Term, a: &[i64]) -> i64 {
    match t {
        Term::V(i) => a[*i],
        Term::K(c) => *c as i64,
        Term::F(_) => unreachable!("matrix cells are variables or constants"),
    }
}

fn show_cells(row: &[Term]) -> String {
    format!("[{}]", row.iter().map(|t| match t { Term::K(c) => format!("{c}"), t => t.show() }).collect::<Vec<_>>().join(","))
}

fn show_mat(m: &[Vec<Term>]) -> String {
    format!("[{}]", m.iter().map(|r| show_cells(r)).collect::<Vec<_>>().join(","))
}

fn show_vmat(m: &[Vec<usize>]) -> String {
    format!("[{}]", m.iter().map(|r| show_vs(r)).collect::<Vec<_>>().join(","))
}

#[derive(Clone, Copy, Debug, PartialEq, Eq)]
pub enum Card {
    AtLeast,
    AtMost,
    Exactly,
}

#[derive(Clone, Copy, Debug, PartialEq, Eq)]
pub enum Rel {
    Eq,
    Le,
    Ne,
}

/// one posted constraint unit (self-contained, so units can be posted in any order)
#[derive(Clone, Debug, PartialEq)]
pub enum Con {
    /// style: 0 `m.new`, 1 function-style expressions + `m.new`, 2 `m.c(x)…` builder,
    /// 3 `le(&mut m, l, r)` free function, 4 `postall/post_and/post_or`, 5 `and_all/or_all` helpers
    Fluent { t: CT, style: u8 },
    /// `let s = f(..); m.new(s.op(ex))`
    Fun { f: Fun, then: Option<(Cmp, Ex)> },
    AllDiff(Vec<usize>, u8),
    AllEq(Vec<usize>, u8),
    /// style: 0 `m.element`, 1 `m.elem`, 2 `m.array_int_element`
    Element { arr: Vec<usize>, idx: usize, val: usize, style: u8 },
    Table { vars: Vec<usize>, tuples: Vec<Vec<i32>>, style: u8 },
    Count { vars: Vec<usize>, target: Term, cnt: usize },
    Between(usize, usize, usize),
    Card { kind: Card, vars: Vec<usize>, val: i32, n: i32 },
    Gcc { vars: Vec<usize>, values: Vec<i32>, counts: Vec<usize>, style: u8 },
    /// style 0: `m.implies`, 1: `functions::implies`
    Implies(usize, usize, u8),
    Clause { pos: Vec<usize>, neg: Vec<usize> },
    Reif { op: Cmp, x: usize, y: usize, b: usize, style: u8 },
    Lin { rel: Rel, coeffs: Vec<i32>, vars: Vec<usize>, k: i32, reif: Option<usize>, boolapi: bool, style: u8 },
    /// `m.element_2d(&mat, r, c, val)`: `mat[r][c] = val`
    Elem2 { mat: Vec<Vec<Term>>, r: usize, c: usize, val: usize },
    /// `m.element_3d(&cube, d, r, c, val)`: `cube[d][r][c] = val`
    Elem3 { cube: Vec<Vec<Vec<Term>>>, d: usize, r: usize, c: usize, val: usize },
    /// `m.table_2d(&mat, tuples)`: every row is one of the tuples
    Table2 { mat: Vec<Vec<usize>>, tuples: Vec<Vec<i32>> },
    /// `m.table_3d(&cube, tuples)`: every row of every layer is one of the tuples
    Table3 { cube: Vec<Vec<Vec<usize>>>, tuples: Vec<Vec<i32>> },
    /// a float term, optionally converted to the integer variable `y`:
    /// style 0 `m.float2int_*(f, y)`, style 1 `let r = floor/ceil/round(&mut m, f); m.new(r.eq(y))`
    Float { f: FT, conv: Option<(Conv, usize, u8)> },
    /// `functions::cumulative(&mut m, starts, durations, demands, capacity)`
    Cumulative { starts: Vec<usize>, durs: Vec<i32>, demands: Vec<i32>, cap: i32 },
    /// operator-style comparison of two variables: form 0 `x.ge_op(&mut m, y)` (trait `ComparisonOp`),
    /// form 1 `m.ge_op(x, y)`
    OpForm { op: Cmp, x: usize, y: usize, form: u8 },
    /// `&`, `|`, `!` on boolean variables (`constraints::boolean_operators`): mode 0 `m.post_true(e)`,
    /// 1 `m.post_false(e)`, 2 `e.must_be_true(&mut m)`, 3 `e.must_be_false(&mut m)`
    BoolEx { e: BX, mode: u8 },
}

/// boolean operator expression over boolean variables
#[derive(Clone, Debug, PartialEq)]
pub enum BX {
    V(usize),
    And(Box<BX>, Box<BX>),
    Or(Box<BX>, Box<BX>),
    Not(Box<BX>),
}

impl BX {
    fn ev(&self, a: &[i64]) -> bool {
        match self {
            BX::V(v) => a[*v] != 0,
            BX::And(l, r) => l.ev(a) && r.ev(a),
            BX::Or(l, r) => l.ev(a) || r.ev(a),
            BX::Not(e) => !e.ev(a),
        }
    }
    fn show(&self) -> String {
        match self {
            BX::V(v) => format!("x{v}"),
            BX::And(l, r) => format!("({} & {})", l.show(), r.show()),
            BX::Or(l, r) => format!("({} | {})", l.show(), r.show()),
            BX::Not(e) => format!("!{}", e.show()),
        }
    }
    /// built with the overload the operand kinds select (`var & var`, `var & expr`, `expr & var`, `expr & expr`)
    fn build(&self, uv: &[VarId]) -> Result<VarId, selen::constraints::boolean_operators::BoolExpr> {
        use selen::constraints::boolean_operators::BoolExpr;
        let ex = |r: Result<VarId, BoolExpr>| -> BoolExpr { match r { Ok(v) => BoolExpr::from(v), Err(e) => e } };
        match self {
            BX::V(v) => Ok(uv[*v]),
            BX::And(l, r) => Err(match (l.build(uv), r.build(uv)) {
                (Ok(a), Ok(b)) => a & b,
                (Ok(a), Err(b)) => a & b,
                (Err(a), Ok(b)) => a & b,
                (Err(a), Err(b)) => a & b,
            }),
            BX::Or(l, r) => Err(match (l.build(uv), r.build(uv)) {
                (Ok(a), Ok(b)) => a | b,
                (Ok(a), Err(b)) => a | b,
                (Err(a), Ok(b)) => a | b,
                (Err(a), Err(b)) => a | b,
            }),
            BX::Not(e) => Err(match e.build(uv) {
                Ok(a) => !a,
                Err(a) => !ex(Err(a)),
            }),
        }
    }
}

/// cell of an `element_2d/3d` access as the implementation computes it: every index inside the
/// dimensions `dims` taken from the first row / first layer, the flattened cells read row-major with
/// those dimensions
fn stride_cell<'a>(flat: &[&'a Term], dims: &[i64], idx: &[i64]) -> Option<&'a Term> {
    let mut lin = 0i64;
    for (n, i) in dims.iter().zip(idx) {
        if *i < 0 || *i >= *n {
            return None;
        }
        lin = lin * n + i;
    }
    if lin as usize >= flat.len() { None } else { Some(flat[lin as usize]) }
}

fn show_vs(v: &[usize]) -> String {
    let p: Vec<String> = v.iter().map(|i| format!("x{i}")).collect();
    format!("[{}]", p.join(","))
}

impl Con {
    fn kind(&self) -> String {
        match self {
            Con::Fluent { style, .. } => format!("fluent.style{style}"),
            Con::Fun { f, .. } => f.name().to_string(),
            Con::AllDiff(_, s) => format!("alldiff.{}", if *s == 1 { "fn" } else { "m" }),
            Con::AllEq(_, s) => format!("alleq.{}", if *s == 1 { "fn" } else { "m" }),
            Con::Element { style, .. } => ["m.element", "m.elem", "m.array_int_element"][*style as usize].to_string(),
            Con::Table { style, .. } => if *style == 1 { "fn.table".into() } else { "m.table".into() },
            Con::Count { target, .. } => format!("m.count.{}", if matches!(target, Term::K(_)) { "const" } else { "var" }),
            Con::Between(..) => "m.between".into(),
            Con::Card { kind, .. } => format!("m.{}", match kind { Card::AtLeast => "at_least", Card::AtMost => "at_most", Card::Exactly => "exactly" }),
            Con::Gcc { style, .. } => if *style == 1 { "fn.gcc".into() } else { "m.gcc".into() },
            Con::Implies(_, _, s) => if *s == 1 { "fn.implies".into() } else { "m.implies".into() },
            Con::Clause { .. } => "m.bool_clause".into(),
            Con::Reif { op, style, .. } => format!("{}.{}_reif", if *style == 1 { "fn" } else { "m" }, op.name()),
            Con::Lin { rel, reif, boolapi, style, .. } => format!(
                "{}.{}lin_{}{}",
                if *style == 1 { "fn" } else { "m" },
                if *boolapi { "bool_" } else { "" },
                match rel { Rel::Eq => "eq", Rel::Le => "le", Rel::Ne => "ne" },
                if reif.is_some() { "_reif" } else { "" }
            ),
            Con::Elem2 { .. } => "m.element_2d".into(),
            Con::Elem3 { .. } => "m.element_3d".into(),
            Con::Table2 { .. } => "m.table_2d".into(),
            Con::Table3 { .. } => "m.table_3d".into(),
            Con::Float { f, conv } => match conv {
                Some((k, _, style)) => k.name(*style).to_string(),
                None => f.name().to_string(),
            },
            Con::Cumulative { .. } => "fn.cumulative".into(),
            Con::OpForm { op, form, .. } => format!("{}.{}_op", if *form == 0 { "trait" } else { "m" }, op.name()),
            Con::BoolEx { mode, .. } => ["m.post_true", "m.post_false", "bx.must_be_true", "bx.must_be_false"][*mode as usize % 4].to_string(),
        }
    }
    fn show(&self) -> String {
        match self {
            Con::Fluent { t, style } => match style {
                1 => format!("new[fn-exprs]({})", t.show()),
                2 => format!("m.c-builder({})", t.show()),
                3 => format!("fn-post({})", t.show()),
                4 => format!("postall/post_and/post_or({})", t.show()),
                5 => format!("and_all/or_all({})", t.show()),
                _ => format!("new({})", t.show()),
            },
            Con::Fun { f, then } => match then {
                Some((op, e)) => format!("s={}; new(s.{}({}))", f.show(), op.name(), e.show()),
                None => format!("s={}", f.show()),
            },
            Con::AllDiff(v, _) => format!("{}({})", self.kind(), show_vs(v)),
            Con::AllEq(v, _) => format!("{}({})", self.kind(), show_vs(v)),
            Con::Element { arr, idx, val, .. } => format!("{}(arr={},idx=x{idx},val=x{val})", self.kind(), show_vs(arr)),
            Con::Table { vars, tuples, .. } => {
                let t: Vec<String> = tuples.iter().map(|t| crate::out::show_ints(t)).collect();
                format!("{}({},[{}])", self.kind(), show_vs(vars), t.join(","))
            }
            Con::Count { vars, target, cnt } => format!("m.count({},{},x{cnt})", show_vs(vars), target.show()),
            Con::Between(l, m, u) => format!("m.between(x{l},x{m},x{u})"),
            Con::Card { vars, val, n, .. } => format!("{}({},{val},{n})", self.kind(), show_vs(vars)),
            Con::Gcc { vars, values, counts, .. } => format!("{}({},{},{})", self.kind(), show_vs(vars), crate::out::show_ints(values), show_vs(counts)),
            Con::Implies(a, b, _) => format!("{}(x{a},x{b})", self.kind()),
            Con::Clause { pos, neg } => format!("m.bool_clause({},{})", show_vs(pos), show_vs(neg)),
            Con::Reif { x, y, b, .. } => format!("{}(x{x},x{y},x{b})", self.kind()),
            Con::Lin { coeffs, vars, k, reif, .. } => format!(
                "{}({},{},{k}{})",
                self.kind(),
                crate::out::show_ints(coeffs),
                show_vs(vars),
                match reif { Some(b) => format!(",x{b}"), None => String::new() }
            ),
            Con::Elem2 { mat, r, c, val } => format!("m.element_2d({},x{r},x{c},x{val})", show_mat(mat)),
            Con::Elem3 { cube, d, r, c, val } => format!("m.element_3d([{}],x{d},x{r},x{c},x{val})", cube.iter().map(|l| show_mat(l)).collect::<Vec<_>>().join(",")),
            Con::Table2 { mat, tuples } => format!("m.table_2d({},[{}])", show_vmat(mat), tuples.iter().map(|t| crate::out::show_ints(t)).collect::<Vec<_>>().join(",")),
            Con::Table3 { cube, tuples } => format!(
                "m.table_3d([{}],[{}])",
                cube.iter().map(|l| show_vmat(l)).collect::<Vec<_>>().join(","),
                tuples.iter().map(|t| crate::out::show_ints(t)).collect::<Vec<_>>().join(",")
            ),
            Con::Float { f, conv } => match conv {
                Some((k, y, 1)) => format!("r={}({}); new(r.eq(x{y}))", k.name(1), f.show()),
                Some((k, y, _)) => format!("{}({},x{y})", k.name(0), f.show()),
                None => format!("f={}", f.show()),
            },
            Con::Cumulative { starts, durs, demands, cap } => format!("fn.cumulative({},{},{},{cap})", show_vs(starts), crate::out::show_ints(durs), crate::out::show_ints(demands)),
            Con::OpForm { op, x, y, form } => if *form == 0 { format!("x{x}.{}_op(m,x{y})", op.name()) } else { format!("m.{}_op(x{x},x{y})", op.name()) },
            Con::BoolEx { e, mode } => format!("{}({})", ["post_true", "post_false", "must_be_true", "must_be_false"][*mode as usize % 4], e.show()),
        }
    }
    /// does the constraint hold under the assignment `a` of the user variables?
    /// `None`: some sub-term is undefined (zero divisor, index out of range) — not a solution.
    fn holds(&self, a: &[i64], q: Quirks) -> Option<bool> {
        let cnt = |vars: &[usize], t: i64| vars.iter().filter(|v| a[**v] == t).count() as i64;
        Some(match self {
            Con::Fluent { t, style } => t.holds(a, q, true, *style == 1)?,
            Con::Fun { f, then } => {
                let s = f.ev(a)?;
                match then {
                    Some((Cmp::Ne, e)) if q.ne_noop && e.as_built(false).lin_form().is_none() => e.ev(a).is_some(),
                    Some((op, e)) => op.test(s, e.ev(a)?),
                    None => true,
                }
            }
            Con::AllDiff(v, _) => (0..v.len()).all(|i| (0..i).all(|j| a[v[i]] != a[v[j]])),
            Con::AllEq(v, _) => v.iter().all(|i| a[*i] == a[v[0]]),
            Con::Element { arr, idx, val, .. } => {
                let i = a[*idx];
                i >= 0 && (i as usize) < arr.len() && a[arr[i as usize]] == a[*val]
            }
            Con::Table { vars, tuples, .. } => tuples.iter().any(|t| t.len() == vars.len() && t.iter().zip(vars).all(|(x, v)| *x as i64 == a[*v])),
            Con::Count { vars, target, cnt: c } => {
                let t = target.ev(a)?;
                cnt(vars, t.n) == a[*c]
            }
            Con::Between(l, m, u) => a[*l] <= a[*m] && a[*m] <= a[*u],
            Con::Card { kind, vars, val, n } => {
                let c = cnt(vars, *val as i64);
                match kind {
                    Card::AtLeast => c >= *n as i64,
                    Card::AtMost => c <= *n as i64,
                    Card::Exactly => c == *n as i64,
                }
            }
            Con::Gcc { vars, values, counts, .. } => values.iter().zip(counts).all(|(v, c)| cnt(vars, *v as i64) == a[*c]),
            Con::Implies(_, _, 1) if q.fn_implies => true,
            Con::Implies(x, y, _) => a[*x] != 1 || a[*y] == 1,
            Con::Clause { pos, neg } => pos.iter().any(|v| a[*v] != 0) || neg.iter().any(|v| a[*v] == 0),
            Con::Reif { op, x, y, b, .. } => (a[*b] == 1) == op.test(Rat::int(a[*x]), Rat::int(a[*y])),
            Con::Lin { rel, coeffs, vars, k, reif, .. } => {
                if q.zero_lin && reif.is_none() && coeffs.iter().all(|c| *c == 0) {
                    return Some(true);
                }
                let s: i64 = coeffs.iter().zip(vars).map(|(c, v)| *c as i64 * a[*v]).sum();
                let h = match rel {
                    Rel::Eq => s == *k as i64,
                    Rel::Le => s <= *k as i64,
                    Rel::Ne => s != *k as i64,
                };
                match reif {
                    Some(b) => (a[*b] == 1) == h,
                    None => h,
                }
            }
            Con::Elem2 { mat, r, c, val } => {
                let (i, j) = (a[*r], a[*c]);
                if q.ragged_stride {
                    let flat: Vec<&Term> = mat.iter().flatten().collect();
                    let cols = mat.first().map_or(0, |r| r.len()) as i64;
                    return Some(matches!(stride_cell(&flat, &[mat.len() as i64, cols], &[i, j]), Some(t) if cell_val(t, a) == a[*val]));
                }
                i >= 0 && (i as usize) < mat.len() && j >= 0 && (j as usize) < mat[i as usize].len() && cell_val(&mat[i as usize][j as usize], a) == a[*val]
            }
            Con::Elem3 { cube, d, r, c, val } => {
                let (k, i, j) = (a[*d], a[*r], a[*c]);
                if q.ragged_stride {
                    let flat: Vec<&Term> = cube.iter().flatten().flatten().collect();
                    let rows = cube.first().map_or(0, |l| l.len()) as i64;
                    let cols = cube.first().and_then(|l| l.first()).map_or(0, |r| r.len()) as i64;
                    return Some(matches!(stride_cell(&flat, &[cube.len() as i64, rows, cols], &[k, i, j]), Some(t) if cell_val(t, a) == a[*val]));
                }
                k >= 0
                    && (k as usize) < cube.len()
                    && i >= 0
                    && (i as usize) < cube[k as usize].len()
                    && j >= 0
                    && (j as usize) < cube[k as usize][i as usize].len()
                    && cell_val(&cube[k as usize][i as usize][j as usize], a) == a[*val]
            }
            Con::Table2 { mat, tuples } => mat.iter().all(|row| tuples.iter().any(|t| t.len() == row.len() && t.iter().zip(row).all(|(x, v)| *x as i64 == a[*v]))),
            Con::Table3 { cube, tuples } => cube.iter().flatten().all(|row| tuples.iter().any(|t| t.len() == row.len() && t.iter().zip(row).all(|(x, v)| *x as i64 == a[*v]))),
            Con::Float { f, conv } => {
                // (an empty interval is an unsatisfiable unit, not an undefined term)
                let Some((lo, hi)) = f.iv(a) else { return Some(false) };
                match conv {
                    Some((k, y, _)) if q.tol => k.of_f(lo as f64 / 4.0 - FTOL) <= a[*y] && a[*y] <= k.of_f(hi as f64 / 4.0 + FTOL),
                    Some((k, y, _)) => k.of_q(lo) <= a[*y] && a[*y] <= k.of_q(hi),
                    None => true,
                }
            }
            Con::Cumulative { starts, durs, demands, cap } => {
                let n = starts.len();
                if q.cum_pairs {
                    // the pairwise decomposition of the implementation
                    return Some((0..n).all(|i| {
                        (i + 1..n).all(|j| {
                            demands[i] + demands[j] <= *cap || a[starts[i]] + durs[i] as i64 <= a[starts[j]] || a[starts[j]] + durs[j] as i64 <= a[starts[i]]
                        })
                    }));
                }
                let t0 = starts.iter().map(|s| a[*s]).min().unwrap_or(0);
                let t1 = (0..n).map(|i| a[starts[i]] + durs[i].max(0) as i64).max().unwrap_or(0);
                (t0..t1).all(|t| (0..n).filter(|i| a[starts[*i]] <= t && t < a[starts[*i]] + durs[*i] as i64).map(|i| demands[i] as i64).sum::<i64>() <= *cap as i64)
            }
            Con::OpForm { op, x, y, .. } => op.test(Rat::int(a[*x]), Rat::int(a[*y])),
            Con::BoolEx { e, mode } => e.ev(a) == (*mode % 2 == 0),
        })
    }
    fn each_fun(&self, f: &mut dyn FnMut(&Fun)) {
        if let Con::Fun { f: g, .. } = self {
            g.each_fun(f);
        }
    }
}

/// kinds of deliberately malformed input (separate stream; requirement: never a panic)
#[derive(Clone, Copy, Debug, PartialEq, Eq)]
pub enum Mal {
    /// coefficient / variable length mismatch in a linear helper
    LinLen,
    /// `int(hi, lo)` with hi > lo, or `intset([])`
    Bounds,
    /// `min(&[])` / `max(&[])`
    EmptyMinMax,
    /// zero in the domain of a divisor (`/`, `%`)
    ZeroDivisor,
    /// element index domain entirely outside the array
    ElemIndex,
    /// gcc values/counts length mismatch, table row of wrong arity
    Arity,
    /// element_2d / element_3d over a matrix whose rows have different lengths
    Ragged,
}

impl Mal {
    fn name(self) -> &'static str {
        match self {
            Mal::LinLen => "lin-length-mismatch",
            Mal::Bounds => "reversed-or-empty-bounds",
            Mal::EmptyMinMax => "empty-min-max",
            Mal::ZeroDivisor => "zero-in-divisor-domain",
            Mal::ElemIndex => "element-index-out-of-range",
            Mal::Arity => "gcc-or-table-arity",
            Mal::Ragged => "ragged-matrix",
        }
    }
    /// the model has no solution by construction (so `Err`/unsat is required)
    fn must_be_unsat(self) -> bool {
        matches!(self, Mal::LinLen | Mal::Bounds | Mal::EmptyMinMax | Mal::ElemIndex)
    }
}

#[derive(Clone, Debug)]
pub struct Case {
    decls: Vec<VarDecl>,
    cons: Vec<Con>,
    mal: Option<Mal>,
}

impl Case {
    fn doms(&self) -> Vec<Vec<i32>> {
        self.decls.iter().map(|d| d.dom()).collect()
    }
    fn show(&self, vo: &[usize], co: &[usize], alt: Option<&Alt>) -> String {
        let vs: Vec<String> = vo.iter().map(|i| format!("x{i}={}", self.decls[*i].show())).collect();
        let cs: Vec<String> = co
            .iter()
            .map(|i| match alt {
                Some(al) if al.con == *i => {
                    let mut p: Vec<String> = al.posts.iter().map(|t| format!("new({})", t.show())).collect();
                    p.extend(al.cons.iter().map(|c| c.show()));
                    format!("{}{}", if al.fs { "[fn-exprs]" } else { "" }, p.join(" & "))
                }
                _ => self.cons[*i].show(),
            })
            .collect();
        format!("{} ; {}", vs.join(" "), cs.join(" ; "))
    }
    fn sat(&self, a: &[i64], q: Quirks) -> bool {
        self.cons.iter().all(|c| c.holds(a, q) == Some(true))
    }
    fn brute(&self, q: Quirks) -> Vec<Vec<i64>> {
        if matches!(self.mal, Some(m) if m.must_be_unsat()) {
            return vec![];
        }
        let doms = self.doms();
        let mut out = vec![];
        let mut a = vec![0i64; doms.len()];
        fn rec(c: &Case, doms: &[Vec<i32>], k: usize, a: &mut Vec<i64>, q: Quirks, out: &mut Vec<Vec<i64>>) {
            if k == doms.len() {
                if c.sat(a, q) {
                    out.push(a.clone());
                }
                return;
            }
            for v in &doms[k] {
                a[k] = *v as i64;
                rec(c, doms, k + 1, a, q, out);
            }
        }
        rec(self, &doms, 0, &mut a, q, &mut out);
        out
    }
}

/// an equivalent spelling of one fluent constraint (C10)
#[derive(Clone, Debug)]
pub struct Alt {
    con: usize,
    posts: Vec<CT>,
    /// replacement units (respelling of a non-fluent unit)
    cons: Vec<Con>,
    fs: bool,
    how: String,
}

// ------------------------------------------------------------------------------------------------
// building the real model
// ------------------------------------------------------------------------------------------------
fn new_model() -> Model {
    Model::with_config(sp::config::SolverConfig::default().with_timeout_ms(3000))
}

fn bex(e: &Ex, uv: &[VarId], fs: bool) -> ExprBuilder {
    match e {
        Ex::V(i) => ExprBuilder::from(uv[*i]),
        Ex::C(c) => if fs { ExprBuilder::from(sp::int(*c)) } else { ExprBuilder::from(*c) },
        Ex::B(op, a, b) => {
            let y = bex(b, uv, fs);
            if fs && *op != Bin::Mod {
                let x = bex(a, uv, fs);
                match op {
                    Bin::Add => sp::add(x, y),
                    Bin::Sub => sp::sub(x, y),
                    Bin::Mul => sp::mul(x, y),
                    _ => sp::div(x, y),
                }
            } else if let Ex::V(i) = **a {
                let x = uv[i];
                match op {
                    Bin::Add => VarIdExt::add(x, y),
                    Bin::Sub => VarIdExt::sub(x, y),
                    Bin::Mul => VarIdExt::mul(x, y),
                    Bin::Div => VarIdExt::div(x, y),
                    Bin::Mod => VarIdExt::modulo(x, y),
                }
            } else {
                let x = bex(a, uv, fs);
                match op {
                    Bin::Add => x.add(y),
                    Bin::Sub => x.sub(y),
                    Bin::Mul => x.mul(y),
                    Bin::Div => x.div(y),
                    Bin::Mod => x.modulo(y),
                }
            }
        }
    }
}

fn cmp_of(l: ExprBuilder, op: Cmp, r: ExprBuilder) -> Constraint {
    match op {
        Cmp::Eq => l.eq(r),
        Cmp::Ne => l.ne(r),
        Cmp::Lt => l.lt(r),
        Cmp::Le => l.le(r),
        Cmp::Gt => l.gt(r),
        Cmp::Ge => l.ge(r),
    }
}

fn bct(t: &CT, uv: &[VarId], fs: bool) -> Constraint {
    match t {
        CT::Cmp(l, op, r) => {
            let rb = bex(r, uv, fs);
            match (l, fs) {
                (Ex::V(i), false) => {
                    let x = uv[*i];
                    match op {
                        Cmp::Eq => VarIdExt::eq(x, rb),
                        Cmp::Ne => VarIdExt::ne(x, rb),
                        Cmp::Lt => VarIdExt::lt(x, rb),
                        Cmp::Le => VarIdExt::le(x, rb),
                        Cmp::Gt => VarIdExt::gt(x, rb),
                        Cmp::Ge => VarIdExt::ge(x, rb),
                    }
                }
                _ => cmp_of(bex(l, uv, fs), *op, rb),
            }
        }
        CT::And(a, b) => bct(a, uv, fs).and(bct(b, uv, fs)),
        CT::Or(a, b) => bct(a, uv, fs).or(bct(b, uv, fs)),
        CT::Not(a) => bct(a, uv, fs).not(),
    }
}

/// left-deep chain `x ∘ e1 ∘ e2 …` (what `m.c(x).add(e1).mul(e2)` can express)
fn chain(e: &Ex) -> Option<(usize, Vec<(Bin, &Ex)>)> {
    match e {
        Ex::V(i) => Some((*i, vec![])),
        Ex::B(op, a, b) if *op != Bin::Mod => {
            let (v, mut ops) = chain(a)?;
            ops.push((*op, &**b));
            Some((v, ops))
        }
        _ => None,
    }
}

fn post_fluent(m: &mut Model, t: &CT, style: u8, uv: &[VarId]) {
    match (style, t) {
        (1, _) => {
            m.new(bct(t, uv, true));
        }
        (2, CT::Cmp(l, op, r)) if chain(l).is_some() => {
            let (v, ops) = chain(l).unwrap();
            let rb = bex(r, uv, false);
            let ys: Vec<(Bin, ExprBuilder)> = ops.iter().map(|(o, e)| (*o, bex(e, uv, false))).collect();
            let mut b = m.c(uv[v]);
            for (o, y) in ys {
                b = match o {
                    Bin::Add => b.add(y),
                    Bin::Sub => b.sub(y),
                    Bin::Mul => b.mul(y),
                    _ => b.div(y),
                };
            }
            match op {
                Cmp::Eq => b.eq(rb),
                Cmp::Ne => b.ne(rb),
                Cmp::Lt => b.lt(rb),
                Cmp::Le => b.le(rb),
                Cmp::Gt => b.gt(rb),
                Cmp::Ge => b.ge(rb),
            };
        }
        (3, CT::Cmp(l, op, r)) => {
            let (lb, rb) = (bex(l, uv, false), bex(r, uv, false));
            match op {
                Cmp::Eq => sp::eq(m, lb, rb),
                Cmp::Ne => sp::ne(m, lb, rb),
                Cmp::Lt => sp::lt(m, lb, rb),
                Cmp::Le => sp::le(m, lb, rb),
                Cmp::Gt => sp::gt(m, lb, rb),
                Cmp::Ge => sp::ge(m, lb, rb),
            }
        }
        (4, CT::And(a, b)) => {
            m.post_and(vec![bct(a, uv, false), bct(b, uv, false)]);
        }
        (4, CT::Or(a, b)) => {
            m.post_or(vec![bct(a, uv, false), bct(b, uv, false)]);
        }
        (4, _) => {
            m.postall(vec![bct(t, uv, false)]);
        }
        (5, CT::And(a, b)) => {
            // (`all_of` / `and_all` and `any_of` / `or_all` are aliases: both spellings are used)
            let v = vec![bct(a, uv, false), bct(b, uv, false)];
            let c = if uv.len() % 2 == 0 { sp::all_of(v) } else { sp::and_all(v) }.unwrap();
            m.new(c);
        }
        (5, CT::Or(a, b)) => {
            let v = vec![bct(a, uv, false), bct(b, uv, false)];
            let c = if uv.len() % 2 == 0 { sp::any_of(v) } else { sp::or_all(v) }.unwrap();
            m.new(c);
        }
        (5, _) => {
            ConstraintVecExt::postall(vec![bct(t, uv, false)], m);
        }
        _ => {
            m.new(bct(t, uv, false));
        }
    }
}

enum TV {
    Var(VarId),
    Val(Val),
}

struct Built {
    m: Model,
    uv: Vec<VarId>,
    /// (result variable, its defining function) in creation order
    results: Vec<(VarId, Fun)>,
    /// index (in `case.cons`) of the unit being posted
    cur: usize,
    /// float variables (creation order) of every `Con::Float` unit: (unit index, variables)
    fl: Vec<(usize, Vec<VarId>)>,
}

fn build_ft(b: &mut Built, f: &FT, rec: &mut Vec<VarId>) -> Result<VarId, String> {
    let mut ks = vec![];
    for k in f.kids() {
        ks.push(build_ft(b, k, rec)?);
    }
    let v = match f {
        FT::Fresh(lo, hi) => b.m.float(q4(*lo), q4(*hi)),
        FT::OfInt(x, None) => sp::int2float(&mut b.m, b.uv[*x]),
        FT::OfInt(x, Some((lo, hi))) => {
            let v = b.m.float(q4(*lo), q4(*hi));
            b.m.int2float(b.uv[*x], v);
            v
        }
        FT::Const(c) => b.m.float(q4(*c), q4(*c)),
        FT::Min(_) => b.m.array_float_minimum(&ks).map_err(|e| err_name(&e).to_string())?,
        FT::Max(_) => b.m.array_float_maximum(&ks).map_err(|e| err_name(&e).to_string())?,
        FT::Elem(i, _, (lo, hi)) => {
            let r = b.m.float(q4(*lo), q4(*hi));
            b.m.array_float_element(b.uv[*i], &ks, r);
            r
        }
        FT::MulI(_, t, float_first) => match (t, *float_first) {
            (Term::V(x), true) => b.m.mul(ks[0], b.uv[*x]),
            (Term::V(x), false) => b.m.mul(b.uv[*x], ks[0]),
            (Term::K(c), true) => b.m.mul(ks[0], Val::ValI(*c)),
            (Term::K(c), false) => b.m.mul(Val::ValI(*c), ks[0]),
            (Term::F(_), _) => unreachable!(),
        },
    };
    rec.push(v);
    Ok(v)
}

fn cell_var(b: &mut Built, t: &Term) -> VarId {
    match t {
        Term::V(i) => b.uv[*i],
        Term::K(c) => b.m.int(*c, *c),
        Term::F(_) => unreachable!("matrix cells are variables or constants"),
    }
}

fn term_view(b: &mut Built, t: &Term) -> Result<TV, String> {
    Ok(match t {
        Term::V(i) => TV::Var(b.uv[*i]),
        Term::K(c) => TV::Val(Val::ValI(*c)),
        Term::F(f) => TV::Var(build_fun(b, f)?),
    })
}

fn term_var(b: &mut Built, t: &Term) -> Result<VarId, String> {
    match term_view(b, t)? {
        TV::Var(v) => Ok(v),
        TV::Val(Val::ValI(c)) => Ok(b.m.int(c, c)),
        TV::Val(Val::ValF(c)) => Ok(b.m.float(c, c)),
    }
}

fn build_fun(b: &mut Built, f: &Fun) -> Result<VarId, String> {
    let r = match f.k {
        FK::Add | FK::Sub | FK::Mul | FK::Div | FK::Mod => {
            let x = term_view(b, &f.args[0])?;
            let y = term_view(b, &f.args[1])?;
            let m = &mut b.m;
            let k = f.k;
            macro_rules! go {
                ($x:expr, $y:expr) => {
                    match k {
                        FK::Add => m.add($x, $y),
                        FK::Sub => m.sub($x, $y),
                        FK::Mul => m.mul($x, $y),
                        FK::Div => m.div($x, $y),
                        _ => m.modulo($x, $y),
                    }
                };
            }
            match (x, y) {
                (TV::Var(x), TV::Var(y)) => if k == FK::Mod && f.style == 1 { sp::modulo(m, x, y) } else { go!(x, y) },
                (TV::Var(x), TV::Val(y)) => go!(x, y),
                (TV::Val(x), TV::Var(y)) => go!(x, y),
                (TV::Val(x), TV::Val(y)) => go!(x, y),
            }
        }
        FK::Abs => match term_view(b, &f.args[0])? {
            TV::Var(x) => if f.style == 1 { sp::abs(&mut b.m, x) } else { b.m.abs(x) },
            TV::Val(x) => b.m.abs(x),
        },
        FK::Min | FK::Max => {
            let mut vs = vec![];
            for t in &f.args {
                vs.push(term_var(b, t)?);
            }
            let m = &mut b.m;
            let r = match (f.k, f.style) {
                (FK::Min, 1) => sp::min(m, &vs),
                (FK::Min, 2) => m.array_int_minimum(&vs),
                (FK::Min, _) => m.min(&vs),
                (_, 1) => sp::max(m, &vs),
                (_, 2) => m.array_int_maximum(&vs),
                _ => m.max(&vs),
            };
            r.map_err(|e| err_name(&e).to_string())?
        }
        FK::Sum => {
            let mut vs = vec![];
            for t in &f.args {
                vs.push(term_var(b, t)?);
            }
            match f.style {
                1 => sp::sum(&mut b.m, &vs),
                2 => b.m.sum_iter(vs.iter().copied()),
                _ => b.m.sum(&vs),
            }
        }
        FK::B2I => {
            let x = term_var(b, &f.args[0])?;
            sp::bool2int(&mut b.m, x)
        }
        FK::BAnd | FK::BOr => {
            let mut vs = vec![];
            for t in &f.args {
                vs.push(term_var(b, t)?);
            }
            let m = &mut b.m;
            match (f.k, f.style == 1 && vs.len() == 2) {
                (FK::BAnd, true) => sp::and(m, vs[0], vs[1]),
                (FK::BAnd, false) => m.bool_and(&vs),
                (_, true) => sp::or(m, vs[0], vs[1]),
                _ => m.bool_or(&vs),
            }
        }
        FK::BNot => {
            let x = term_var(b, &f.args[0])?;
            if f.style == 1 { sp::not(&mut b.m, x) } else { b.m.bool_not(x) }
        }
        FK::BXor => {
            let x = term_var(b, &f.args[0])?;
            let y = term_var(b, &f.args[1])?;
            if f.style == 1 { sp::xor(&mut b.m, x, y) } else { b.m.bool_xor(x, y) }
        }
        FK::Elem => {
            let mut vs = vec![];
            for t in &f.args {
                vs.push(term_var(b, t)?);
            }
            let idx = vs.pop().unwrap();
            sp::element(&mut b.m, &vs, idx)
        }
    };
    b.results.push((r, f.clone()));
    Ok(r)
}

fn vals(t: &[i32]) -> Vec<Val> {
    t.iter().map(|v| sp::int(*v)).collect()
}

fn post_con(b: &mut Built, c: &Con) -> Result<(), String> {
    let ids = |b: &Built, v: &[usize]| -> Vec<VarId> { v.iter().map(|i| b.uv[*i]).collect() };
    match c {
        Con::Fluent { t, style } => {
            let uv = b.uv.clone();
            post_fluent(&mut b.m, t, *style, &uv);
        }
        Con::Fun { f, then } => {
            let s = build_fun(b, f)?;
            if let Some((op, e)) = then {
                let rb = bex(e, &b.uv, false);
                b.m.new(cmp_of(ExprBuilder::from(s), *op, rb));
            }
        }
        Con::AllDiff(v, s) => {
            let v = ids(b, v);
            if *s == 1 { sp::alldiff(&mut b.m, &v) } else { Model::alldiff(&mut b.m, &v); }
        }
        Con::AllEq(v, s) => {
            let v = ids(b, v);
            if *s == 1 { sp::alleq(&mut b.m, &v) } else { Model::alleq(&mut b.m, &v); }
        }
        Con::Element { arr, idx, val, style } => {
            let a = ids(b, arr);
            let (i, v) = (b.uv[*idx], b.uv[*val]);
            match style {
                1 => { b.m.elem(&a, i, v); }
                2 => b.m.array_int_element(i, &a, v),
                _ => { b.m.element(&a, i, v); }
            }
        }
        Con::Table { vars, tuples, style } => {
            let v = ids(b, vars);
            let t: Vec<Vec<Val>> = tuples.iter().map(|t| vals(t)).collect();
            if *style == 1 { sp::table(&mut b.m, &v, &t); } else { b.m.table(&v, t); }
        }
        Con::Count { vars, target, cnt } => {
            let v = ids(b, vars);
            let c = b.uv[*cnt];
            match target {
                Term::K(k) => { Model::count(&mut b.m, &v, sp::int(*k), c); }
                t => {
                    let tv = term_var(b, t)?;
                    Model::count(&mut b.m, &v, tv, c);
                }
            }
        }
        Con::Between(l, m, u) => {
            let (l, mm, u) = (b.uv[*l], b.uv[*m], b.uv[*u]);
            b.m.between(l, mm, u);
        }
        Con::Card { kind, vars, val, n } => {
            let v = ids(b, vars);
            match kind {
                Card::AtLeast => b.m.at_least(&v, *val, *n),
                Card::AtMost => b.m.at_most(&v, *val, *n),
                Card::Exactly => b.m.exactly(&v, *val, *n),
            };
        }
        Con::Gcc { vars, values, counts, style } => {
            let v = ids(b, vars);
            let c = ids(b, counts);
            if *style == 1 { sp::gcc(&mut b.m, &v, values, &c); } else { Model::gcc(&mut b.m, &v, values, &c); }
        }
        Con::Implies(x, y, s) => {
            let (x, y) = (b.uv[*x], b.uv[*y]);
            if *s == 1 { sp::implies(&mut b.m, x, y) } else { b.m.implies(x, y) }
        }
        Con::Clause { pos, neg } => {
            let (p, n) = (ids(b, pos), ids(b, neg));
            b.m.bool_clause(&p, &n);
        }
        Con::Reif { op, x, y, b: r, style } => {
            let (x, y, r) = (b.uv[*x], b.uv[*y], b.uv[*r]);
            let m = &mut b.m;
            match (op, *style == 1) {
                (Cmp::Eq, false) => m.eq_reif(x, y, r),
                (Cmp::Ne, false) => m.ne_reif(x, y, r),
                (Cmp::Lt, false) => m.lt_reif(x, y, r),
                (Cmp::Le, false) => m.le_reif(x, y, r),
                (Cmp::Gt, false) => m.gt_reif(x, y, r),
                (Cmp::Ge, false) => m.ge_reif(x, y, r),
                (Cmp::Eq, true) => sp::eq_reif(m, x, y, r),
                (Cmp::Ne, true) => sp::ne_reif(m, x, y, r),
                (Cmp::Lt, true) => sp::lt_reif(m, x, y, r),
                (Cmp::Le, true) => sp::le_reif(m, x, y, r),
                (Cmp::Gt, true) => sp::gt_reif(m, x, y, r),
                (Cmp::Ge, true) => sp::ge_reif(m, x, y, r),
            }
        }
        Con::Lin { rel, coeffs, vars, k, reif, boolapi, style } => {
            let v = ids(b, vars);
            let r = reif.map(|r| b.uv[r]);
            let m = &mut b.m;
            let (cs, k) = (&coeffs[..], *k);
            match (rel, r, *boolapi, *style == 1) {
                (Rel::Eq, None, true, _) => m.bool_lin_eq(cs, &v, k),
                (Rel::Le, None, true, _) => m.bool_lin_le(cs, &v, k),
                (Rel::Ne, None, true, _) => m.bool_lin_ne(cs, &v, k),
                (Rel::Eq, Some(r), true, _) => m.bool_lin_eq_reif(cs, &v, k, r),
                (Rel::Le, Some(r), true, _) => m.bool_lin_le_reif(cs, &v, k, r),
                (Rel::Ne, Some(r), true, _) => m.bool_lin_ne_reif(cs, &v, k, r),
                (Rel::Eq, None, false, false) => m.lin_eq(cs, &v, k),
                (Rel::Le, None, false, false) => m.lin_le(cs, &v, k),
                (Rel::Ne, None, false, false) => m.lin_ne(cs, &v, k),
                (Rel::Eq, Some(r), false, false) => m.lin_eq_reif(cs, &v, k, r),
                (Rel::Le, Some(r), false, false) => m.lin_le_reif(cs, &v, k, r),
                (Rel::Ne, Some(r), false, false) => m.lin_ne_reif(cs, &v, k, r),
                (Rel::Eq, None, false, true) => sp::lin_eq(m, cs, &v, k),
                (Rel::Le, None, false, true) => sp::lin_le(m, cs, &v, k),
                (Rel::Ne, None, false, true) => sp::lin_ne(m, cs, &v, k),
                (Rel::Eq, Some(r), false, true) => sp::lin_eq_reif(m, cs, &v, k, r),
                (Rel::Le, Some(r), false, true) => sp::lin_le_reif(m, cs, &v, k, r),
                (Rel::Ne, Some(r), false, true) => sp::lin_ne_reif(m, cs, &v, k, r),
            }
        }
        Con::Elem2 { mat, r, c, val } => {
            let mv: Vec<Vec<VarId>> = mat.iter().map(|row| row.iter().map(|t| cell_var(b, t)).collect()).collect();
            let (r, c, v) = (b.uv[*r], b.uv[*c], b.uv[*val]);
            b.m.element_2d(&mv, r, c, v);
        }
        Con::Elem3 { cube, d, r, c, val } => {
            let cv: Vec<Vec<Vec<VarId>>> = cube.iter().map(|l| l.iter().map(|row| row.iter().map(|t| cell_var(b, t)).collect()).collect()).collect();
            let (d, r, c, v) = (b.uv[*d], b.uv[*r], b.uv[*c], b.uv[*val]);
            b.m.element_3d(&cv, d, r, c, v);
        }
        Con::Table2 { mat, tuples } => {
            let mv: Vec<Vec<VarId>> = mat.iter().map(|row| ids(b, row)).collect();
            b.m.table_2d(&mv, tuples.iter().map(|t| vals(t)).collect());
        }
        Con::Table3 { cube, tuples } => {
            let cv: Vec<Vec<Vec<VarId>>> = cube.iter().map(|l| l.iter().map(|row| ids(b, row)).collect()).collect();
            b.m.table_3d(&cv, tuples.iter().map(|t| vals(t)).collect());
        }
        Con::Float { f, conv } => {
            let mut rec = vec![];
            let built = build_ft(b, f, &mut rec);
            // (the variables created so far are recorded even if a constructor failed)
            let fv = match built {
                Ok(v) => v,
                Err(e) => {
                    b.fl.push((b.cur, rec));
                    return Err(e);
                }
            };
            if let Some((k, y, style)) = conv {
                let y = b.uv[*y];
                let m = &mut b.m;
                if *style == 1 {
                    let r = match k {
                        Conv::Floor => sp::floor(m, fv),
                        Conv::Ceil => sp::ceil(m, fv),
                        Conv::Round => sp::round(m, fv),
                    };
                    m.new(VarIdExt::eq(r, ExprBuilder::from(y)));
                    rec.push(r);
                } else {
                    match k {
                        Conv::Floor => m.float2int_floor(fv, y),
                        Conv::Ceil => m.float2int_ceil(fv, y),
                        Conv::Round => m.float2int_round(fv, y),
                    }
                }
            }
            b.fl.push((b.cur, rec));
        }
        Con::Cumulative { starts, durs, demands, cap } => {
            let v = ids(b, starts);
            sp::cumulative(&mut b.m, &v, durs, demands, *cap);
        }
        Con::OpForm { op, x, y, form } => {
            use selen::constraints::operators::ComparisonOp;
            let (x, y) = (b.uv[*x], b.uv[*y]);
            let m = &mut b.m;
            match (op, *form == 0) {
                (Cmp::Eq, true) => x.eq_op(m, y),
                (Cmp::Ne, true) => x.ne_op(m, y),
                (Cmp::Lt, true) => x.lt_op(m, y),
                (Cmp::Le, true) => x.le_op(m, y),
                (Cmp::Gt, true) => x.gt_op(m, y),
                (Cmp::Ge, true) => x.ge_op(m, y),
                (Cmp::Eq, false) => m.eq_op(x, y),
                (Cmp::Ne, false) => m.ne_op(x, y),
                (Cmp::Lt, false) => m.lt_op(x, y),
                (Cmp::Le, false) => m.le_op(x, y),
                (Cmp::Gt, false) => m.gt_op(x, y),
                (Cmp::Ge, false) => m.ge_op(x, y),
            }
        }
        Con::BoolEx { e, mode } => {
            use selen::constraints::boolean_operators::{BoolExpr, BooleanModel};
            let ex = match e.build(&b.uv) { Ok(v) => BoolExpr::from(v), Err(e) => e };
            match *mode % 4 {
                0 => b.m.post_true(ex),
                1 => b.m.post_false(ex),
                2 => ex.must_be_true(&mut b.m),
                _ => ex.must_be_false(&mut b.m),
            }
        }
    }
    Ok(())
}

/// declare the user variables in the order `vo`, post the constraints in the order `co`
fn build(case: &Case, vo: &[usize], co: &[usize], alt: Option<&Alt>) -> Result<Built, String> {
    let mut m = new_model();
    let mut uv: Vec<Option<VarId>> = vec![None; case.decls.len()];
    let mut k = 0;
    while k < vo.len() {
        let d = &case.decls[vo[k]];
        // `ints(n, ..)` / `bools(n)` for runs of identical declarations
        let mut run = 1;
        while k + run < vo.len() && case.decls[vo[k + run]] == *d && !matches!(d, VarDecl::Set(_)) {
            run += 1;
        }
        if run > 1 {
            let ids = match d {
                VarDecl::Int(a, b) => m.ints(run, *a, *b),
                _ => m.bools(run),
            };
            for (j, id) in ids.into_iter().enumerate() {
                uv[vo[k + j]] = Some(id);
            }
            k += run;
            continue;
        }
        uv[vo[k]] = Some(match d {
            VarDecl::Int(a, b) => m.int(*a, *b),
            VarDecl::Set(v) => m.intset(v.clone()),
            VarDecl::Bool => m.bool(),
        });
        k += 1;
    }
    let mut b = Built { m, uv: uv.into_iter().map(|v| v.unwrap()).collect(), results: vec![], cur: 0, fl: vec![] };
    for i in co {
        b.cur = *i;
        match alt {
            Some(al) if al.con == *i => {
                for t in &al.posts {
                    let c = bct(t, &b.uv, al.fs);
                    b.m.new(c);
                }
                // (a respelled unit never contains float terms)
                b.cur = usize::MAX;
                for c in &al.cons {
                    post_con(&mut b, c)?;
                }
            }
            _ => post_con(&mut b, &case.cons[*i])?,
        }
    }
    Ok(b)
}

fn err_name(e: &SolverError) -> &'static str {
    match e {
        SolverError::NoSolution { .. } => "NoSolution",
        SolverError::Timeout { .. } => "Timeout",
        SolverError::MemoryLimit { .. } => "MemoryLimit",
        SolverError::InvalidConstraint { .. } => "InvalidConstraint",
        SolverError::ConflictingConstraints { .. } => "ConflictingConstraints",
        SolverError::InvalidDomain { .. } => "InvalidDomain",
        SolverError::InvalidVariable { .. } => "InvalidVariable",
        SolverError::InternalError { .. } => "InternalError",
        SolverError::InvalidInput { .. } => "InvalidInput",
    }
}

// ------------------------------------------------------------------------------------------------
// solver calls
// ------------------------------------------------------------------------------------------------
#[derive(Clone, Copy, Debug, PartialEq)]
enum XV {
    I(i64),
    F(f64),
}

impl XV {
    fn of(v: Val) -> XV {
        match v {
            Val::ValI(i) => XV::I(i as i64),
            Val::ValF(f) => XV::F(f),
        }
    }
    fn show(self) -> String {
        match self {
            XV::I(i) => format!("{i}"),
            XV::F(f) => format!("{f:?}"),
        }
    }
    fn matches(self, r: Rat) -> bool {
        match self {
            XV::I(i) => r.is_int() && r.n == i,
            XV::F(f) => (f - r.f()).abs() <= 1e-6,
        }
    }
}

#[derive(Clone, Debug)]
struct SolV {
    /// values of the user variables (original numbering)
    user: Vec<XV>,
    /// values of the result variables (creation order)
    res: Vec<XV>,
    /// all variables of the solver model including hidden auxiliaries (enumerate only)
    full: String,
    /// values of the float variables of the `Con::Float` units: (unit index, values in creation order)
    fl: Vec<(usize, Vec<XV>)>,
    /// an accessor of `Solution` that disagrees with the indexed value `solution[x]`
    acc: Option<String>,
}

/// every way of reading a variable out of a `Solution` gives the value `solution[x]` gives
/// (`get_int`, `try_get_*`, `as_*`, `get_*_unchecked`, `get::<T>`, `try_get::<T>`, `get_bool`, `get_values*`)
fn accessors_agree(s: &Solution, vars: &[VarId]) -> Option<String> {
    for (k, v) in vars.iter().enumerate() {
        let r = guarded(|| -> Option<String> {
            match s[*v] {
                Val::ValI(i) => {
                    if s.try_get_int(*v).ok() != Some(i) { return Some(format!("try_get_int != {i}")); }
                    if s.get_int(*v) != i { return Some(format!("get_int != {i}")); }
                    if s.get_int_unchecked(*v) != i { return Some(format!("get_int_unchecked != {i}")); }
                    if s.as_int(*v) != Some(i) { return Some(format!("as_int != Some({i})")); }
                    if s.as_float(*v).is_some() { return Some("as_float is Some on an integer value".into()); }
                    if s.try_get_float(*v).is_ok() { return Some("try_get_float is Ok on an integer value".into()); }
                    let g: i32 = s.get(*v);
                    if g != i { return Some(format!("get::<i32> != {i}")); }
                    let tg: Result<i32, _> = s.try_get(*v);
                    if tg.ok() != Some(i) { return Some(format!("try_get::<i32> != {i}")); }
                    let b = match i { 0 => Some(false), 1 => Some(true), _ => None };
                    if s.as_bool(*v) != b { return Some(format!("as_bool on {i}")); }
                    if s.get_bool(*v).ok() != b { return Some(format!("get_bool on {i}")); }
                    if s.try_get_bool(*v).ok() != b { return Some(format!("try_get_bool on {i}")); }
                }
                Val::ValF(f) => {
                    if s.try_get_float(*v).ok().map(f64::to_bits) != Some(f.to_bits()) { return Some(format!("try_get_float != {f:?}")); }
                    if s.get_float(*v).to_bits() != f.to_bits() { return Some(format!("get_float != {f:?}")); }
                    if s.get_float_unchecked(*v).to_bits() != f.to_bits() { return Some(format!("get_float_unchecked != {f:?}")); }
                    if s.as_float(*v).map(f64::to_bits) != Some(f.to_bits()) { return Some(format!("as_float != Some({f:?})")); }
                    if s.as_int(*v).is_some() { return Some("as_int is Some on a float value".into()); }
                    if s.try_get_int(*v).is_ok() { return Some("try_get_int is Ok on a float value".into()); }
                    let g: f64 = s.get(*v);
                    if g.to_bits() != f.to_bits() { return Some(format!("get::<f64> != {f:?}")); }
                }
            }
            None
        });
        match r {
            None => return Some(format!("variable #{k}: an accessor panicked on a value of its own kind")),
            Some(Some(why)) => return Some(format!("variable #{k}: {why}")),
            Some(None) => {}
        }
    }
    let same = |a: &[Val], b: &[Val]| a.len() == b.len() && a.iter().zip(b).all(|(x, y)| XV::of(*x).show() == XV::of(*y).show());
    let want: Vec<Val> = vars.iter().map(|v| s[*v]).collect();
    if !same(&s.get_values(vars), &want) { return Some("get_values differs from indexing".into()); }
    if !same(&s.get_values_iter(vars.iter().copied()).collect::<Vec<_>>(), &want) { return Some("get_values_iter differs from indexing".into()); }
    None
}

#[derive(Clone, Copy, Debug, PartialEq)]
enum Call {
    Solve,
    Enumerate,
    Minimize(usize),
    Maximize(usize),
    MinIter(usize),
    MaxIter(usize),
}

impl Call {
    fn show(self) -> String {
        match self {
            Call::Solve => "solve()".into(),
            Call::Enumerate => "enumerate()".into(),
            Call::Minimize(v) => format!("minimize(x{v})"),
            Call::Maximize(v) => format!("maximize(x{v})"),
            Call::MinIter(v) => format!("minimize_and_iterate(x{v})"),
            Call::MaxIter(v) => format!("maximize_and_iterate(x{v})"),
        }
    }
    fn name(self) -> &'static str {
        match self {
            Call::Solve => "solve",
            Call::Enumerate => "enumerate",
            Call::Minimize(_) => "minimize",
            Call::Maximize(_) => "maximize",
            Call::MinIter(_) => "minimize_and_iterate",
            Call::MaxIter(_) => "maximize_and_iterate",
        }
    }
    fn is_opt(self) -> bool {
        !matches!(self, Call::Solve | Call::Enumerate)
    }
}

enum Res {
    One(SolV),
    Err(String),
    Many(Vec<SolV>),
    BuildErr(String),
    Panic,
}

struct CallOut {
    res: Res,
    funs: Vec<Fun>,
    lp: bool,
    fp: bool,
    vo: Vec<usize>,
    co: Vec<usize>,
    alt: Option<Alt>,
}

const CAP: usize = 20000;

fn run_call(case: &Case, vo: &[usize], co: &[usize], alt: Option<&Alt>, call: Call, scratch: &[VarId]) -> CallOut {
    hooks::take_path_flags();
    let mut funs: Vec<Fun> = vec![];
    let r = guarded(|| {
        let b = match build(case, vo, co, alt) {
            Ok(b) => b,
            Err(e) => return Res::BuildErr(e),
        };
        let Built { m, uv, results, fl, .. } = b;
        funs = results.iter().map(|r| r.1.clone()).collect();
        let rv: Vec<VarId> = results.iter().map(|r| r.0).collect();
        let nvars = std::cell::Cell::new(None::<usize>);
        let ext = |s: &Solution, full: bool| -> SolV {
            let mut key = String::new();
            if full {
                if nvars.get().is_none() {
                    let mut n = 0;
                    while n < scratch.len() && guarded(|| s[scratch[n]]).is_some() {
                        n += 1;
                    }
                    nvars.set(Some(n));
                }
                for id in &scratch[..nvars.get().unwrap()] {
                    let _ = write!(key, "{},", XV::of(s[*id]).show());
                }
            }
            SolV {
                user: uv.iter().map(|v| XV::of(s[*v])).collect(),
                res: rv.iter().map(|v| XV::of(s[*v])).collect(),
                full: key,
                fl: fl.iter().map(|(i, vs)| (*i, vs.iter().map(|v| XV::of(s[*v])).collect())).collect(),
                acc: accessors_agree(s, &uv).or_else(|| accessors_agree(s, &fl.iter().flat_map(|(_, vs)| vs.iter().copied()).collect::<Vec<_>>())),
            }
        };
        let one = |r: Result<Solution, SolverError>| match r {
            Ok(s) => Res::One(ext(&s, false)),
            Err(e) => Res::Err(format!("{}: {}", err_name(&e), e).chars().take(220).collect()),
        };
        match call {
            Call::Solve => one(m.solve()),
            Call::Enumerate => Res::Many(m.enumerate().take(CAP).map(|s| ext(&s, true)).collect()),
            Call::Minimize(v) => one(m.minimize(uv[v])),
            Call::Maximize(v) => one(m.maximize(uv[v])),
            Call::MinIter(v) => Res::Many(m.minimize_and_iterate(uv[v]).take(CAP).map(|s| ext(&s, false)).collect()),
            Call::MaxIter(v) => Res::Many(m.maximize_and_iterate(uv[v]).take(CAP).map(|s| ext(&s, false)).collect()),
        }
    });
    let (lp, fp) = hooks::take_path_flags();
    CallOut { res: r.unwrap_or(Res::Panic), funs, lp, fp, vo: vo.to_vec(), co: co.to_vec(), alt: alt.cloned() }
}

fn show_xs(v: &[XV]) -> String {
    v.iter().map(|x| x.show()).collect::<Vec<_>>().join(",")
}

fn render(c: &CallOut) -> String {
    let body = match &c.res {
        Res::One(s) => format!("ok x=[{}] r=[{}]", show_xs(&s.user), show_xs(&s.res)),
        Res::Err(e) => format!("err {}", e.split(':').next().unwrap_or("")),
        Res::Many(v) => format!("n={} [{}]", v.len(), v.iter().map(|s| show_xs(&s.user)).collect::<Vec<_>>().join(";")),
        Res::BuildErr(e) => format!("builderr {e}"),
        Res::Panic => "panic".to_string(),
    };
    format!("{body} lp={} fp={}", c.lp as u8, c.fp as u8)
}

/// user assignment of a returned solution as integers (`None` if some user variable is not integral)
fn user_ints(s: &SolV) -> Option<Vec<i64>> {
    s.user.iter().map(|x| match x { XV::I(i) => Some(*i), XV::F(_) => None }).collect()
}

/// C01: domains, constraints, result variables
fn unsound(case: &Case, funs: &[Fun], s: &SolV, q: Quirks) -> Option<String> {
    // a returned assignment is judged under the tolerant reading of the float conversions
    let q = Quirks { tol: true, ..q };
    let Some(a) = user_ints(s) else {
        return Some(format!("a user variable has a non-integer value: [{}]", show_xs(&s.user)));
    };
    let doms = case.doms();
    for (i, v) in a.iter().enumerate() {
        if !doms[i].iter().any(|d| *d as i64 == *v) {
            return Some(format!("x{i}={v} is outside its declared domain {}", case.decls[i].show()));
        }
    }
    for c in &case.cons {
        match c.holds(&a, q) {
            Some(true) => {}
            Some(false) => return Some(format!("assignment {:?} violates {}", a, c.show())),
            None => return Some(format!("assignment {:?} makes {} undefined (zero divisor / index out of range)", a, c.show())),
        }
    }
    for (f, v) in funs.iter().zip(&s.res) {
        match f.ev(&a) {
            Some(want) if v.matches(want) => {}
            Some(want) => return Some(format!("result variable of {} is {} but should be {} under {:?}", f.show(), v.show(), want.show(), a)),
            None => return Some(format!("result variable of {} is undefined under {:?}", f.show(), a)),
        }
    }
    // float units: every float variable within FTOL of its documented value, the conversion exact on
    // some value within FTOL of the returned one
    for (i, c) in case.cons.iter().enumerate() {
        if let Con::Float { f, conv } = c {
            let Some((_, vals)) = s.fl.iter().find(|e| e.0 == i) else { continue };
            let mut it = vals.iter();
            let v = match f.check(&a, &mut it, q.wide_tol) {
                Ok(v) => v,
                Err(why) => return Some(format!("under {:?}: {why}", a)),
            };
            if let Some((k, y, style)) = conv {
                let t = if q.wide_tol { wide_tol(v) } else { FTOL };
                let (lo, hi) = (k.of_f(v - t), k.of_f(v + t));
                if a[*y] < lo || a[*y] > hi {
                    return Some(format!("x{y} = {} is not {} of {} = {v:?}", a[*y], k.name(*style), f.show()));
                }
                if *style == 1 {
                    match it.next() {
                        Some(XV::I(r)) if *r == a[*y] => {}
                        other => return Some(format!("result variable of {} is {:?} but x{y} = {}", k.name(1), other, a[*y])),
                    }
                }
            }
        }
    }
    None
}

// ------------------------------------------------------------------------------------------------
// known-finding matchers
// ------------------------------------------------------------------------------------------------
fn exists_asg(case: &Case, pred: &dyn Fn(&[i64]) -> bool) -> bool {
    let doms = case.doms();
    let mut a = vec![0i64; doms.len()];
    fn rec(doms: &[Vec<i32>], k: usize, a: &mut Vec<i64>, pred: &dyn Fn(&[i64]) -> bool) -> bool {
        if k == doms.len() {
            return pred(a);
        }
        for v in &doms[k] {
            a[k] = *v as i64;
            if rec(doms, k + 1, a, pred) {
                return true;
            }
        }
        false
    }
    rec(&doms, 0, &mut a, pred)
}

/// all fluent expressions of the case (including `then` clauses of result-variable units)
fn each_ex(case: &Case, f: &mut dyn FnMut(&Ex)) {
    for c in &case.cons {
        match c {
            Con::Fluent { t, .. } => t.each_cmp(true, &mut |l, _, r, _| {
                l.each_node(f);
                r.each_node(f);
            }),
            Con::Fun { then: Some((_, e)), .. } => e.each_node(f),
            _ => {}
        }
    }
}

struct Present {
    not: bool,
    or: bool,
    ne_noop: bool,
    zero_lin: bool,
    fn_implies: bool,
    ragged_stride: bool,
    cum_pairs: bool,
}

impl Present {
    fn all(&self) -> Quirks {
        Quirks {
            not_ign: self.not,
            or_and: self.or,
            ne_noop: self.ne_noop,
            zero_lin: self.zero_lin,
            fn_implies: self.fn_implies,
            ragged_stride: self.ragged_stride,
            cum_pairs: self.cum_pairs,
            tol: false,
            wide_tol: false,
        }
    }
}

fn present(case: &Case) -> Present {
    let mut p = Present { not: false, or: false, ne_noop: false, zero_lin: false, fn_implies: false, ragged_stride: false, cum_pairs: false };
    for c in &case.cons {
        match c {
            Con::Fluent { t, style } => {
                let fs = *style == 1;
                let t = &t.norm();
                p.not |= t.any(&|t| matches!(t, CT::Not(_)));
                p.or |= t.any(&|t| t.or_as_and(fs));
                p.ne_noop |= t.has_noop_ne(true, fs);
                t.each_cmp(true, &mut |l, _, r, top| {
                    let lin = top_lin(l, r, fs);
                    if top && !simple_var_val(l, r) {
                        if let Some(cs) = lin {
                            p.zero_lin |= cs.iter().all(|c| c.1 == 0);
                        }
                    }
                });
            }
            Con::Fun { then: Some((op, e)), .. } => {
                // `s.op(e)` is a top-level comparison with the variable `s` on the left
                if *op == Cmp::Ne && e.as_built(false).lin_form().is_none() {
                    p.ne_noop = true;
                }
            }
            Con::Lin { coeffs, reif: None, .. } => p.zero_lin |= coeffs.iter().all(|c| *c == 0),
            // (functions::implies was a no-op on the pinned tree; repaired by a `fix:` commit, so it is no longer a predicted quirk)
            Con::Implies(_, _, 1) => p.fn_implies = false,
            // (only a ragged matrix — malformed stream — is read differently from the documented meaning)
            Con::Elem2 { mat, .. } => p.ragged_stride |= mat.iter().any(|r| r.len() != mat[0].len()),
            Con::Elem3 { cube, .. } => p.ragged_stride |= cube.iter().any(|l| l.len() != cube[0].len() || l.iter().any(|r| r.len() != cube[0][0].len())),
            Con::Cumulative { .. } => p.cum_pairs = true,
            _ => {}
        }
    }
    // since fix 1172f09 `NotEquals` is checked at the leaves: the no-op quirk is gone
    p.ne_noop = false;
    p
}

fn quirk_singles(p: &Present) -> [(bool, Quirks, &'static str); 7] {
    [
        (p.not, Quirks { not_ign: true, ..Quirks::default() }, "not-ignored"),
        (p.or, Quirks { or_and: true, ..Quirks::default() }, "or-lowered-as-and"),
        (p.ne_noop, Quirks { ne_noop: true, ..Quirks::default() }, "neq-noop"),
        (p.zero_lin, Quirks { zero_lin: true, ..Quirks::default() }, "lin-all-zero-coefficients"),
        (p.fn_implies, Quirks { fn_implies: true, ..Quirks::default() }, "fn-implies-noop"),
        (p.ragged_stride, Quirks { ragged_stride: true, ..Quirks::default() }, "element-nd-ragged-matrix"),
        (p.cum_pairs, Quirks { cum_pairs: true, ..Quirks::default() }, "cumulative-pairwise-only"),
    ]
}

/// all `/` and `%` nodes of fluent expressions as built: (op, dividend, divisor)
fn fluent_divs(case: &Case) -> Vec<(Bin, Ex, Ex)> {
    let mut v = vec![];
    let mut grab = |e: &Ex, fs: bool| {
        e.as_built(fs).each_node(&mut |n| {
            if let Ex::B(op @ (Bin::Div | Bin::Mod), x, y) = n {
                v.push((*op, (**x).clone(), (**y).clone()));
            }
        })
    };
    for c in &case.cons {
        match c {
            Con::Fluent { t, style } => t.each_cmp(true, &mut |l, _, r, _| {
                grab(l, *style == 1);
                grab(r, *style == 1);
            }),
            Con::Fun { then: Some((_, e)), .. } => grab(e, false),
            _ => {}
        }
    }
    v
}

fn all_funs(case: &Case) -> Vec<Fun> {
    let mut v = vec![];
    for c in &case.cons {
        c.each_fun(&mut |f| v.push(f.clone()));
    }
    v
}

/// the quotient x / y has no exact f64 representation (reduced denominator not a power of two):
/// the Div propagator's float back-propagation (`x = s*y`, `y = x/s` with outward integer rounding)
/// may then prune the pair (x, y)
fn quotient_inexact(x: Rat, y: Rat) -> bool {
    match x.div(y) {
        Some(q) => (q.d & (q.d - 1)) != 0,
        None => false,
    }
}

/// a division of two constants inside `e`, which the method-style builder folds into a FLOAT literal
fn folded_const_div(e: &Ex, zero_only: bool) -> bool {
    match e {
        Ex::B(op, x, y) => {
            if *op == Bin::Div {
                if let (Ex::C(_), Ex::C(d)) = (x.as_built(false), y.as_built(false)) {
                    if !zero_only || d == 0 {
                        return true;
                    }
                }
            }
            folded_const_div(x, zero_only) || folded_const_div(y, zero_only)
        }
        _ => false,
    }
}

/// method-style `int(a).div(b)` on two constants is folded by the builder into a *float* constant
/// (`zero_only`: only divisions by the literal 0, which fold to ±infinity)
fn has_folded_const_div(case: &Case, zero_only: bool) -> bool {
    let walk = folded_const_div;
    let mut hit = false;
    for c in &case.cons {
        match c {
            Con::Fluent { t, style } if *style != 1 => t.each_cmp(true, &mut |l, _, r, _| hit |= walk(l, zero_only) || walk(r, zero_only)),
            Con::Fun { then: Some((_, e)), .. } => hit |= walk(e, zero_only),
            _ => {}
        }
    }
    hit
}

/// matchers that are not expressed as a predicted solution set
fn syntactic_tag(case: &Case) -> String {
    let divs = fluent_divs(case);
    let funs = all_funs(case);
    // a reified all-zero row: once the reification variable is fixed the row is posted unchecked
    if case.cons.iter().any(|c| matches!(c, Con::Lin { coeffs, reif: Some(_), .. } if coeffs.iter().all(|c| *c == 0))) {
        return "lin-all-zero-coefficients".into();
    }
    // (the Modulo propagator defects `modulo-negative`, `modulo-dividend-boundary-sampling` and
    // `modulo-divisor-boundary-sampling` were repaired by the `fix:` commits 1585566, 49b880e, 12c54d2:
    // their matchers are gone, a recurrence is an unlisted failure)
    // `int(3).div(-3)` folds to a float constant, the comparison becomes a float linear row over
    // integer variables
    let folded = has_folded_const_div(case, false);
    if folded {
        return "int-var-in-float-linear".into();
    }
    // a non-linear sub-expression whose value leaves the -1000..1000 auxiliary domain
    let mut nodes: Vec<Ex> = vec![];
    each_ex(case, &mut |e| {
        if matches!(e, Ex::B(..)) {
            nodes.push(e.clone());
        }
    });
    if nodes.iter().any(|e| exists_asg(case, &|a| matches!(e.ev(a), Some(r) if r.f().abs() > 1000.0))) {
        return "aux-var-clipped".into();
    }
    // a fluent quotient that is not an integer cannot be held by the integer auxiliary variable
    if divs.iter().any(|(op, x, y)| *op == Bin::Div && exists_asg(case, &|a| matches!((x.ev(a), y.ev(a)), (Some(p), Some(q)) if matches!(p.div(q), Some(s) if !s.is_int()))))
    {
        return "fluent-div-integer-aux".into();
    }
    // `Model::div`: quotients without an exact f64 representation are pruned by the back-propagation
    let fdivs: Vec<&Fun> = funs.iter().filter(|f| f.k == FK::Div).collect();
    if fdivs.iter().any(|f| exists_asg(case, &|a| matches!((f.args[0].ev(a), f.args[1].ev(a)), (Some(p), Some(q)) if quotient_inexact(p, q)))) {
        return "div-float-inexact-quotient".into();
    }
    // the float result of `Model::div` compared through an integer linear row
    if case.cons.iter().any(|c| matches!(c, Con::Fun { f, then: Some((_, e)) } if f.k == FK::Div && e.as_built(false).lin_form().is_some())) {
        return "div-result-in-int-linear".into();
    }
    "-".into()
}

/// findings that show as a rejection (`Err(InvalidConstraint)` / empty iterator) of a well-formed model
fn rejection_tag(case: &Case) -> Option<&'static str> {
    if fluent_divs(case).iter().any(|(_, _, y)| !matches!(y, Ex::V(_))) {
        return Some("fluent-nonvar-divisor-rejected");
    }
    if all_funs(case).iter().any(|f| matches!(f.k, FK::Div | FK::Mod) && f.args.iter().any(|t| matches!(t, Term::K(_)))) {
        return Some("divmod-constant-operand-rejected");
    }
    None
}

/// Some posted equality empties a domain *at posting time*: `x == c` with c outside the domain
/// (`remove_all_but`), or `x == y` whose bounds overlap although one domain has no value in the
/// overlap (`apply_var_eq_bounds`).  Any later call that reads the bounds of the emptied variable
/// (`m.mul`, `m.min`, `m.sum`, another `x == y` …) hits a debug assertion.
fn emptying_eq(case: &Case, alt: Option<&Alt>) -> bool {
    let doms = case.doms();
    let gap = |a: &[i64], b: &[i64]| -> bool {
        if a.is_empty() || b.is_empty() {
            return false;
        }
        let lo = a[0].max(b[0]);
        let hi = (*a.last().unwrap()).min(*b.last().unwrap());
        lo <= hi && (!a.iter().any(|x| *x >= lo && *x <= hi) || !b.iter().any(|x| *x >= lo && *x <= hi))
    };
    let d = |i: usize| -> Vec<i64> { doms[i].iter().map(|v| *v as i64).collect() };
    // a side without variables is folded to a constant by the smart constructors
    let konst = |e: &Ex| -> Option<i64> {
        match e.lin_form() { Some((cs, k)) if cs.is_empty() => Some(k), _ => None }
    };
    let outside = |t: &CT| match t {
        CT::Cmp(Ex::V(i), Cmp::Eq, Ex::C(k)) | CT::Cmp(Ex::C(k), Cmp::Eq, Ex::V(i)) => !doms[*i].contains(k),
        CT::Cmp(Ex::V(i), Cmp::Eq, Ex::V(j)) => gap(&d(*i), &d(*j)),
        CT::Cmp(Ex::V(i), Cmp::Eq, e) | CT::Cmp(e, Cmp::Eq, Ex::V(i)) => match konst(e) {
            Some(k) => !doms[*i].iter().any(|v| *v as i64 == k),
            None => false,
        },
        _ => false,
    };
    if alt.is_some_and(|a| a.posts.iter().any(outside)) {
        return true;
    }
    case.cons.iter().any(|c| match c {
        Con::Fluent { t, .. } => outside(&t.norm()),
        Con::Fun { f, then: Some((Cmp::Eq, e)) } => {
            // the result variable is an interval: its bounds, not its reachable values, count
            let mut vals: Vec<i64> = vec![];
            let all = Case { decls: case.decls.clone(), cons: vec![], mal: None }.brute(Quirks::default());
            for a in &all {
                if let Some(r) = f.ev(a) {
                    if r.is_int() {
                        vals.push(r.n);
                    }
                }
            }
            if vals.is_empty() {
                return false;
            }
            let (lo, hi) = (*vals.iter().min().unwrap(), *vals.iter().max().unwrap());
            let s: Vec<i64> = (lo..=hi).collect();
            match e {
                Ex::V(j) => gap(&s, &d(*j)),
                Ex::C(k) => (*k as i64) < lo || (*k as i64) > hi,
                _ => false,
            }
        }
        // `r = floor/ceil/round(f); r == y`: r is an interval computed from the bounds of f
        Con::Float { f, conv: Some((k, y, 1)) } => {
            let (lo, hi) = f.decl_bounds(&doms);
            let (lo, hi) = match k {
                Conv::Floor => (lo.floor() as i64, hi.floor() as i64),
                Conv::Ceil => (lo.ceil() as i64, hi.ceil() as i64),
                Conv::Round => (lo.round() as i64, hi.round() as i64),
            };
            lo <= hi && hi - lo < 1000 && gap(&(lo..=hi).collect::<Vec<i64>>(), &d(*y))
        }
        _ => false,
    })
}

struct Tagger<'a> {
    case: &'a Case,
    truth: &'a [Vec<i64>],
    /// semantics under which the checks run (all-false for the real oracle)
    q: Quirks,
    /// solution set predicted when every lowering defect present in the model is applied
    pred: Option<Vec<Vec<i64>>>,
    cached: Option<String>,
    scratch: &'a [VarId],
    /// false for the quiet re-checks (no tagging, no recursion)
    attribute: bool,
    /// assignments a solver answer may contain under the tolerant reading of the float conversions
    /// (`None`: same as `truth`)
    may: Option<Vec<Vec<i64>>>,
}

fn has_conv(case: &Case) -> bool {
    case.cons.iter().any(|c| matches!(c, Con::Float { conv: Some(_), .. }))
}

fn may_set(case: &Case, truth: &[Vec<i64>], q: Quirks) -> Option<Vec<Vec<i64>>> {
    if !has_conv(case) {
        return None;
    }
    let may = case.brute(Quirks { tol: true, ..q });
    if may == truth { None } else { Some(may) }
}

impl<'a> Tagger<'a> {
    fn new(case: &'a Case, truth: &'a [Vec<i64>], scratch: &'a [VarId]) -> Self {
        Tagger { case, truth, q: Quirks::default(), pred: None, cached: None, scratch, attribute: true, may: may_set(case, truth, Quirks::default()) }
    }
    /// would the outcome pass every check if `truth2` (semantics `q2`) were the specification?
    fn passes_under(&self, c: &CallOut, call: Call, truth2: &[Vec<i64>], q2: Quirks) -> bool {
        let mut tmp = Out::default();
        let mut quiet = Tagger { case: self.case, truth: truth2, q: q2, pred: None, cached: None, scratch: self.scratch, attribute: false, may: may_set(self.case, truth2, q2) };
        check_call(&mut tmp, 0, self.case, truth2, c, call, &mut quiet);
        tmp.oracle.is_empty()
    }
    fn passes(&self, c: &CallOut, call: Call) -> bool {
        self.passes_under(c, call, self.truth, Quirks::default())
    }
    /// a lowering-defect tag, only if the outcome is exactly what those defects predict
    fn quirk_tag(&mut self, c: &CallOut, call: Call) -> Option<String> {
        let p = present(self.case);
        let all = p.all();
        if all == Quirks::default() {
            return None;
        }
        if self.pred.is_none() {
            self.pred = Some(self.case.brute(all));
        }
        let pred = self.pred.clone().unwrap();
        if pred == self.truth || !self.passes_under(c, call, &pred, all) {
            return None;
        }
        let singles = quirk_singles(&p);
        for (here, q, tag) in singles {
            if here && self.case.brute(q) != self.truth {
                return Some(tag.to_string());
            }
        }
        singles.iter().find(|s| s.0).map(|s| s.2.to_string())
    }
    fn tag(&mut self, c: &CallOut, call: Call) -> String {
        if !self.attribute {
            return "-".into();
        }
        if let Some(m) = self.case.mal {
            let has_sols = matches!(&c.res, Res::One(_)) || matches!(&c.res, Res::Many(v) if !v.is_empty());
            let bad_row = self.case.cons.iter().any(|c| matches!(c, Con::Table { vars, tuples, .. } if tuples.iter().any(|t| t.len() != vars.len())));
            let plain_lin = self.case.cons.iter().any(|c| matches!(c, Con::Lin { coeffs, vars, reif: None, .. } if coeffs.len() != vars.len()));
            let reif_lin = self.case.cons.iter().any(|c| matches!(c, Con::Lin { coeffs, vars, reif: Some(_), .. } if coeffs.len() != vars.len()));
            // element_2d / element_3d over a ragged matrix: every returned assignment is exactly what the
            // first-row-stride access accepts (possibly together with one other defect of the model)
            let ragged_q = Quirks { ragged_stride: true, ..Quirks::default() };
            let sols: Vec<&SolV> = match &c.res { Res::One(s) => vec![s], Res::Many(v) => v.iter().collect(), _ => vec![] };
            let sound_under = |q: Quirks| !sols.is_empty() && sols.iter().all(|s| unsound(self.case, &c.funs, s, q).is_none());
            let strided = m == Mal::Ragged && sound_under(ragged_q);
            if m == Mal::Ragged && !strided {
                let p = present(self.case);
                for (here, q, t) in quirk_singles(&p) {
                    if here && !q.ragged_stride && sound_under(Quirks { ragged_stride: true, ..q }) {
                        return format!("element-nd-ragged-matrix+{t}");
                    }
                }
                let nd_strided = !sols.is_empty()
                    && sols.iter().all(|s| {
                        user_ints(s).is_some_and(|a| self.case.cons.iter().filter(|c| matches!(c, Con::Elem2 { .. } | Con::Elem3 { .. })).all(|c| c.holds(&a, ragged_q) == Some(true)))
                    });
                if nd_strided {
                    let t = syntactic_tag(self.case);
                    if t != "-" {
                        return format!("element-nd-ragged-matrix+{t}");
                    }
                }
            }
            let specific: Option<&str> = match m {
                Mal::Ragged if strided => Some("element-nd-ragged-matrix"),
                Mal::LinLen if reif_lin => Some("lin-reif-length-unchecked"),
                Mal::ZeroDivisor if has_folded_const_div(self.case, true) => Some("constant-division-by-zero-folded"),
                Mal::Bounds if matches!(c.res, Res::Panic) => Some("empty-domain-view-panic"),
                Mal::LinLen if plain_lin && has_sols && matches!(call, Call::Enumerate | Call::MinIter(_) | Call::MaxIter(_)) => Some("iterators-ignore-validation-error"),
                _ if matches!(c.res, Res::Panic) && emptying_eq(self.case, c.alt.as_ref()) => Some("empty-domain-view-panic"),
                _ => None,
            };
            if let Some(t) = specific {
                return t.into();
            }
            if m.must_be_unsat() || matches!(c.res, Res::Panic) {
                return format!("malformed-{}", m.name());
            }
            // zero-divisor / arity streams: the other constraints of the model are judged as usual
            if let Some(t) = self.quirk_tag(c, call) {
                return t;
            }
            let t = syntactic_tag(self.case);
            return if t == "-" { format!("malformed-{}", m.name()) } else { t };
        }
        if matches!(c.res, Res::Panic) && emptying_eq(self.case, c.alt.as_ref()) {
            return "empty-domain-view-panic".into();
        }
        let rejected = matches!(&c.res, Res::Err(e) if e.starts_with("InvalidConstraint")) || matches!(&c.res, Res::Many(v) if v.is_empty());
        if rejected {
            if let Some(t) = rejection_tag(self.case) {
                return t.into();
            }
        }
        if let Some(t) = self.quirk_tag(c, call) {
            return t;
        }
        // a float value misses its documented value by more than FTOL but by less than the tolerance
        // of the crate's own bound setters, and nothing else is wrong
        if self.case.cons.iter().any(|c| matches!(c, Con::Float { .. })) && !self.passes(c, call) && self.passes_under(c, call, self.truth, Quirks { wide_tol: true, ..Quirks::default() }) {
            return "float-relative-bound-tolerance".into();
        }
        // … the same together with the lowering defects of the model
        if self.case.cons.iter().any(|c| matches!(c, Con::Float { .. })) {
            let p = present(self.case);
            let all = p.all();
            if all != Quirks::default() {
                let pred = self.case.brute(all);
                if pred != self.truth && self.passes_under(c, call, &pred, Quirks { wide_tol: true, ..all }) {
                    let singles = quirk_singles(&p);
                    let hit = singles.iter().find(|(here, q, _)| *here && self.case.brute(*q) != self.truth).or_else(|| singles.iter().find(|s| s.0));
                    if let Some((_, _, t)) = hit {
                        return format!("{t}+float-relative-bound-tolerance");
                    }
                }
            }
        }
        // optimisation calls: does switching off the root LP step / the fast path repair the answer
        // (or at least bring it back to what the lowering defects predict)?
        if call.is_opt() && c.alt.is_none() && !self.passes(c, call) {
            let p = present(self.case);
            let all = p.all();
            let pred = if all == Quirks::default() { self.truth.to_vec() } else { self.case.brute(all) };
            let ok = |me: &Self, c: &CallOut| me.passes(c, call) || me.passes_under(c, call, &pred, all);
            hooks::set_root_lp_disabled(true);
            let c2 = run_call(self.case, &c.vo, &c.co, None, call, self.scratch);
            hooks::set_root_lp_disabled(false);
            if ok(self, &c2) {
                return if c.lp { "root-lp".into() } else { "root-lp-infeasible".into() };
            }
            // … repaired up to a float value inside the slack of the crate's own bound setters
            let wide = Quirks { wide_tol: true, ..Quirks::default() };
            if self.case.cons.iter().any(|c| matches!(c, Con::Float { .. }))
                && (self.passes_under(&c2, call, self.truth, wide) || self.passes_under(&c2, call, &pred, Quirks { wide_tol: true, ..all }))
            {
                return format!("{}+float-relative-bound-tolerance", if c.lp { "root-lp" } else { "root-lp-infeasible" });
            }
            hooks::set_fast_path_disabled(true);
            let c3 = run_call(self.case, &c.vo, &c.co, None, call, self.scratch);
            hooks::set_fast_path_disabled(false);
            if ok(self, &c3) {
                return "fast-path".into();
            }
        }
        if self.cached.is_none() {
            self.cached = Some(syntactic_tag(self.case));
        }
        let t = self.cached.clone().unwrap();
        t
    }
}

// ------------------------------------------------------------------------------------------------
// oracle checks
// ------------------------------------------------------------------------------------------------
const HOLE: i64 = i64::MIN;

fn proj(v: &[SolV]) -> Vec<Vec<i64>> {
    let mut s: Vec<Vec<i64>> = v.iter().map(|s| s.user.iter().map(|x| match x { XV::I(i) => *i, XV::F(_) => HOLE }).collect()).collect();
    s.sort();
    s
}

fn first_diff(got: &[Vec<i64>], want: &[Vec<i64>]) -> String {
    if let Some(m) = want.iter().find(|w| !got.contains(w)) {
        return format!("missing solution {:?} (got {} of {})", m, got.len(), want.len());
    }
    if let Some(e) = got.iter().find(|g| !want.contains(g)) {
        return format!("extra assignment {:?} (got {}, expected {})", e, got.len(), want.len());
    }
    format!("got {} expected {}", got.len(), want.len())
}

fn obj_of(s: &SolV, v: usize) -> i64 {
    match s.user[v] {
        XV::I(i) => i,
        XV::F(f) => f.round() as i64,
    }
}

/// checks of one call against the brute-force truth; `primary` = full C01–C04 checks
fn check_call(out: &mut Out, line: usize, case: &Case, truth: &[Vec<i64>], c: &CallOut, call: Call, tg: &mut Tagger) {
    // `truth`: the exact reading (every answer must cover it); `may`: the tolerant reading of the float
    // conversions (every answer must stay inside it); the two coincide unless a conversion sits on a
    // rounding boundary
    let may_owned: Vec<Vec<i64>> = tg.may.clone().unwrap_or_else(|| truth.to_vec());
    let may: &[Vec<i64>] = &may_owned;
    let sat = !truth.is_empty();
    let may_sat = !may.is_empty();
    let nm = call.name();
    out.stat(&format!(
        "verdict.{nm}.{}",
        match &c.res {
            Res::One(_) => "ok".to_string(),
            Res::Err(e) => format!("err.{}", e.split(':').next().unwrap_or("")),
            Res::Many(v) => if v.is_empty() { "none".to_string() } else { "some".to_string() },
            Res::BuildErr(e) => format!("builderr.{e}"),
            Res::Panic => "panic".to_string(),
        }
    ));
    if c.lp {
        out.stat(&format!("flag.{nm}.root_lp_applied"));
    }
    if c.fp {
        out.stat(&format!("flag.{nm}.fast_path_taken"));
    }
    if matches!(c.res, Res::Panic) {
        let t = tg.tag(c, call);
        out.fail(line, "C17", &t, format!("panic in {nm} on a {} model", if case.mal.is_some() { "malformed" } else { "well-formed" }));
        return;
    }
    let sols: Vec<&SolV> = match &c.res {
        Res::One(s) => vec![s],
        Res::Many(v) => v.iter().collect(),
        _ => vec![],
    };
    if let Some(m) = case.mal {
        // malformed stream: `Err` or unsatisfiable verdict (or, where solutions can exist, sound ones)
        if m.must_be_unsat() {
            if !sols.is_empty() {
                let t = tg.tag(c, call);
                out.fail(line, "C17", &t, format!("{nm} accepted malformed input ({}) and returned [{}]", m.name(), show_xs(&sols[0].user)));
            }
        } else if let Some(why) = sols.iter().find_map(|s| unsound(case, &c.funs, s, tg.q)) {
            let t = tg.tag(c, call);
            out.fail(line, "C01", &t, why);
        }
        return;
    }
    // ---- well-formed models ----
    if let Res::BuildErr(e) = &c.res {
        let t = tg.tag(c, call);
        out.fail(line, "C02", &t, format!("constraint constructor returned {e} on a well-formed model"));
        return;
    }
    if let Some(why) = sols.iter().find_map(|s| s.acc.clone()) {
        // (what the caller reads is not the assignment that was found)
        out.fail(line, "C01", "-", format!("{nm}: Solution accessors disagree: {why}"));
        if case.cons.iter().any(|k| matches!(k, Con::Float { .. })) {
            out.fail(line, "C06", "-", format!("{nm}: Solution accessors disagree: {why}"));
        }
    }
    if let Some(why) = sols.iter().find_map(|s| unsound(case, &c.funs, s, tg.q)) {
        let t = tg.tag(c, call);
        out.fail(line, "C01", &t, format!("{nm}: {why}"));
        // (a model with float variables: the same failure is also C06's subject)
        if t == "-" && case.cons.iter().any(|k| matches!(k, Con::Float { .. })) {
            out.fail(line, "C06", &t, format!("{nm}: {why}"));
        }
    }
    match (&c.res, call) {
        (Res::One(_), Call::Solve) => {
            if !may_sat {
                let t = tg.tag(c, call);
                out.fail(line, "C02", &t, "solve() is Ok although the model is unsatisfiable");
            }
        }
        (Res::Err(e), Call::Solve) => {
            if sat {
                let t = tg.tag(c, call);
                out.fail(line, "C02", &t, format!("solve() is Err({e}) although {:?} is a solution ({} solutions)", truth[0], truth.len()));
                // a model with float terms and no floor/ceil/round: its solutions sit at exactly
                // representable points (quarters), every posted relation is an equality — C07's subject too
                // (only when no recorded defect of the integer part explains the verdict)
                if t == "-" && case.cons.iter().any(|k| matches!(k, Con::Float { .. })) && !case.cons.iter().any(|k| matches!(k, Con::Float { conv: Some(_), .. })) {
                    out.fail(line, "C07", &t, format!("solve() is Err({e}) although {:?} is a solution ({} solutions)", truth[0], truth.len()));
                }
            }
        }
        (Res::Many(v), Call::Enumerate) => {
            out.stat_n("enumerate.solutions", v.len() as u64);
            if v.len() >= CAP {
                out.stat("enumerate.capped");
            }
            let mut keys: Vec<&String> = v.iter().map(|s| &s.full).collect();
            keys.sort();
            if keys.windows(2).any(|w| w[0] == w[1]) {
                let t = tg.tag(c, call);
                out.fail(line, "C03", &t, "enumerate() yielded the same full assignment twice");
            }
            let got = proj(v);
            let mut dd = got.clone();
            dd.dedup();
            if dd.len() != got.len() {
                out.stat("enumerate.projection_duplicates");
            }
            let inside = truth.iter().all(|w| dd.binary_search(w).is_ok()) && dd.iter().all(|g| may.binary_search(g).is_ok());
            if dd != truth && !inside {
                let t = tg.tag(c, call);
                // does the predicted effect of the known lowering defects give exactly this set?
                let p = present(case);
                let all = p.all();
                let mut note = "";
                if ["not-ignored", "or-lowered-as-and", "neq-noop", "lin-all-zero-coefficients", "fn-implies-noop", "element-nd-ragged-matrix", "cumulative-pairwise-only"].contains(&t.as_str()) {
                    if case.brute(all) == dd {
                        out.stat("c03.known-lowering-predicts-exactly");
                        note = " [equals the set predicted by the known lowering defects]";
                    } else {
                        out.stat("c03.known-lowering-predicts-partially");
                        note = " [differs from the set predicted by the known lowering defects]";
                    }
                }
                out.fail(line, "C03", &t, format!("enumerate(): {}{note}", first_diff(&dd, truth)));
            }
        }
        (Res::One(s), Call::Minimize(v)) | (Res::One(s), Call::Maximize(v)) => {
            let min = matches!(call, Call::Minimize(_));
            let opt = |set: &[Vec<i64>]| if min { set.iter().map(|a| a[v]).min() } else { set.iter().map(|a| a[v]).max() };
            if !may_sat {
                let t = tg.tag(c, call);
                out.fail(line, "C04", &t, format!("{nm} is Ok although the model is unsatisfiable"));
            } else if sat {
                // at least as good as the optimum of the exact reading, not better than the tolerant one
                let (best, lim) = (opt(truth).unwrap(), opt(may).unwrap());
                let o = obj_of(s, v);
                if o != best && !(if min { lim <= o && o <= best } else { best <= o && o <= lim }) {
                    let t = tg.tag(c, call);
                    out.fail(line, "C04", &t, format!("{nm}(x{v}) returned objective {} but the optimum is {best}", s.user[v].show()));
                }
            }
        }
        (Res::Err(e), Call::Minimize(_)) | (Res::Err(e), Call::Maximize(_)) => {
            if sat {
                let t = tg.tag(c, call);
                out.fail(line, "C04", &t, format!("{nm} is Err({e}) although the model has {} solutions, e.g. {:?}", truth.len(), truth[0]));
            }
        }
        (Res::Many(ss), Call::MinIter(v)) | (Res::Many(ss), Call::MaxIter(v)) => {
            let min = matches!(call, Call::MinIter(_));
            let opt = |set: &[Vec<i64>]| if min { set.iter().map(|a| a[v]).min() } else { set.iter().map(|a| a[v]).max() };
            if (ss.is_empty() && sat) || (!ss.is_empty() && !may_sat) {
                let t = tg.tag(c, call);
                out.fail(line, "C04", &t, format!("{nm} yielded {} solutions but the model is {}", ss.len(), if sat { "satisfiable" } else { "unsatisfiable" }));
            } else if sat {
                let objs: Vec<i64> = ss.iter().map(|s| obj_of(s, v)).collect();
                if objs.windows(2).any(|w| if min { w[1] >= w[0] } else { w[1] <= w[0] }) {
                    let t = tg.tag(c, call);
                    out.fail(line, "C04", &t, format!("{nm} does not strictly improve: {:?}", objs));
                }
                let (best, lim) = (opt(truth).unwrap(), opt(may).unwrap());
                let o = *objs.last().unwrap();
                if o != best && !(if min { lim <= o && o <= best } else { best <= o && o <= lim }) {
                    let t = tg.tag(c, call);
                    out.fail(line, "C04", &t, format!("{nm}(x{v}) ends at {} but the optimum is {best}", objs.last().unwrap()));
                }
            }
        }
        _ => {}
    }
}

/// verdict summary used to compare two builds of the same model (C14)
fn summary(c: &CallOut, call: Call) -> String {
    match (&c.res, call) {
        (Res::One(_), Call::Solve) => "ok".into(),
        (Res::One(s), Call::Minimize(v)) | (Res::One(s), Call::Maximize(v)) => format!("ok obj={}", s.user[v].show()),
        (Res::Many(v), Call::Enumerate) => {
            let mut p = proj(v);
            p.dedup();
            format!("{:?}", p)
        }
        (Res::Many(v), _) => format!("n={}", v.len()),
        // the verdict is Ok / Err; which error variant reports unsatisfiability may depend on the order
        (Res::Err(_), _) | (Res::BuildErr(_), _) => "err".into(),
        (Res::Panic, _) => "panic".into(),
        (Res::One(_), _) => "ok".into(),
    }
}

// ------------------------------------------------------------------------------------------------
// equivalent spellings (C10)
// ------------------------------------------------------------------------------------------------
fn flip_all(t: &CT) -> CT {
    match t {
        CT::Cmp(l, op, r) => CT::Cmp(r.clone(), op.flip(), l.clone()),
        CT::And(a, b) => CT::And(Box::new(flip_all(a)), Box::new(flip_all(b))),
        CT::Or(a, b) => CT::Or(Box::new(flip_all(a)), Box::new(flip_all(b))),
        CT::Not(a) => CT::Not(Box::new(flip_all(a))),
    }
}

/// `a - b op c` → `a op c + b`, `a + b op c` → `a op c - b` (top node of the left side of every comparison)
fn move_term(t: &CT, hit: &mut bool) -> CT {
    match t {
        CT::Cmp(Ex::B(Bin::Sub, a, b), op, c) => {
            *hit = true;
            CT::Cmp((**a).clone(), *op, Ex::b(Bin::Add, c.clone(), (**b).clone()))
        }
        CT::Cmp(Ex::B(Bin::Add, a, b), op, c) => {
            *hit = true;
            CT::Cmp((**a).clone(), *op, Ex::b(Bin::Sub, c.clone(), (**b).clone()))
        }
        CT::Cmp(..) => t.clone(),
        CT::And(a, b) => CT::And(Box::new(move_term(a, hit)), Box::new(move_term(b, hit))),
        CT::Or(a, b) => CT::Or(Box::new(move_term(a, hit)), Box::new(move_term(b, hit))),
        CT::Not(a) => CT::Not(Box::new(move_term(a, hit))),
    }
}

/// `(a ± b) * k` → `a*k ± b*k`
fn distribute_ex(e: &Ex, hit: &mut bool) -> Ex {
    match e {
        Ex::B(Bin::Mul, x, k) if matches!(**k, Ex::C(_)) && matches!(**x, Ex::B(Bin::Add, ..) | Ex::B(Bin::Sub, ..)) => {
            if let Ex::B(op, a, b) = &**x {
                *hit = true;
                return Ex::b(*op, Ex::b(Bin::Mul, distribute_ex(a, hit), (**k).clone()), Ex::b(Bin::Mul, distribute_ex(b, hit), (**k).clone()));
            }
            unreachable!()
        }
        Ex::B(op, x, y) => Ex::b(*op, distribute_ex(x, hit), distribute_ex(y, hit)),
        e => e.clone(),
    }
}

fn distribute(t: &CT, hit: &mut bool) -> CT {
    match t {
        CT::Cmp(l, op, r) => CT::Cmp(distribute_ex(l, hit), *op, distribute_ex(r, hit)),
        CT::And(a, b) => CT::And(Box::new(distribute(a, hit)), Box::new(distribute(b, hit))),
        CT::Or(a, b) => CT::Or(Box::new(distribute(a, hit)), Box::new(distribute(b, hit))),
        CT::Not(a) => CT::Not(Box::new(distribute(a, hit))),
    }
}

/// push negations to the comparisons (`not(a<b)` → `a>=b`, De Morgan) and commute `or`
fn push_not(t: &CT, negate: bool, hit: &mut bool) -> CT {
    match t {
        CT::Cmp(l, op, r) => CT::Cmp(l.clone(), if negate { op.neg() } else { *op }, r.clone()),
        CT::Not(a) => {
            *hit = true;
            push_not(a, !negate, hit)
        }
        CT::And(a, b) | CT::Or(a, b) => {
            let is_and = matches!(t, CT::And(..)) != negate;
            let (x, y) = (Box::new(push_not(a, negate, hit)), Box::new(push_not(b, negate, hit)));
            if is_and { CT::And(x, y) } else { *hit = true; CT::Or(y, x) }
        }
    }
}

fn split_and(t: &CT, out: &mut Vec<CT>) {
    match t {
        CT::And(a, b) => {
            split_and(a, out);
            split_and(b, out);
        }
        t => out.push(t.clone()),
    }
}

fn respell(con: usize, t: &CT, r: &mut Rng) -> Alt {
    let mut how = vec![];
    let mut cur = t.clone();
    let mut hit = false;
    let p = push_not(&cur, false, &mut hit);
    if hit && r.chance(2, 3) {
        cur = p;
        how.push("push-not/commute-or");
    }
    let mut hit = false;
    let p = distribute(&cur, &mut hit);
    if hit && r.chance(2, 3) {
        cur = p;
        how.push("distribute");
    }
    let mut hit = false;
    let p = move_term(&cur, &mut hit);
    if hit && r.chance(2, 3) {
        cur = p;
        how.push("move-term");
    }
    let mut posts = vec![];
    if matches!(cur, CT::And(..)) && r.chance(2, 3) {
        split_and(&cur, &mut posts);
        how.push("split-and");
    } else {
        posts.push(cur);
    }
    if how.is_empty() || r.chance(1, 2) {
        posts = posts.iter().map(flip_all).collect();
        how.push("swap-sides");
    }
    Alt { con, posts, cons: vec![], fs: r.chance(1, 4), how: how.join("+") }
}

/// equivalent spelling of a non-fluent unit through other API methods:
/// * `element_2d(M, r, c, v)` = `element_2d(Mᵀ, c, r, v)`; `element_3d(C, d, r, c, v)` with the depth and
///   row axes exchanged;
/// * `table_2d(M, T)` = one `table(row, T)` per row; `table_3d(C, T)` = one `table_2d(layer, T)` per layer;
/// * `cumulative` with the tasks listed in reverse order.
fn respell_con(con: usize, c: &Con) -> Option<Alt> {
    let rect = |m: &Vec<Vec<Term>>| !m.is_empty() && !m[0].is_empty() && m.iter().all(|r| r.len() == m[0].len());
    let (cons, how): (Vec<Con>, &str) = match c {
        Con::Elem2 { mat, r, c, val } if rect(mat) => {
            let t: Vec<Vec<Term>> = (0..mat[0].len()).map(|j| mat.iter().map(|row| row[j].clone()).collect()).collect();
            (vec![Con::Elem2 { mat: t, r: *c, c: *r, val: *val }], "transpose")
        }
        Con::Elem3 { cube, d, r, c, val } if !cube.is_empty() && rect(&cube[0]) && cube.iter().all(|l| rect(l) && l.len() == cube[0].len() && l[0].len() == cube[0][0].len()) => {
            let t: Vec<Vec<Vec<Term>>> = (0..cube[0].len()).map(|i| cube.iter().map(|l| l[i].clone()).collect()).collect();
            (vec![Con::Elem3 { cube: t, d: *r, r: *d, c: *c, val: *val }], "swap-depth-row")
        }
        Con::Table2 { mat, tuples } => (mat.iter().map(|row| Con::Table { vars: row.clone(), tuples: tuples.clone(), style: 0 }).collect(), "table-per-row"),
        Con::Table3 { cube, tuples } => (cube.iter().map(|l| Con::Table2 { mat: l.clone(), tuples: tuples.clone() }).collect(), "table_2d-per-layer"),
        Con::Cumulative { starts, durs, demands, cap } => {
            let rev = |v: &Vec<i32>| v.iter().rev().copied().collect::<Vec<i32>>();
            (vec![Con::Cumulative { starts: starts.iter().rev().copied().collect(), durs: rev(durs), demands: rev(demands), cap: *cap }], "reverse-tasks")
        }
        _ => return None,
    };
    Some(Alt { con, posts: vec![], cons, fs: false, how: how.to_string() })
}

// ------------------------------------------------------------------------------------------------
// generator
// ------------------------------------------------------------------------------------------------
const MAX_SPACE: u64 = 3000;

fn space(decls: &[VarDecl]) -> u64 {
    decls.iter().map(|d| d.dom().len().max(1) as u64).product()
}

struct Gen<'a> {
    /// no `FT::MulI` nodes in the float term being generated
    no_mul: bool,
    r: &'a mut Rng,
    decls: Vec<VarDecl>,
    mal: Option<Mal>,
}

impl<'a> Gen<'a> {
    fn decl(r: &mut Rng, boolish: bool) -> VarDecl {
        if boolish && r.chance(7, 10) {
            return VarDecl::Bool;
        }
        match r.below(20) {
            0..=2 => VarDecl::Bool,
            3..=5 => {
                let k = r.range(2, 5);
                let mut v: Vec<i32> = vec![];
                while (v.len() as i64) < k {
                    let x = r.range(-6, 6) as i32;
                    if !v.contains(&x) {
                        v.push(x);
                    }
                }
                // a value list may mention a value more than once (it denotes a set)
                if r.chance(1, 3) {
                    for _ in 0..r.range(1, 2) {
                        let x = *r.pick(&v);
                        let at = r.below(v.len() as u64 + 1) as usize;
                        v.insert(at, x);
                    }
                }
                VarDecl::Set(v)
            }
            6 => {
                let c = r.range(-6, 6) as i32;
                VarDecl::Int(c, c)
            }
            7..=8 => {
                let lo = r.range(-6, -3) as i32;
                VarDecl::Int(lo, (lo + r.range(0, 3) as i32).min(-1))
            }
            _ => {
                let lo = r.range(-4, 3) as i32;
                VarDecl::Int(lo, (lo + r.range(1, 5) as i32).min(6))
            }
        }
    }
    fn n(&self) -> usize {
        self.decls.len()
    }
    fn var(&mut self) -> usize {
        self.r.below(self.n() as u64) as usize
    }
    fn vars(&mut self, lo: i64, hi: i64, distinct: bool) -> Vec<usize> {
        let k = self.r.range(lo, hi) as usize;
        let mut v = vec![];
        let mut guard = 0;
        while v.len() < k && guard < 50 {
            guard += 1;
            let x = self.var();
            if !distinct || !v.contains(&x) {
                v.push(x);
            }
        }
        v
    }
    fn bool_vars(&self) -> Vec<usize> {
        (0..self.n()).filter(|i| self.decls[*i].dom().iter().all(|v| *v == 0 || *v == 1)).collect()
    }
    /// a boolean variable, declaring one if there is room
    fn a_bool(&mut self) -> Option<usize> {
        let b = self.bool_vars();
        if !b.is_empty() {
            return Some(*self.r.pick(&b));
        }
        if self.n() < 4 && space(&self.decls) * 2 <= MAX_SPACE {
            self.decls.push(VarDecl::Bool);
            return Some(self.n() - 1);
        }
        None
    }
    fn bools(&mut self, lo: i64, hi: i64) -> Option<Vec<usize>> {
        self.a_bool()?;
        let b = self.bool_vars();
        let k = self.r.range(lo, hi);
        Some((0..k).map(|_| *self.r.pick(&b)).collect())
    }
    /// a boolean operator expression over the boolean variables of the case
    fn bx(&mut self, depth: u32) -> Option<BX> {
        self.a_bool()?;
        // (an operator over one variable only cannot tell `&` from `|`: three booleans if there is room)
        while self.bool_vars().len() < 3 && self.n() < 4 && space(&self.decls) * 2 <= MAX_SPACE {
            self.decls.push(VarDecl::Bool);
        }
        if depth == 0 || self.r.chance(1, 4) {
            let b = self.bool_vars();
            return Some(BX::V(*self.r.pick(&b)));
        }
        Some(match self.r.below(5) {
            0..=1 => BX::And(Box::new(self.bx(depth - 1)?), Box::new(self.bx(depth - 1)?)),
            2..=3 => BX::Or(Box::new(self.bx(depth - 1)?), Box::new(self.bx(depth - 1)?)),
            _ => BX::Not(Box::new(self.bx(depth - 1)?)),
        })
    }
    fn konst(&mut self) -> i32 {
        self.r.range(-4, 4) as i32
    }
    fn leaf(&mut self) -> Ex {
        if self.r.chance(7, 10) { Ex::V(self.var()) } else { Ex::C(self.konst()) }
    }
    fn divisor(&mut self) -> Ex {
        if self.mal == Some(Mal::ZeroDivisor) && self.r.chance(3, 4) {
            let z: Vec<usize> = (0..self.n()).filter(|i| self.decls[*i].dom().contains(&0)).collect();
            if !z.is_empty() && self.r.chance(4, 5) {
                return Ex::V(*self.r.pick(&z));
            }
            return Ex::C(0);
        }
        let zf: Vec<usize> = (0..self.n()).filter(|i| !self.decls[*i].dom().contains(&0)).collect();
        if !zf.is_empty() && self.r.chance(3, 4) {
            return Ex::V(*self.r.pick(&zf));
        }
        Ex::C(*self.r.pick(&[-3, -2, -1, 1, 2, 2, 3, 3, 4]))
    }
    fn ex(&mut self, depth: u32, nodiv: bool) -> Ex {
        if depth == 0 || self.r.chance(1, 3) {
            return self.leaf();
        }
        let w = self.r.below(100);
        let op = match w {
            0..=34 => Bin::Add,
            35..=59 => Bin::Sub,
            60..=81 => Bin::Mul,
            82..=90 => if nodiv { Bin::Add } else { Bin::Div },
            _ => Bin::Mod,
        };
        match op {
            Bin::Div => {
                let a = self.ex(depth - 1, false);
                let b = self.divisor();
                Ex::b(op, a, b)
            }
            Bin::Mod => {
                let a = self.ex(depth - 1, true);
                let b = self.divisor();
                Ex::b(op, a, b)
            }
            Bin::Mul if depth >= 2 && self.r.chance(1, 3) => {
                // `(a ± b) * k`: the shape the "distribute" respelling applies to
                let inner = Ex::b(*self.r.pick(&[Bin::Add, Bin::Sub]), Ex::V(self.var()), self.leaf());
                Ex::b(Bin::Mul, inner, Ex::C(*self.r.pick(&[-3, -2, -1, 0, 2, 2, 3])))
            }
            _ => {
                let mut a = self.ex(depth - 1, nodiv);
                let b = self.ex(depth - 1, nodiv);
                if !a.has_var() && !b.has_var() {
                    a = Ex::V(self.var());
                }
                Ex::b(op, a, b)
            }
        }
    }
    fn cmp(&mut self) -> CT {
        // the shapes with their own posting arms: a variable against a constant, either side
        if self.r.chance(1, 7) {
            let (v, k, op) = (Ex::V(self.var()), Ex::C(self.konst()), *self.r.pick(&Cmp::ALL));
            return if self.r.chance(1, 2) { CT::Cmp(k, op, v) } else { CT::Cmp(v, op, k) };
        }
        let dl = self.r.range(0, 2) as u32;
        let dr = self.r.range(0, 1) as u32;
        let mut l = self.ex(dl, false);
        let r = self.ex(dr, false);
        if !l.has_var() && !r.has_var() && self.r.chance(19, 20) {
            l = Ex::V(self.var());
        }
        let op = *self.r.pick(&Cmp::ALL);
        if self.r.chance(1, 6) { CT::Cmp(r, op, l) } else { CT::Cmp(l, op, r) }
    }
    fn ct(&mut self, depth: u32) -> CT {
        if depth == 0 || self.r.chance(13, 20) {
            return self.cmp();
        }
        match self.r.below(100) {
            0..=34 => CT::And(Box::new(self.ct(depth - 1)), Box::new(self.ct(depth - 1))),
            35..=69 => {
                if self.r.chance(1, 4) {
                    let v = self.var();
                    let mut d = self.decls[v].dom();
                    if d.is_empty() {
                        d.push(0);
                    }
                    let (a, b) = (*self.r.pick(&d), *self.r.pick(&d));
                    CT::Or(Box::new(CT::Cmp(Ex::V(v), Cmp::Eq, Ex::C(a))), Box::new(CT::Cmp(Ex::V(v), Cmp::Eq, Ex::C(b))))
                } else {
                    CT::Or(Box::new(self.ct(depth - 1)), Box::new(self.ct(depth - 1)))
                }
            }
            _ => CT::Not(Box::new(self.ct(depth - 1))),
        }
    }
    fn fluent(&mut self) -> Con {
        let t = self.ct(2);
        let style = *self.r.pick(&[0u8, 0, 0, 1, 2, 3, 4, 5]);
        Con::Fluent { t, style }
    }
    fn tview(&mut self, nest: bool) -> Term {
        match self.r.below(10) {
            0..=6 => Term::V(self.var()),
            7..=8 => Term::K(self.konst()),
            _ => if nest { Term::F(Box::new(self.arith_fun(false))) } else { Term::V(self.var()) },
        }
    }
    fn tvar(&mut self, nest: bool) -> Term {
        if nest && self.r.chance(3, 20) { Term::F(Box::new(self.arith_fun(false))) } else { Term::V(self.var()) }
    }
    fn tdivisor(&mut self) -> Term {
        match self.divisor() {
            Ex::V(i) => Term::V(i),
            Ex::C(c) => Term::K(c),
            _ => unreachable!(),
        }
    }
    fn arith_fun(&mut self, nest: bool) -> Fun {
        let k = *self.r.pick(&[FK::Add, FK::Add, FK::Sub, FK::Sub, FK::Mul, FK::Mul, FK::Div, FK::Mod, FK::Mod, FK::Abs, FK::Abs, FK::Min, FK::Max, FK::Min, FK::Max, FK::Sum, FK::Sum, FK::Elem]);
        let style = self.r.below(3) as u8;
        let args = match k {
            FK::Add | FK::Sub | FK::Mul => {
                let a = self.tview(nest);
                let mut b = self.tview(nest);
                if matches!(a, Term::K(_)) && matches!(b, Term::K(_)) {
                    b = Term::V(self.var());
                }
                vec![a, b]
            }
            FK::Div => vec![self.tview(nest), self.tdivisor()],
            FK::Mod => vec![if self.r.chance(4, 5) { Term::V(self.var()) } else { Term::K(self.konst()) }, self.tdivisor()],
            FK::Abs => vec![self.tview(nest)],
            FK::Min | FK::Max | FK::Sum => {
                let n = self.r.range(1, 3);
                (0..n).map(|_| self.tvar(nest)).collect()
            }
            _ => {
                // element: array of user variables, index must be able to hit the array
                let n = self.r.range(1, 4) as usize;
                let ok: Vec<usize> = (0..self.n()).filter(|i| self.decls[*i].dom().iter().all(|v| *v >= 0 && (*v as usize) < n)).collect();
                if ok.is_empty() {
                    return Fun { k: FK::Abs, args: vec![Term::V(self.var())], style };
                }
                let mut a: Vec<Term> = (0..n).map(|_| Term::V(self.var())).collect();
                a.push(Term::V(*self.r.pick(&ok)));
                a
            }
        };
        // a nested div would make the outer integer function see a float variable
        if !nest && k == FK::Div {
            return Fun { k: FK::Add, args: vec![Term::V(self.var()), Term::K(self.konst())], style };
        }
        Fun { k, args, style }
    }
    fn bool_fun(&mut self) -> Option<Fun> {
        let k = *self.r.pick(&[FK::BAnd, FK::BOr, FK::BNot, FK::BXor, FK::BAnd, FK::BOr, FK::BXor, FK::B2I]);
        let n = match k {
            FK::BNot | FK::B2I => 1,
            FK::BXor => 2,
            _ => self.r.range(1, 3),
        };
        let vs = self.bools(n, n)?;
        let mut args: Vec<Term> = vs.into_iter().map(Term::V).collect();
        if self.r.chance(1, 6) {
            let inner = self.bools(1, 2)?;
            let ik = if inner.len() == 1 { FK::BNot } else { *self.r.pick(&[FK::BAnd, FK::BOr, FK::BXor]) };
            args[0] = Term::F(Box::new(Fun { k: ik, args: inner.into_iter().map(Term::V).collect(), style: 0 }));
        }
        Some(Fun { k, args, style: self.r.below(2) as u8 })
    }
    fn fun(&mut self) -> Con {
        let bf = if self.r.chance(1, 3) { self.bool_fun() } else { None };
        let f = match bf {
            Some(f) => f,
            None => self.arith_fun(true),
        };
        let then = if self.r.chance(13, 20) {
            let e = match self.r.below(4) {
                0 => Ex::C(if matches!(f.k, FK::BAnd | FK::BOr | FK::BNot | FK::BXor) { self.r.range(0, 1) as i32 } else { self.konst() }),
                1 | 2 => Ex::V(self.var()),
                _ => Ex::b(*self.r.pick(&[Bin::Add, Bin::Sub]), Ex::V(self.var()), Ex::C(self.konst())),
            };
            Some((*self.r.pick(&Cmp::ALL), e))
        } else {
            None
        };
        Con::Fun { f, then }
    }
    fn lin(&mut self) -> Con {
        let reif = if self.r.chance(3, 10) { self.a_bool() } else { None };
        let mut vars = if self.r.chance(1, 25) { vec![] } else { self.vars(1, 3, self.r.0 % 10 != 0) };
        let boolapi = if self.r.chance(1, 3) {
            match self.bools(1, 3) {
                Some(b) => {
                    vars = b;
                    true
                }
                None => false,
            }
        } else {
            false
        };
        let zero = self.r.chance(1, 20);
        let coeffs: Vec<i32> = vars.iter().map(|_| if zero { 0 } else { self.r.range(-3, 3) as i32 }).collect();
        let k = self.r.range(-8, 8) as i32;
        let rel = *self.r.pick(&[Rel::Eq, Rel::Le, Rel::Ne]);
        Con::Lin { rel, coeffs, vars, k, reif, boolapi, style: self.r.below(2) as u8 }
    }
    fn element(&mut self) -> Option<Con> {
        let n = self.r.range(1, 4) as usize;
        let ok: Vec<usize> = (0..self.n()).filter(|i| self.decls[*i].dom().iter().any(|v| *v >= 0 && (*v as usize) < n)).collect();
        if ok.is_empty() {
            return None;
        }
        let arr: Vec<usize> = (0..n).map(|_| self.var()).collect();
        Some(Con::Element { arr, idx: *self.r.pick(&ok), val: self.var(), style: self.r.below(3) as u8 })
    }
    fn hull(&self, v: usize) -> (i64, i64) {
        let d = self.decls[v].dom();
        (*d.first().unwrap_or(&0) as i64, *d.last().unwrap_or(&0) as i64)
    }
    fn table(&mut self) -> Con {
        let vars = self.vars(1, 3, self.r.0 % 8 != 0);
        let rows = self.r.range(0, 5);
        let tuples = (0..rows)
            .map(|_| {
                vars.iter()
                    .map(|v| {
                        let (lo, hi) = self.hull(*v);
                        self.r.range(lo - 1, hi + 1) as i32
                    })
                    .collect()
            })
            .collect();
        Con::Table { vars, tuples, style: self.r.below(2) as u8 }
    }
    /// declare one more user variable if the assignment space allows it
    fn fresh(&mut self, lo: i32, hi: i32) -> Option<usize> {
        let size = (hi - lo + 1).max(1) as u64;
        if self.n() < 6 && space(&self.decls) * size <= MAX_SPACE {
            self.decls.push(VarDecl::Int(lo, hi));
            return Some(self.n() - 1);
        }
        None
    }
    /// index variable for a dimension of size `dim`: mostly a variable whose whole domain is valid,
    /// otherwise one whose domain exceeds the dimension (but can hit it)
    fn idx_var(&mut self, dim: usize) -> Option<usize> {
        let ok = |v: &i32| *v >= 0 && (*v as usize) < dim;
        let inr: Vec<usize> = (0..self.n()).filter(|i| !self.decls[*i].dom().is_empty() && self.decls[*i].dom().iter().all(ok)).collect();
        let some: Vec<usize> = (0..self.n()).filter(|i| self.decls[*i].dom().iter().any(ok)).collect();
        if self.r.chance(3, 5) {
            if !inr.is_empty() && self.r.chance(3, 4) {
                return Some(*self.r.pick(&inr));
            }
            if let Some(v) = self.fresh(0, dim as i32 - 1) {
                return Some(v);
            }
        }
        if !some.is_empty() {
            return Some(*self.r.pick(&some));
        }
        self.fresh(-1, dim as i32)
    }
    fn cell(&mut self) -> Term {
        if self.r.chance(3, 5) { Term::V(self.var()) } else { Term::K(self.r.range(-3, 4) as i32) }
    }
    /// (rows, cols) with every shape class: 1×1, single row, single column, square, non-square
    fn shape(&mut self) -> (usize, usize) {
        *self.r.pick(&[(1, 1), (1, 2), (1, 3), (2, 1), (3, 1), (2, 2), (2, 3), (3, 2), (2, 3), (3, 2), (3, 3), (2, 2)])
    }
    fn elem2(&mut self) -> Option<Con> {
        let (rows, cols) = self.shape();
        if self.r.chance(1, 5) {
            // a matrix of fresh small variables where the space allows it
            for _ in 0..(rows * cols).min(3) {
                let lo = self.r.range(-1, 2) as i32;
                let hi = lo + self.r.range(0, 1) as i32;
                self.fresh(lo, hi);
            }
        }
        let r = self.idx_var(rows)?;
        let c = if self.r.chance(1, 10) { r } else { self.idx_var(cols)? };
        let mat: Vec<Vec<Term>> = (0..rows).map(|_| (0..cols).map(|_| self.cell()).collect()).collect();
        Some(Con::Elem2 { mat, r, c, val: self.var() })
    }
    fn elem3(&mut self) -> Option<Con> {
        let depth = self.r.range(1, 2) as usize;
        let (rows, cols) = *self.r.pick(&[(1, 1), (1, 2), (2, 1), (2, 2), (1, 3), (2, 3), (3, 2), (3, 1)]);
        let d = self.idx_var(depth)?;
        let r = self.idx_var(rows)?;
        let c = if self.r.chance(1, 10) { r } else { self.idx_var(cols)? };
        let cube: Vec<Vec<Vec<Term>>> = (0..depth).map(|_| (0..rows).map(|_| (0..cols).map(|_| self.cell()).collect()).collect()).collect();
        Some(Con::Elem3 { cube, d, r, c, val: self.var() })
    }
    /// tuples for a list of rows: values of some row under a random assignment (so that the table
    /// can hold), random values from the hulls, now and then a tuple of another arity
    fn tuples_for(&mut self, rows: &[Vec<usize>]) -> Vec<Vec<i32>> {
        let n = self.r.range(0, 5);
        let asg: Vec<i32> = (0..self.n()).map(|i| { let d = self.decls[i].dom(); if d.is_empty() { 0 } else { *self.r.pick(&d) } }).collect();
        let mut out: Vec<Vec<i32>> = vec![];
        for _ in 0..n {
            let row = self.r.pick(rows).clone();
            let t: Vec<i32> = if self.r.chance(1, 2) {
                row.iter().map(|v| asg[*v]).collect()
            } else {
                row.iter().map(|v| { let (lo, hi) = self.hull(*v); self.r.range(lo - 1, hi + 1) as i32 }).collect()
            };
            out.push(t);
        }
        if !out.is_empty() && self.r.chance(1, 6) {
            let k = self.r.below(out.len() as u64) as usize;
            let mut t = out[k].clone();
            if t.len() > 1 && self.r.chance(1, 2) { t.pop(); } else { t.push(self.konst()); }
            out.insert(k, t);
        }
        out
    }
    fn vrow(&mut self, cols: usize) -> Vec<usize> {
        (0..cols).map(|_| self.var()).collect()
    }
    fn table2(&mut self) -> Con {
        let (rows, cols) = self.shape();
        let ragged = self.r.chance(1, 4);
        let mat: Vec<Vec<usize>> = (0..rows).map(|_| { let c = if ragged { self.r.range(1, 3) as usize } else { cols }; self.vrow(c) }).collect();
        let tuples = self.tuples_for(&mat);
        Con::Table2 { mat, tuples }
    }
    fn table3(&mut self) -> Con {
        let depth = self.r.range(1, 2) as usize;
        let (rows, cols) = *self.r.pick(&[(1, 1), (1, 2), (2, 1), (2, 2), (1, 3), (2, 3)]);
        let ragged = self.r.chance(1, 8);
        let cube: Vec<Vec<Vec<usize>>> = (0..depth)
            .map(|_| (0..rows).map(|_| { let c = if ragged { self.r.range(1, 3) as usize } else { cols }; self.vrow(c) }).collect())
            .collect();
        let all: Vec<Vec<usize>> = cube.iter().flatten().cloned().collect();
        let tuples = self.tuples_for(&all);
        Con::Table3 { cube, tuples }
    }
    /// float bounds in quarters; `no_half`: no bound of the form k + 1/2 (tie of `round`)
    fn fbounds(&mut self, no_half: bool) -> (i32, i32) {
        let fix = |q: i32| if no_half && q.rem_euclid(4) == 2 { q + 1 } else { q };
        let lo = self.r.range(-16, 12) as i32;
        let w = *self.r.pick(&[0, 0, 1, 2, 3, 4, 5, 6, 8, 10, 12, 16]);
        (fix(lo), fix(lo + w))
    }
    fn ft(&mut self, depth: u32, no_half: bool) -> FT {
        if depth > 0 && self.r.chance(2, 5) {
            if !no_half && !self.no_mul && self.r.chance(1, 4) {
                // (a product with an integer: quarters stay quarters; not under `round`, whose ties it could create)
                let kid = self.ft(depth - 1, no_half);
                let t = if self.r.chance(1, 2) { Term::V(self.var()) } else { Term::K(self.r.range(-3, 4) as i32) };
                return FT::MulI(vec![kid], t, self.r.chance(1, 2));
            }
            let n = self.r.range(1, 3);
            let kids: Vec<FT> = (0..n).map(|_| self.ft(depth - 1, no_half)).collect();
            return match self.r.below(3) {
                0 => FT::Min(kids),
                1 => FT::Max(kids),
                _ => match self.idx_var(kids.len()) {
                    Some(i) => FT::Elem(i, kids, if self.r.chance(1, 2) { (-40, 40) } else { self.fbounds(no_half) }),
                    None => FT::Min(kids),
                },
            };
        }
        match self.r.below(10) {
            0..=3 => {
                let (lo, hi) = self.fbounds(no_half);
                FT::Fresh(lo, hi)
            }
            4..=5 => FT::OfInt(self.var(), None),
            6..=7 => {
                let x = self.var();
                let (lo, hi) = self.hull(x);
                let (a, b) = (4 * lo as i32 + self.r.range(-3, 6) as i32, 4 * hi as i32 - self.r.range(-3, 6) as i32);
                FT::OfInt(x, Some(if a <= b { (a, b) } else { (b, a) }))
            }
            _ => {
                let c = self.r.range(-12, 12) as i32;
                FT::Const(if no_half && c.rem_euclid(4) == 2 { c + 1 } else { c })
            }
        }
    }
    fn float_unit(&mut self) -> Con {
        let conv = if self.r.chance(13, 20) {
            Some((*self.r.pick(&[Conv::Floor, Conv::Ceil, Conv::Round]), self.var(), self.r.below(2) as u8))
        } else {
            None
        };
        let no_half = matches!(conv, Some((Conv::Round, ..)));
        // (the product propagator leaves a slack of a few steps on its operands: next to the
        // discontinuities of floor/ceil/round at the integers every answer would be arguable)
        self.no_mul = conv.is_some();
        let mut f = self.ft(2, no_half);
        // without a conversion a bare variable or constant constrains nothing
        for _ in 0..20 {
            if conv.is_some() || !matches!(f, FT::Fresh(..) | FT::Const(_) | FT::OfInt(_, None)) {
                break;
            }
            f = self.ft(2, no_half);
        }
        Con::Float { f, conv }
    }
    fn cumulative(&mut self) -> Con {
        let starts = self.vars(2, 4, self.r.0 % 5 != 0);
        let n = starts.len();
        let durs: Vec<i32> = (0..n).map(|_| if self.r.chance(1, 12) { 0 } else { self.r.range(1, 3) as i32 }).collect();
        let demands: Vec<i32> = (0..n).map(|_| self.r.range(0, 3) as i32).collect();
        let cap = self.r.range(1, 4) as i32;
        Con::Cumulative { starts, durs, demands, cap }
    }
    /// the kinds added for the remaining public API (moderate weight, before the classic table)
    fn new_kind(&mut self) -> Option<Con> {
        match self.r.below(20) {
            0..=3 => self.elem2(),
            4..=6 => self.elem3(),
            7..=9 => Some(self.table2()),
            10..=11 => Some(self.table3()),
            12..=17 => Some(self.float_unit()),
            _ => Some(self.cumulative()),
        }
    }
    fn con(&mut self) -> Con {
        // several booleans at hand: operator expressions and clauses over DIFFERENT variables
        if self.bool_vars().len() >= 2 && self.r.chance(1, 5) {
            if self.r.chance(2, 3) {
                let d = self.r.range(2, 3) as u32;
                if let Some(e) = self.bx(d) {
                    return Con::BoolEx { e, mode: self.r.below(4) as u8 };
                }
            } else {
                let np = self.r.range(0, 3);
                let nn = self.r.range(if np == 0 { 1 } else { 0 }, 3);
                if let (Some(pos), Some(neg)) = (self.bools(np, np), self.bools(nn, nn)) {
                    return Con::Clause { pos, neg };
                }
            }
        }
        for _ in 0..20 {
            if self.r.chance(10, 100) {
                match self.new_kind() {
                    Some(c) => return c,
                    None => continue,
                }
            }
            let w = self.r.below(100);
            let c = match w {
                0..=25 => Some(self.fluent()),
                26..=29 if self.r.chance(1, 2) => {
                    let op = *self.r.pick(&Cmp::ALL);
                    Some(Con::OpForm { op, x: self.var(), y: self.var(), form: self.r.below(2) as u8 })
                }
                26..=29 => {
                    let d = self.r.range(1, 3) as u32;
                    self.bx(d).map(|e| Con::BoolEx { e, mode: self.r.below(4) as u8 })
                }
                30..=45 => Some(self.fun()),
                46..=49 => Some(Con::AllDiff(self.vars(2, 4, self.r.0 % 6 != 0), self.r.below(2) as u8)),
                50..=52 => Some(Con::AllEq(self.vars(1, 3, false), self.r.below(2) as u8)),
                53..=57 => self.element(),
                58..=62 => Some(self.table()),
                63..=66 => {
                    let vars = self.vars(1, 3, false);
                    let target = if self.r.chance(1, 2) { Term::K(self.r.range(-2, 3) as i32) } else { Term::V(self.var()) };
                    Some(Con::Count { vars, target, cnt: self.var() })
                }
                67..=69 => Some(Con::Between(self.var(), self.var(), self.var())),
                70..=74 => {
                    let kind = *self.r.pick(&[Card::AtLeast, Card::AtMost, Card::Exactly]);
                    let vars = self.vars(1, 4, false);
                    Some(Con::Card { kind, vars, val: self.r.range(-2, 3) as i32, n: self.r.range(-1, 4) as i32 })
                }
                75..=77 => {
                    let vars = self.vars(1, 3, false);
                    let nv = self.r.range(1, 3);
                    let mut values: Vec<i32> = vec![];
                    while (values.len() as i64) < nv {
                        let v = self.r.range(-2, 3) as i32;
                        if !values.contains(&v) || self.r.chance(1, 10) {
                            values.push(v);
                        }
                    }
                    let counts = (0..values.len()).map(|_| self.var()).collect();
                    Some(Con::Gcc { vars, values, counts, style: self.r.below(2) as u8 })
                }
                78..=80 => self.bools(2, 2).map(|b| Con::Implies(b[0], b[1], self.r.below(2) as u8)),
                81..=83 => {
                    let np = self.r.range(0, 3);
                    let nn = self.r.range(if np == 0 { 1 } else { 0 }, 3);
                    match (self.bools(np, np), self.bools(nn, nn)) {
                        (Some(pos), Some(neg)) => Some(Con::Clause { pos, neg }),
                        _ => None,
                    }
                }
                84..=89 => self.a_bool().map(|b| Con::Reif { op: *self.r.pick(&Cmp::ALL), x: self.var(), y: self.var(), b, style: self.r.below(2) as u8 }),
                _ => Some(self.lin()),
            };
            if let Some(c) = c {
                return c;
            }
        }
        self.fluent()
    }
    /// the malformed unit of the malformed stream
    fn malformed(&mut self, m: Mal) -> Option<Con> {
        match m {
            Mal::LinLen => {
                let mut c = self.lin();
                if let Con::Lin { coeffs, vars, boolapi, .. } = &mut c {
                    *boolapi = false;
                    if vars.is_empty() {
                        vars.push(0);
                    }
                    if self.r.chance(1, 2) { coeffs.push(1) } else { coeffs.truncate(vars.len() - 1) }
                    if coeffs.len() == vars.len() {
                        coeffs.push(2);
                    }
                }
                Some(c)
            }
            Mal::Bounds => {
                let i = self.var();
                self.decls[i] = if self.r.chance(2, 3) {
                    let lo = self.r.range(-4, 4) as i32;
                    VarDecl::Int(lo + self.r.range(1, 3) as i32, lo)
                } else {
                    VarDecl::Set(vec![])
                };
                None
            }
            Mal::EmptyMinMax if self.r.chance(1, 4) => {
                let f = if self.r.chance(1, 2) { FT::Min(vec![]) } else { FT::Max(vec![]) };
                Some(Con::Float { f, conv: None })
            }
            Mal::EmptyMinMax => {
                let k = if self.r.chance(1, 2) { FK::Min } else { FK::Max };
                Some(Con::Fun { f: Fun { k, args: vec![], style: self.r.below(3) as u8 }, then: None })
            }
            Mal::ZeroDivisor => {
                if !(0..self.n()).any(|i| self.decls[i].dom().contains(&0)) {
                    self.decls[0] = VarDecl::Int(-1, 2);
                }
                for _ in 0..200 {
                    let c = if self.r.chance(1, 2) { self.fluent() } else { Con::Fun { f: self.arith_fun(true), then: None } };
                    let tmp = Case { decls: self.decls.clone(), cons: vec![c.clone()], mal: None };
                    if exists_asg(&tmp, &|a| c.holds(a, Quirks::default()).is_none()) {
                        return Some(c);
                    }
                }
                Some(Con::Fun { f: Fun { k: FK::Div, args: vec![Term::V(0), Term::K(0)], style: 0 }, then: None })
            }
            Mal::ElemIndex if self.r.chance(1, 2) => {
                // element_2d / element_3d: an empty matrix, or one index variable entirely outside its dimension
                let three = self.r.chance(2, 5);
                if self.r.chance(1, 6) {
                    let (r, c, val) = (self.var(), self.var(), self.var());
                    return Some(if three {
                        let cube: Vec<Vec<Vec<Term>>> = self.r.pick(&[vec![], vec![vec![]], vec![vec![vec![]]], vec![vec![], vec![]]]).clone();
                        Con::Elem3 { cube, d: self.var(), r, c, val }
                    } else {
                        let mat: Vec<Vec<Term>> = self.r.pick(&[vec![], vec![vec![]], vec![vec![], vec![]]]).clone();
                        Con::Elem2 { mat, r, c, val }
                    });
                }
                for _ in 0..50 {
                    let c = if three { self.elem3() } else { self.elem2() };
                    let Some(c) = c else { continue };
                    let (dims, idx): (Vec<usize>, Vec<usize>) = match &c {
                        Con::Elem2 { mat, r, c, .. } => (vec![mat.len(), mat[0].len()], vec![*r, *c]),
                        Con::Elem3 { cube, d, r, c, .. } => (vec![cube.len(), cube[0].len(), cube[0][0].len()], vec![*d, *r, *c]),
                        _ => unreachable!(),
                    };
                    let k = self.r.below(idx.len() as u64) as usize;
                    let n = dims[k] as i32;
                    self.decls[idx[k]] = if self.r.chance(1, 2) { VarDecl::Int(-3, -1) } else { VarDecl::Int(n, n + self.r.range(0, 2) as i32) };
                    return Some(c);
                }
                None
            }
            Mal::Ragged => {
                let three = self.r.chance(2, 5);
                for _ in 0..50 {
                    let c = if three { self.elem3() } else { self.elem2() };
                    match c {
                        Some(Con::Elem2 { mut mat, r, c, val }) if mat.len() >= 2 => {
                            let k = self.r.below(mat.len() as u64) as usize;
                            if mat[k].len() > 1 && self.r.chance(1, 2) { mat[k].pop(); } else { let t = self.cell(); mat[k].push(t); }
                            return Some(Con::Elem2 { mat, r, c, val });
                        }
                        Some(Con::Elem3 { mut cube, d, r, c, val }) if cube.len() * cube[0].len() >= 2 => {
                            let k = self.r.below(cube.len() as u64) as usize;
                            if self.r.chance(1, 3) && cube.len() >= 2 {
                                // layers with different numbers of rows
                                let row = cube[k][0].clone();
                                cube[k].push(row);
                            } else {
                                let j = self.r.below(cube[k].len() as u64) as usize;
                                if cube[k][j].len() > 1 && self.r.chance(1, 2) { cube[k][j].pop(); } else { let t = self.cell(); cube[k][j].push(t); }
                            }
                            return Some(Con::Elem3 { cube, d, r, c, val });
                        }
                        _ => {}
                    }
                }
                None
            }
            Mal::ElemIndex => {
                let n = self.r.range(1, 3) as usize;
                let i = self.var();
                self.decls[i] = if self.r.chance(1, 2) { VarDecl::Int(-3, -1) } else { VarDecl::Int(n as i32, n as i32 + 2) };
                let arr: Vec<usize> = (0..n).map(|_| self.var()).collect();
                Some(Con::Element { arr, idx: i, val: self.var(), style: self.r.below(3) as u8 })
            }
            Mal::Arity => {
                if self.r.chance(1, 2) {
                    let mut c = self.table();
                    if let Con::Table { tuples, vars, .. } = &mut c {
                        tuples.push(vec![0; vars.len() + 1]);
                        tuples.push(vec![1; vars.len() - 1]);
                    }
                    Some(c)
                } else {
                    let vars = self.vars(1, 3, false);
                    Some(Con::Gcc { vars, values: vec![0, 1], counts: vec![self.var()], style: self.r.below(2) as u8 })
                }
            }
        }
    }
}

/// unsatisfiable well-formed models are re-drawn two times out of three (they exercise little)
fn gen_case(r: &mut Rng) -> Case {
    for _ in 0..3 {
        let c = gen_case_once(r);
        if c.mal.is_some() || !c.brute(Quirks::default()).is_empty() || r.chance(1, 3) {
            return c;
        }
    }
    gen_case_once(r)
}

fn gen_case_once(r: &mut Rng) -> Case {
    let boolish = r.chance(1, 4);
    let n = r.range(2, 4);
    let mut decls: Vec<VarDecl> = (0..n).map(|_| Gen::decl(r, boolish)).collect();
    while space(&decls) > MAX_SPACE {
        let i = r.below(decls.len() as u64) as usize;
        decls[i] = Gen::decl(r, true);
    }
    let mal = if r.chance(1, 7) { Some(*r.pick(&[Mal::LinLen, Mal::Bounds, Mal::EmptyMinMax, Mal::ZeroDivisor, Mal::ZeroDivisor, Mal::ElemIndex, Mal::Arity, Mal::ElemIndex, Mal::Ragged])) } else { None };
    let mut g = Gen { r, decls, mal: None, no_mul: false };
    let mut cons = vec![];
    if let Some(m) = mal {
        g.mal = mal;
        if let Some(c) = g.malformed(m) {
            cons.push(c);
        }
        g.mal = None;
    }
    let k = g.r.range(if cons.is_empty() { 1 } else { 0 }, 3 - cons.len() as i64);
    for _ in 0..k {
        let c = g.con();
        cons.push(c);
    }
    // position of the malformed unit is random
    if cons.len() > 1 && g.r.chance(1, 2) {
        cons.swap(0, 1);
    }
    let decls = g.decls;
    let mut case = Case { decls, cons, mal };
    // a well-formed case must not have an undefined term anywhere in its assignment space
    if case.mal.is_none() {
        let c2 = case.clone();
        if exists_asg(&case, &|a| c2.cons.iter().any(|c| c.holds(a, Quirks::default()).is_none())) {
            case.mal = Some(Mal::ZeroDivisor);
        }
    }
    case
}

// ------------------------------------------------------------------------------------------------
// one case
// ------------------------------------------------------------------------------------------------
fn shuffle(r: &mut Rng, n: usize) -> Vec<usize> {
    let mut v: Vec<usize> = (0..n).collect();
    for i in (1..n).rev() {
        let j = r.below(i as u64 + 1) as usize;
        v.swap(i, j);
    }
    v
}

fn note_vocabulary(out: &mut Out, case: &Case) {
    for w in case.decls.windows(2) {
        // runs of identical declarations are created with `ints(n, ..)` / `bools(n)` (see `build`)
        if w[0] == w[1] && !matches!(w[0], VarDecl::Set(_)) {
            out.stat(if w[0] == VarDecl::Bool { "decl.bools(n)" } else { "decl.ints(n,lo,hi)" });
        }
    }
    for d in &case.decls {
        out.stat(match d {
            VarDecl::Int(a, b) if a == b => "decl.int.singleton",
            VarDecl::Int(a, b) if a > b => "decl.int.reversed",
            VarDecl::Int(_, b) if *b < 0 => "decl.int.negative",
            VarDecl::Int(..) => "decl.int",
            VarDecl::Set(v) if v.is_empty() => "decl.intset.empty",
            VarDecl::Set(_) => "decl.intset",
            VarDecl::Bool => "decl.bool",
        });
    }
    for c in &case.cons {
        out.stat(&format!("kind.{}", c.kind()));
        c.each_fun(&mut |f| out.stat(&format!("fun.{}", f.name())));
        if let Con::Fluent { t, .. } = c {
            if t.any(&|t| matches!(t, CT::And(..))) {
                out.stat("fluent.and");
            }
            if t.any(&|t| matches!(t, CT::Or(..))) {
                out.stat(if t.any(&|t| t.special_or()) { "fluent.or.same-var-eq" } else { "fluent.or" });
                if let Con::Fluent { style, .. } = c {
                    let fs = *style == 1;
                    if t.norm().any(&|t| t.reified_or(fs)) {
                        out.stat("fluent.or.reified-comparisons");
                    }
                    if t.norm().any(&|t| t.or_as_and(fs)) {
                        out.stat("fluent.or.still-conjunction");
                    }
                }
            }
            if t.any(&|t| matches!(t, CT::Not(_))) {
                out.stat("fluent.not");
            }
            t.each_cmp(true, &mut |l, op, r, _| {
                out.stat(&format!("fluent.cmp.{}", op.name()));
                if matches!(l, Ex::C(_)) {
                    out.stat("fluent.const-on-left");
                }
                for e in [l, r] {
                    e.each_node(&mut |n| {
                        if let Ex::B(o, x, _) = n {
                            out.stat(&format!("fluent.op.{}", o.name()));
                            if matches!(**x, Ex::C(_)) {
                                out.stat("fluent.op.const-receiver");
                            }
                        }
                    });
                }
            });
        }
        match c {
            Con::Elem2 { mat, r, c, .. } => {
                let cols = mat.first().map_or(0, |r| r.len());
                out.stat(&format!("elem2.shape.{}", match (mat.len(), cols) { (1, 1) => "1x1", (1, _) => "single-row", (_, 1) => "single-column", (a, b) if a == b => "square", _ => "non-square" }));
                let d = case.doms();
                if !d[*r].iter().all(|v| *v >= 0 && (*v as usize) < mat.len()) || !d[*c].iter().all(|v| *v >= 0 && (*v as usize) < cols) {
                    out.stat("elem2.index-domain-exceeds-dimension");
                }
                if r == c {
                    out.stat("elem2.same-index-variable");
                }
                let vs: Vec<&Term> = mat.iter().flatten().filter(|t| matches!(t, Term::V(_))).collect();
                if (0..vs.len()).any(|i| (0..i).any(|j| vs[i] == vs[j])) {
                    out.stat("elem2.repeated-variable");
                }
            }
            Con::Elem3 { cube, d, r, c, .. } => {
                let (rows, cols) = (cube.first().map_or(0, |l| l.len()), cube.first().and_then(|l| l.first()).map_or(0, |r| r.len()));
                out.stat(&format!("elem3.shape.{}x{}x{}", cube.len(), rows, cols));
                let dm = case.doms();
                let exceeds = |v: usize, n: usize| !dm[v].iter().all(|x| *x >= 0 && (*x as usize) < n);
                if exceeds(*d, cube.len()) || exceeds(*r, rows) || exceeds(*c, cols) {
                    out.stat("elem3.index-domain-exceeds-dimension");
                }
            }
            Con::Table { tuples, .. } if tuples.is_empty() => out.stat("table.empty-tuple-list"),
            Con::Table2 { mat, tuples } => {
                if tuples.is_empty() {
                    out.stat("table.empty-tuple-list");
                }
                if mat.iter().any(|r| r.len() != mat[0].len()) {
                    out.stat("table2.ragged");
                }
                if tuples.iter().any(|t| !mat.iter().any(|r| r.len() == t.len())) {
                    out.stat("table2.tuple-of-other-arity");
                }
                out.stat(&format!("table2.rows.{}", mat.len()));
            }
            Con::Table3 { cube, tuples } => {
                if tuples.is_empty() {
                    out.stat("table.empty-tuple-list");
                }
                if tuples.iter().any(|t| !cube.iter().flatten().any(|r| r.len() == t.len())) {
                    out.stat("table3.tuple-of-other-arity");
                }
                out.stat(&format!("table3.layers.{}", cube.len()));
            }
            Con::Float { f, conv } => {
                f.each(&mut |n| out.stat(&format!("ft.{}", n.name())));
                out.stat(if f.free() { "float.free-variable" } else { "float.determined" });
                if conv.is_some() {
                    out.stat("float.converted");
                }
            }
            Con::Cumulative { starts, durs, .. } => {
                out.stat(&format!("cumulative.tasks.{}", starts.len()));
                if durs.iter().any(|d| *d == 0) {
                    out.stat("cumulative.zero-duration");
                }
            }
            _ => {}
        }
        if let Con::Lin { coeffs, .. } = c {
            if coeffs.iter().any(|c| *c == 0) {
                out.stat("lin.zero-coefficient");
            }
            if coeffs.iter().any(|c| *c < 0) {
                out.stat("lin.negative-coefficient");
            }
            if coeffs.is_empty() {
                out.stat("lin.empty");
            }
        }
    }
}

fn run_case(out: &mut Out, case: &Case, r: &mut Rng, scratch: &[VarId]) {
    let n = case.decls.len();
    let vo: Vec<usize> = (0..n).collect();
    let co: Vec<usize> = (0..case.cons.len()).collect();
    let truth = case.brute(Quirks::default());
    note_vocabulary(out, case);
    out.stat(if case.mal.is_some() { "stream.malformed" } else { "stream.well-formed" });
    if let Some(m) = case.mal {
        out.stat(&format!("malformed.{}", m.name()));
    }
    out.stat(if truth.is_empty() { "truth.unsat" } else { "truth.sat" });
    out.stat_n("truth.solutions", truth.len() as u64);
    out.stat_n("space", space(&case.decls));
    let v = r.below(n as u64) as usize;
    let calls = [Call::Solve, Call::Enumerate, Call::Minimize(v), Call::Maximize(v), Call::MinIter(v), Call::MaxIter(v)];
    // a float variable that the integers do not determine makes the iterators walk the step grid:
    // such models are judged through solve() only (verdict + returned assignment)
    let free_float = case.cons.iter().any(|c| matches!(c, Con::Float { f, .. } if f.free()));
    if free_float {
        out.stat("calls.solve-only(free-float)");
    }
    let model = case.show(&vo, &co, None);
    let mut tg = Tagger::new(case, &truth, scratch);
    if let Some(may) = &tg.may {
        out.stat("float.tolerant-reading-admits-more");
        out.stat_n("float.tolerant-reading-extra-assignments", (may.len() - truth.len()) as u64);
    }
    let mut primary: Vec<CallOut> = vec![];
    for call in calls {
        if free_float && call != Call::Solve {
            break;
        }
        let c = run_call(case, &vo, &co, None, call, scratch);
        let line = out.emit(format!("#api {model} | {}", call.show()), render(&c));
        check_call(out, line, case, &truth, &c, call, &mut tg);
        primary.push(c);
    }
    if case.mal.is_some() {
        return;
    }
    if free_float {
        // C14 on the verdict of solve()
        let (pv, pc) = (shuffle(r, n), shuffle(r, case.cons.len()));
        if pv != vo || pc != co {
            out.stat("c14.permuted");
            let c = run_call(case, &pv, &pc, None, Call::Solve, scratch);
            let line = out.emit(format!("#api {} | solve() [permuted]", case.show(&pv, &pc, None)), render(&c));
            if matches!(c.res, Res::Panic) {
                let t = tg.tag(&c, Call::Solve);
                out.fail(line, "C17", &t, "panic in solve of the permuted model");
            } else {
                check_call(out, line, case, &truth, &c, Call::Solve, &mut tg);
                let (a, b) = (summary(&c, Call::Solve), summary(&primary[0], Call::Solve));
                // (where the tolerant reading of a float conversion admits more than the exact one, both
                // orders only have to give an admissible answer)
                if a != b && !(tg.may.is_some() && tg.passes(&c, Call::Solve) && tg.passes(&primary[0], Call::Solve)) {
                    let mut t = tg.tag(&c, Call::Solve);
                    if t == "-" {
                        t = tg.tag(&primary[0], Call::Solve);
                    }
                    out.fail(line, "C14", &t, format!("solve: permuted order gives {a} but the original order gives {b}"));
                }
            }
        }
        return;
    }
    // ---- C10: an equivalent spelling of one fluent constraint ----
    let fl: Vec<usize> = (0..case.cons.len()).filter(|i| matches!(case.cons[*i], Con::Fluent { .. }) || respell_con(*i, &case.cons[*i]).is_some()).collect();
    if !fl.is_empty() {
        let ci = *r.pick(&fl);
        let alt = match &case.cons[ci] {
            Con::Fluent { t, .. } => Some(respell(ci, t, r)),
            c => respell_con(ci, c),
        };
        if let Some(alt) = alt {
            out.stat("c10.respelled");
            for h in alt.how.split('+') {
                out.stat(&format!("c10.{h}"));
            }
            let c = run_call(case, &vo, &co, Some(&alt), Call::Enumerate, scratch);
            let line = out.emit(format!("#api {} | enumerate() [respelled x{}: {}]", case.show(&vo, &co, Some(&alt)), ci, alt.how), render(&c));
            // the matcher looks at both spellings
            let mut both = case.clone();
            both.cons.remove(ci);
            for t in &alt.posts {
                both.cons.push(Con::Fluent { t: t.clone(), style: alt.fs as u8 });
            }
            both.cons.extend(alt.cons.iter().cloned());
            let mut tg2 = Tagger::new(&both, &truth, scratch);
            let prim = &primary[1];
            let may = tg.may.clone();
            let mut tag = |c: &CallOut| {
                let t = tg2.tag(c, Call::Enumerate);
                if t != "-" { t } else { tg.tag(prim, Call::Enumerate) }
            };
            match (&c.res, &primary[1].res) {
                (Res::Panic, _) => {
                    let t = tag(&c);
                    out.fail(line, "C17", &t, "panic in enumerate() of the respelled model");
                }
                (Res::Many(a), Res::Many(b)) => {
                    let (mut pa, mut pb) = (proj(a), proj(b));
                    pa.dedup();
                    pb.dedup();
                    // (assignments that only the tolerant reading of a float conversion admits may come and go)
                    let slack = |x: &Vec<i64>| matches!(&may, Some(m) if m.binary_search(x).is_ok() && truth.binary_search(x).is_err());
                    let same = pa == pb || (pa.iter().all(|x| pb.contains(x) || slack(x)) && pb.iter().all(|x| pa.contains(x) || slack(x)));
                    let exact = pa == truth || (truth.iter().all(|x| pa.contains(x)) && pa.iter().all(|x| truth.binary_search(x).is_ok() || slack(x)));
                    if !same {
                        let t = tag(&c);
                        let sp: Vec<String> = alt.posts.iter().map(|t| t.show()).chain(alt.cons.iter().map(|c| c.show())).collect();
                        out.fail(line, "C10", &t, format!("spelling `{}` vs original: {}", sp.join(" & "), first_diff(&pa, &pb)));
                    }
                    if !exact {
                        let t = tag(&c);
                        out.fail(line, "C10", &t, format!("respelled model vs direct evaluation: {}", first_diff(&pa, &truth)));
                    }
                }
                _ => {}
            }
        }
    }
    // ---- C14: permuted declaration and posting order ----
    let (pv, pc) = (shuffle(r, n), shuffle(r, case.cons.len()));
    if pv != vo || pc != co {
        out.stat("c14.permuted");
        let pmodel = case.show(&pv, &pc, None);
        for (k, call) in [Call::Solve, Call::Enumerate, Call::Minimize(v), Call::Maximize(v)].into_iter().enumerate() {
            let c = run_call(case, &pv, &pc, None, call, scratch);
            let line = out.emit(format!("#api {pmodel} | {} [permuted]", call.show()), render(&c));
            if matches!(c.res, Res::Panic) {
                let t = tg.tag(&c, call);
                out.fail(line, "C17", &t, format!("panic in {} of the permuted model", call.name()));
                continue;
            }
            let (a, b) = (summary(&c, call), summary(&primary[k], call));
            // (where the tolerant reading of a float conversion admits more than the exact one, both
            // orders only have to give an admissible answer)
            if a != b && !(tg.may.is_some() && tg.passes(&c, call) && tg.passes(&primary[k], call)) {
                // (a panic in the original order is the more specific symptom: its matcher first)
                let (first, second) = if matches!(primary[k].res, Res::Panic) { (&primary[k], &c) } else { (&c, &primary[k]) };
                let mut t = tg.tag(first, call);
                if t == "-" {
                    t = tg.tag(second, call);
                }
                let cut = |s: &String| if s.len() > 160 { format!("{}…", &s[..160]) } else { s.clone() };
                out.fail(line, "C14", &t, format!("{}: permuted order gives {} but the original order gives {}", call.name(), cut(&a), cut(&b)));
            }
        }
    }
}

pub fn suite(out: &mut Out, seed: u64, count: u64) {
    if std::env::var("API_TRACE").is_ok() {
        // debugging aid: show panic messages (main installs a silent hook)
        std::panic::set_hook(Box::new(|i| eprintln!("{i}")));
    }
    let mut root = Rng::new(seed ^ STREAM);
    // VarIds are plain indices: handles of a scratch model read the hidden variables of any solution
    let mut sm = Model::default();
    let scratch = sm.ints(600, 0, 0);
    for i in 0..count {
        let mut r = root.fork();
        out.case(&format!("api{i}"));
        let case = gen_case(&mut r);
        // debugging aid: API_ONLY=<i> runs only that case (the generator stream is unchanged)
        if matches!(std::env::var("API_ONLY"), Ok(o) if o != format!("{i}")) {
            continue;
        }
        run_case(out, &case, &mut r, &scratch);
    }
}

//! Suite `malformed` (C17): invalid or extreme inputs produce errors, not panics.
//!
//! Lines written (one `case` per generated unit):
//! * `#mal <stream> <case> => <outcome>` — oracle-only transcript lines (the model driver answers
//!   `-`): API call sequences — variable creation (int / ints / ints_2d / intset / bool / bools /
//!   float / floats / new_var with reversed, equal, huge and i32-extreme bounds, empty value sets,
//!   spans that exceed the memory budget), every posting method of `Model`, of the runtime API
//!   (`m.new`, `m.c(..)`, `post_and/or`, `postall`) and of `constraints::functions`, with boundary
//!   arguments (empty lists, length mismatches, zero divisors, out-of-range indices, wrong table
//!   arity, duplicated variables, negative counts, coefficients near i32::MAX), then one solving
//!   entry point (solve / enumerate / enumerate_with_stats / minimize / maximize / *_and_iterate /
//!   validate, objective = variable or a view of it) under a configuration (default, timeout,
//!   memory limit, no memory limit, unlimited, float precision).  Every single call runs under
//!   `guarded` (catch_unwind); a panic is minimised by delta debugging on the step list.
//!   Streams (`A.` / `B.` prefixes of the stats): `A` = *in-range* arguments (every literal
//!   |v| ≤ 10^6): any panic / hang / abort is a C17 failure, and the documented invalid inputs must
//!   not lead to a returned solution; `B` = *extreme* arguments (near `i32::MIN/MAX`, huge floats):
//!   overflow panics of the test profile get the tag `i32-overflow`.  Stream `B` cases and every case
//!   whose float magnitudes can defeat the step size run in a child process (address-space limit
//!   1.5 GB, 1.5 s) because the known defects there do not unwind: they hang or exhaust memory.
//! * `mal.v <scenario> <call>` — the validation decision table: one documented invalid input (or its
//!   valid neighbour) per line; the outcome class of the entry point is compared with the Lean model
//!   `Selen.Safety.outcome`.
//! * `mal.ss <op>`, `mal.view <lo> <hi> <op> <m> <view>`, `mal.lin <rel> <k> <nc> c* <nv> (lo hi)*` —
//!   direct calls on `SparseSet`, the integer views and the integer linear propagators with extreme
//!   values; "panic / result" is compared with the panic-site model (`Selen.Safety.SSS/VS/LS`).
//!
//! Tags (`tag_panic`, `tag_hang`, `tag_abort`, `v_tag`, `direct_tag`) are decided from the panic
//! message kind + source file of the panic (never the line number) together with the syntactic shape
//! of the case:
//! `empty-domain-view-panic` (`SparseSet::min/max` debug assertion reached with an empty-domain
//! variable: `int(hi,lo)`, `intset([])`, reversed float bounds + float->int conversion),
//! `lin-reif-length-unchecked`, `i32-overflow`,
//! `float-split-no-progress` (step below ULP: the search descends for ever, limits unchecked),
//! `huge-domain-allocation` (a sparse set of > 1.5 GB is allocated), `accepted-<invalid input>`,
//! `alldiff-float-counted` (`mal.v alldiff` rows: the validation counts float variables among the
//! required distinct values and rejects a satisfiable all-different).
use crate::out::{guarded, Out};
use crate::rng::Rng;
use selen::prelude as sp;
use selen::prelude::{Constraint, ConstraintVecExt, ExprBuilder, Model, ModelExt, Solution, SolverError, Val, VarId, VarIdExt};
use selen::variables::domain::sparse_set::SparseSet;
use std::sync::Mutex;

const STREAM: u64 = 0x0C17_BAD1_4B07_5EED;
const IN_RANGE: i64 = 1_000_000;

// ------------------------------------------------------------------------------------------------
// panic capture
// ------------------------------------------------------------------------------------------------
static LAST_PANIC: Mutex<Option<(String, String)>> = Mutex::new(None);
/// child processes report which step they are in (the parent reads it when the child dies)
static CHILD_PROGRESS: std::sync::atomic::AtomicBool = std::sync::atomic::AtomicBool::new(false);

fn progress(what: &str) {
    if CHILD_PROGRESS.load(std::sync::atomic::Ordering::Relaxed) {
        use std::io::Write;
        println!("P\t{what}");
        let _ = std::io::stdout().flush();
    }
}

fn install_hook() {
    std::panic::set_hook(Box::new(|info| {
        let file = info.location().map(|l| l.file().to_string()).unwrap_or_default();
        let msg = if let Some(s) = info.payload().downcast_ref::<&str>() {
            s.to_string()
        } else if let Some(s) = info.payload().downcast_ref::<String>() {
            s.clone()
        } else {
            "?".to_string()
        };
        let line = info.location().map(|l| l.line()).unwrap_or(0);
        if let Ok(mut g) = LAST_PANIC.lock() {
            *g = Some((format!("{file}:{line}"), msg));
        }
    }));
}

fn remove_hook() {
    std::panic::set_hook(Box::new(|_| {}));
}

fn take_panic() -> (String, String) {
    LAST_PANIC.lock().ok().and_then(|mut g| g.take()).unwrap_or_default()
}

/// `src/…` relative path of a panic location, line number dropped (robust against edits)
fn loc_file(loc: &str) -> String {
    let f = loc.rsplit_once(':').map(|p| p.0).unwrap_or(loc);
    match f.find("src/") {
        Some(i) => f[i..].to_string(),
        None => f.to_string(),
    }
}

// ------------------------------------------------------------------------------------------------
// case description
// ------------------------------------------------------------------------------------------------
#[derive(Clone, Copy, Debug, PartialEq)]
pub enum A {
    V(usize),
    K(i32),
    F(f64),
}

impl A {
    fn show(&self) -> String {
        match self {
            A::V(i) => format!("v{i}"),
            A::K(k) => format!("{k}"),
            A::F(f) => format!("{f:?}f"),
        }
    }
}

#[derive(Clone, Debug, PartialEq)]
pub enum E {
    V(usize),
    K(i32),
    F(f64),
    B(u8, Box<E>, Box<E>),
}

impl E {
    fn show(&self) -> String {
        match self {
            E::V(i) => format!("v{i}"),
            E::K(k) => format!("{k}"),
            E::F(f) => format!("{f:?}f"),
            E::B(op, a, b) => format!("({} {} {})", a.show(), ["+", "-", "*", "/", "%"][*op as usize % 5], b.show()),
        }
    }
    fn ints(&self, out: &mut Vec<i64>) {
        match self {
            E::K(k) => out.push(*k as i64),
            E::B(_, a, b) => {
                a.ints(out);
                b.ints(out);
            }
            _ => {}
        }
    }
}

#[derive(Clone, Debug, PartialEq)]
pub enum S {
    // ---- variable creation
    Int(i32, i32),
    Ints(usize, i32, i32),
    Ints2d(usize, usize, i32, i32),
    IntSet(Vec<i32>),
    Bool,
    Bools(usize),
    Float(f64, f64),
    Floats(usize, f64, f64),
    NewVar(A, A),
    // ---- result-variable functions
    Bin { op: u8, x: A, y: A, route: u8 },
    Abs { x: A, route: u8 },
    MinMax { is_max: bool, vs: Vec<usize>, route: u8 },
    Sum { vs: Vec<usize>, route: u8 },
    BoolN { is_or: bool, vs: Vec<usize>, route: u8 },
    Not { x: usize, route: u8 },
    Xor { x: usize, y: usize, route: u8 },
    Implies { x: usize, y: usize, route: u8 },
    Clause { pos: Vec<usize>, neg: Vec<usize> },
    Conv { kind: u8, a: usize, b: usize, route: u8 },
    // ---- globals
    AllDiff { vs: Vec<usize>, route: u8 },
    AllEq { vs: Vec<usize>, route: u8 },
    Element { arr: Vec<usize>, idx: usize, val: usize, route: u8 },
    Element2d { rows: Vec<Vec<usize>>, ri: usize, ci: usize, val: usize },
    Element3d { cube: Vec<Vec<Vec<usize>>>, di: usize, ri: usize, ci: usize, val: usize },
    Table { vs: Vec<usize>, rows: Vec<Vec<A>>, route: u8 },
    Count { vs: Vec<usize>, target: A, cnt: usize, route: u8 },
    Between(usize, usize, usize),
    Betw(usize, i32, i32),
    AtMostV(usize, i32),
    AtLeastV(usize, i32),
    Card { kind: u8, vs: Vec<usize>, val: i32, n: i32 },
    Gcc { vs: Vec<usize>, values: Vec<i32>, counts: Vec<usize>, route: u8 },
    Lin { rel: u8, cs: Vec<i32>, vs: Vec<usize>, k: i32, reif: Option<usize>, route: u8 },
    LinF { rel: u8, cs: Vec<f64>, vs: Vec<usize>, k: f64, reif: Option<usize>, route: u8 },
    Reif { op: u8, x: usize, y: usize, b: usize, route: u8 },
    Cumulative { starts: Vec<usize>, durs: Vec<i32>, demands: Vec<i32>, cap: i32 },
    // ---- fluent / runtime API
    Fluent { l: E, op: u8, r: E, wrap: u8, route: u8 },
}

fn show_us(v: &[usize]) -> String {
    format!("[{}]", v.iter().map(|i| format!("v{i}")).collect::<Vec<_>>().join(","))
}
fn show_is(v: &[i32]) -> String {
    format!("{:?}", v).replace(' ', "")
}
fn show_fs(v: &[f64]) -> String {
    format!("{:?}", v).replace(' ', "")
}
const BINS: [&str; 5] = ["add", "sub", "mul", "div", "modulo"];
const CMPS: [&str; 6] = ["eq", "ne", "lt", "le", "gt", "ge"];
const RELS: [&str; 3] = ["eq", "le", "ne"];

impl S {
    fn show(&self) -> String {
        match self {
            S::Int(a, b) => format!("int({a},{b})"),
            S::Ints(n, a, b) => format!("ints({n},{a},{b})"),
            S::Ints2d(r, c, a, b) => format!("ints_2d({r},{c},{a},{b})"),
            S::IntSet(v) => format!("intset({})", show_is(v)),
            S::Bool => "bool()".into(),
            S::Bools(n) => format!("bools({n})"),
            S::Float(a, b) => format!("float({a:?},{b:?})"),
            S::Floats(n, a, b) => format!("floats({n},{a:?},{b:?})"),
            S::NewVar(a, b) => format!("new_var({},{})", a.show(), b.show()),
            S::Bin { op, x, y, route } => format!("{}{}({},{})", if *route == 1 { "fn::" } else { "" }, BINS[*op as usize % 5], x.show(), y.show()),
            S::Abs { x, route } => format!("{}abs({})", if *route == 1 { "fn::" } else { "" }, x.show()),
            S::MinMax { is_max, vs, route } => {
                let n = if *is_max { "max" } else { "min" };
                match route {
                    1 => format!("fn::{n}({})", show_us(vs)),
                    2 => format!("array_int_{n}imum({})", show_us(vs)),
                    3 => format!("array_float_{n}imum({})", show_us(vs)),
                    _ => format!("{n}({})", show_us(vs)),
                }
            }
            S::Sum { vs, route } => format!("{}({})", ["sum", "fn::sum", "sum_iter"][*route as usize % 3], show_us(vs)),
            S::BoolN { is_or, vs, route } => format!("{}{}({})", if *route == 1 { "fn::" } else { "bool_" }, if *is_or { "or" } else { "and" }, show_us(vs)),
            S::Not { x, route } => format!("{}(v{x})", if *route == 1 { "fn::not" } else { "bool_not" }),
            S::Xor { x, y, route } => format!("{}(v{x},v{y})", if *route == 1 { "fn::xor" } else { "bool_xor" }),
            S::Implies { x, y, route } => format!("{}implies(v{x},v{y})", if *route == 1 { "fn::" } else { "" }),
            S::Clause { pos, neg } => format!("bool_clause({},{})", show_us(pos), show_us(neg)),
            S::Conv { kind, a, b, route } => {
                let n = ["int2float", "float2int_floor", "float2int_ceil", "float2int_round", "bool2int"][*kind as usize % 5];
                if *route == 1 || *kind == 4 { format!("fn::{n}(v{a})") } else { format!("{n}(v{a},v{b})") }
            }
            S::AllDiff { vs, route } => format!("{}alldiff({})", ["", "fn::", "ext::"][*route as usize % 3], show_us(vs)),
            S::AllEq { vs, route } => format!("{}alleq({})", ["", "fn::", "ext::"][*route as usize % 3], show_us(vs)),
            S::Element { arr, idx, val, route } => match route {
                1 => format!("elem({},v{idx},v{val})", show_us(arr)),
                2 => format!("array_int_element(v{idx},{},v{val})", show_us(arr)),
                3 => format!("array_float_element(v{idx},{},v{val})", show_us(arr)),
                4 => format!("fn::element({},v{idx})", show_us(arr)),
                _ => format!("element({},v{idx},v{val})", show_us(arr)),
            },
            S::Element2d { rows, ri, ci, val } => format!("element_2d({:?},v{ri},v{ci},v{val})", rows).replace(' ', ""),
            S::Element3d { cube, di, ri, ci, val } => format!("element_3d({:?},v{di},v{ri},v{ci},v{val})", cube).replace(' ', ""),
            S::Table { vs, rows, route } => {
                let r: Vec<String> = rows.iter().map(|r| format!("[{}]", r.iter().map(|a| a.show()).collect::<Vec<_>>().join(","))).collect();
                format!("{}({},[{}])", ["table", "fn::table", "table_2d", "table_3d"][*route as usize % 4], show_us(vs), r.join(","))
            }
            S::Count { vs, target, cnt, route } => format!("{}count({},{},v{cnt})", if *route == 1 { "ext::" } else { "" }, show_us(vs), target.show()),
            S::Between(l, m, u) => format!("between(v{l},v{m},v{u})"),
            S::Betw(v, a, b) => format!("betw(v{v},{a},{b})"),
            S::AtMostV(v, a) => format!("atmost(v{v},{a})"),
            S::AtLeastV(v, a) => format!("atleast(v{v},{a})"),
            S::Card { kind, vs, val, n } => format!("{}({},{val},{n})", ["at_least", "at_most", "exactly"][*kind as usize % 3], show_us(vs)),
            S::Gcc { vs, values, counts, route } => format!("{}gcc({},{},{})", ["", "fn::", "ext::"][*route as usize % 3], show_us(vs), show_is(values), show_us(counts)),
            S::Lin { rel, cs, vs, k, reif, route } => format!(
                "{}lin_{}{}({},{},{k}{})",
                ["", "fn::", "bool_"][*route as usize % 3],
                RELS[*rel as usize % 3],
                if reif.is_some() { "_reif" } else { "" },
                show_is(cs),
                show_us(vs),
                reif.map(|b| format!(",v{b}")).unwrap_or_default()
            ),
            S::LinF { rel, cs, vs, k, reif, route } => format!(
                "{}lin_{}{}({},{},{k:?}f{})",
                ["", "fn::"][*route as usize % 2],
                RELS[*rel as usize % 3],
                if reif.is_some() { "_reif" } else { "" },
                show_fs(cs),
                show_us(vs),
                reif.map(|b| format!(",v{b}")).unwrap_or_default()
            ),
            S::Reif { op, x, y, b, route } => format!("{}{}_reif(v{x},v{y},v{b})", if *route == 1 { "fn::" } else { "" }, CMPS[*op as usize % 6]),
            S::Cumulative { starts, durs, demands, cap } => format!("fn::cumulative({},{},{},{cap})", show_us(starts), show_is(durs), show_is(demands)),
            S::Fluent { l, op, r, wrap, route } => format!(
                "{}({}{} {} {})",
                ["new", "c-chain", "fn::cmp", "post_and", "post_or", "postall", "new-fnexpr"][*route as usize % 7],
                ["", "not ", "and-self ", "or-self "][*wrap as usize % 4],
                l.show(),
                CMPS[*op as usize % 6],
                r.show()
            ),
        }
    }

    /// every integer literal of the step (for the in-range / extreme classification)
    fn ints(&self) -> Vec<i64> {
        let mut o: Vec<i64> = vec![];
        let a = |x: &A, o: &mut Vec<i64>| match x {
            A::K(k) => o.push(*k as i64),
            A::F(f) if f.is_finite() => o.push(f.abs().min(4e18) as i64),
            A::F(_) => o.push(i64::MAX),
            _ => {}
        };
        let f = |x: f64, o: &mut Vec<i64>| if x.is_finite() { o.push(x.abs().min(4e18) as i64) } else { o.push(i64::MAX) };
        match self {
            S::Int(x, y) | S::Ints(_, x, y) | S::Ints2d(_, _, x, y) => {
                o.push(*x as i64);
                o.push(*y as i64)
            }
            S::IntSet(v) => o.extend(v.iter().map(|x| *x as i64)),
            S::Float(x, y) | S::Floats(_, x, y) => {
                f(*x, &mut o);
                f(*y, &mut o)
            }
            S::NewVar(x, y) | S::Bin { x, y, .. } => {
                a(x, &mut o);
                a(y, &mut o)
            }
            S::Abs { x, .. } => a(x, &mut o),
            S::Table { rows, .. } => rows.iter().flatten().for_each(|x| a(x, &mut o)),
            S::Count { target, .. } => a(target, &mut o),
            S::Betw(_, x, y) => {
                o.push(*x as i64);
                o.push(*y as i64)
            }
            S::AtMostV(_, x) | S::AtLeastV(_, x) => o.push(*x as i64),
            S::Card { val, n, .. } => {
                o.push(*val as i64);
                o.push(*n as i64)
            }
            S::Gcc { values, .. } => o.extend(values.iter().map(|x| *x as i64)),
            S::Lin { cs, k, .. } => {
                o.extend(cs.iter().map(|x| *x as i64));
                o.push(*k as i64)
            }
            S::LinF { cs, k, .. } => {
                cs.iter().for_each(|x| f(*x, &mut o));
                f(*k, &mut o)
            }
            S::Cumulative { durs, demands, cap, .. } => {
                o.extend(durs.iter().map(|x| *x as i64));
                o.extend(demands.iter().map(|x| *x as i64));
                o.push(*cap as i64)
            }
            S::Fluent { l, r, .. } => {
                l.ints(&mut o);
                r.ints(&mut o)
            }
            _ => {}
        }
        o
    }
    fn is_decl(&self) -> bool {
        matches!(self, S::Int(..) | S::Ints(..) | S::Ints2d(..) | S::IntSet(..) | S::Bool | S::Bools(..) | S::Float(..) | S::Floats(..) | S::NewVar(..))
    }
}

#[derive(Clone, Copy, Debug, PartialEq)]
pub enum Obj {
    V(usize),
    Opp(usize),
    Plus(usize, i32),
    Times(usize, i32),
    Next(usize),
    Prev(usize),
    K(i32),
}

impl Obj {
    fn show(&self) -> String {
        match self {
            Obj::V(i) => format!("v{i}"),
            Obj::Opp(i) => format!("v{i}.opposite()"),
            Obj::Plus(i, k) => format!("v{i}.plus({k})"),
            Obj::Times(i, k) => format!("v{i}.times({k})"),
            Obj::Next(i) => format!("v{i}.next()"),
            Obj::Prev(i) => format!("v{i}.prev()"),
            Obj::K(k) => format!("const {k}"),
        }
    }
}

#[derive(Clone, Copy, Debug, PartialEq)]
pub enum Call {
    Solve,
    Enumerate,
    EnumStats,
    Minimize(Obj),
    Maximize(Obj),
    MinIter(Obj),
    MaxIter(Obj),
    Validate,
}

impl Call {
    fn show(&self) -> String {
        match self {
            Call::Solve => "solve".into(),
            Call::Enumerate => "enumerate".into(),
            Call::EnumStats => "enumerate_with_stats".into(),
            Call::Minimize(o) => format!("minimize({})", o.show()),
            Call::Maximize(o) => format!("maximize({})", o.show()),
            Call::MinIter(o) => format!("minimize_and_iterate({})", o.show()),
            Call::MaxIter(o) => format!("maximize_and_iterate({})", o.show()),
            Call::Validate => "validate".into(),
        }
    }
    fn ints(&self) -> Vec<i64> {
        match self {
            Call::Minimize(o) | Call::Maximize(o) | Call::MinIter(o) | Call::MaxIter(o) => match o {
                Obj::Plus(_, k) | Obj::Times(_, k) | Obj::K(k) => vec![*k as i64],
                _ => vec![],
            },
            _ => vec![],
        }
    }
}

#[derive(Clone, Copy, Debug, PartialEq)]
pub struct Cfg {
    /// 0 default, 1 `Model::with_config`, 2 `Model::with_float_precision`
    pub ctor: u8,
    pub timeout_ms: Option<u64>,
    /// `Some(0)` = `without_memory_limit`
    pub mem_mb: Option<u64>,
    pub precision: Option<i32>,
    pub unlimited: bool,
}

impl Cfg {
    fn show(&self) -> String {
        format!(
            "cfg(timeout={},mem={},prec={}{})",
            self.timeout_ms.map(|t| t.to_string()).unwrap_or("-".into()),
            match self.mem_mb {
                None => "default".into(),
                Some(0) => "none".into(),
                Some(m) => m.to_string(),
            },
            self.precision.map(|t| t.to_string()).unwrap_or("-".into()),
            if self.unlimited { ",unlimited" } else { "" }
        )
    }
    fn build(&self) -> Model {
        if self.ctor == 2 {
            return Model::with_float_precision(self.precision.unwrap_or(6));
        }
        let mut c = if self.unlimited { sp::config::SolverConfig::unlimited() } else { sp::config::SolverConfig::default() };
        match self.timeout_ms {
            Some(t) => c = c.with_timeout_ms(t),
            None => c = c.without_timeout(),
        }
        match self.mem_mb {
            Some(0) => c = c.without_memory_limit(),
            Some(m) => c = c.with_max_memory_mb(m),
            None => {}
        }
        if let Some(p) = self.precision {
            c = c.with_float_precision(p);
        }
        Model::with_config(c)
    }
}

#[derive(Clone, Debug)]
pub struct Case {
    pub cfg: Cfg,
    pub steps: Vec<S>,
    pub call: Call,
}

impl Case {
    fn show(&self) -> String {
        format!("{} ; {} ; {}", self.cfg.show(), self.steps.iter().map(|s| s.show()).collect::<Vec<_>>().join(" ; "), self.call.show())
    }
    fn extreme(&self) -> bool {
        self.steps.iter().flat_map(|s| s.ints()).chain(self.call.ints()).any(|v| v.abs() > IN_RANGE)
    }
}

// ------------------------------------------------------------------------------------------------
// execution
// ------------------------------------------------------------------------------------------------
/// what one guarded call did
#[derive(Clone, Debug, PartialEq)]
pub enum R {
    Ok,
    /// posting call returned `Err(name)`
    Err(String),
    Panic { file: String, loc: String, msg: String },
    /// the step could not be executed (not enough variables of the needed kind)
    Skipped,
}

#[derive(Clone, Debug)]
pub enum Res {
    Sol(Vec<Option<XV>>),
    Many(usize, Vec<Vec<Option<XV>>>),
    Err(String),
    Panic { file: String, loc: String, msg: String },
    Valid(bool),
}

#[derive(Clone, Copy, Debug, PartialEq)]
pub enum XV {
    I(i64),
    F(f64),
}

fn err_name(e: &SolverError) -> &'static str {
    match e {
        SolverError::NoSolution { .. } => "NoSolution",
        SolverError::Timeout { .. } => "Timeout",
        SolverError::MemoryLimit { .. } => "MemoryLimit",
        SolverError::InvalidConstraint { .. } => "InvalidConstraint",
        SolverError::ConflictingConstraints { .. } => "ConflictingConstraints",
        SolverError::InvalidDomain { .. } => "InvalidDomain",
        SolverError::InvalidVariable { .. } => "InvalidVariable",
        SolverError::InternalError { .. } => "InternalError",
        SolverError::InvalidInput { .. } => "InvalidInput",
    }
}

struct Built {
    m: Model,
    pool: Vec<VarId>,
}

fn pv(pool: &[VarId], i: usize) -> Option<VarId> {
    if pool.is_empty() { None } else { Some(pool[i % pool.len()]) }
}
fn pvs(pool: &[VarId], v: &[usize]) -> Option<Vec<VarId>> {
    if pool.is_empty() && !v.is_empty() { None } else { Some(v.iter().map(|i| pool[*i % pool.len()]).collect()) }
}

fn bex(e: &E, pool: &[VarId], fs: bool) -> Option<ExprBuilder> {
    Some(match e {
        E::V(i) => ExprBuilder::from(pv(pool, *i)?),
        E::K(c) => if fs { ExprBuilder::from(sp::int(*c)) } else { ExprBuilder::from(*c) },
        E::F(c) => if fs { ExprBuilder::from(sp::float(*c)) } else { ExprBuilder::from(*c) },
        E::B(op, a, b) => {
            let x = bex(a, pool, fs)?;
            let y = bex(b, pool, fs)?;
            if fs {
                match op % 5 {
                    0 => sp::add(x, y),
                    1 => sp::sub(x, y),
                    2 => sp::mul(x, y),
                    3 => sp::div(x, y),
                    _ => x.modulo(y),
                }
            } else {
                match op % 5 {
                    0 => x.add(y),
                    1 => x.sub(y),
                    2 => x.mul(y),
                    3 => x.div(y),
                    _ => x.modulo(y),
                }
            }
        }
    })
}

fn cmp_of(l: ExprBuilder, op: u8, r: ExprBuilder) -> Constraint {
    match op % 6 {
        0 => l.eq(r),
        1 => l.ne(r),
        2 => l.lt(r),
        3 => l.le(r),
        4 => l.gt(r),
        _ => l.ge(r),
    }
}

fn aval(a: &A) -> Val {
    match a {
        A::K(k) => Val::ValI(*k),
        A::F(f) => Val::ValF(*f),
        A::V(_) => Val::ValI(0),
    }
}

/// run one step on the model; `None` = not executable with the current pool
fn run_step(b: &mut Built, s: &S) -> Option<Result<(), String>> {
    let m = &mut b.m;
    let pool = &mut b.pool;
    let e = |r: Result<VarId, SolverError>, pool: &mut Vec<VarId>| -> Result<(), String> {
        match r {
            Ok(v) => {
                pool.push(v);
                Ok(())
            }
            Err(e) => Err(err_name(&e).to_string()),
        }
    };
    match s {
        S::Int(a, c) => pool.push(m.int(*a, *c)),
        S::Ints(n, a, c) => pool.extend(m.ints(*n, *a, *c)),
        S::Ints2d(r, c, a, d) => pool.extend(m.ints_2d(*r, *c, *a, *d).into_iter().flatten()),
        S::IntSet(v) => pool.push(m.intset(v.clone())),
        S::Bool => pool.push(m.bool()),
        S::Bools(n) => pool.extend(m.bools(*n)),
        S::Float(a, c) => pool.push(m.float(*a, *c)),
        S::Floats(n, a, c) => pool.extend(m.floats(*n, *a, *c)),
        S::NewVar(a, c) => pool.push(m.new_var(aval(a), aval(c))),
        S::Bin { op, x, y, route } => {
            let k = *op % 5;
            macro_rules! go {
                ($x:expr, $y:expr) => {
                    match k {
                        0 => m.add($x, $y),
                        1 => m.sub($x, $y),
                        2 => m.mul($x, $y),
                        3 => m.div($x, $y),
                        _ => m.modulo($x, $y),
                    }
                };
            }
            let r = match (x, y) {
                (A::V(x), A::V(y)) => {
                    let (x, y) = (pv(pool, *x)?, pv(pool, *y)?);
                    if k == 4 && *route == 1 { sp::modulo(m, x, y) } else { go!(x, y) }
                }
                (A::V(x), y) => {
                    let x = pv(pool, *x)?;
                    go!(x, aval(y))
                }
                (x, A::V(y)) => {
                    let y = pv(pool, *y)?;
                    go!(aval(x), y)
                }
                (x, y) => go!(aval(x), aval(y)),
            };
            pool.push(r);
        }
        S::Abs { x, route } => {
            let r = match x {
                A::V(x) => {
                    let x = pv(pool, *x)?;
                    if *route == 1 { sp::abs(m, x) } else { m.abs(x) }
                }
                k => m.abs(aval(k)),
            };
            pool.push(r);
        }
        S::MinMax { is_max, vs, route } => {
            let v = pvs(pool, vs)?;
            let r = match (*is_max, route % 4) {
                (false, 0) => m.min(&v),
                (false, 1) => sp::min(m, &v),
                (false, 2) => m.array_int_minimum(&v),
                (false, _) => m.array_float_minimum(&v),
                (true, 0) => m.max(&v),
                (true, 1) => sp::max(m, &v),
                (true, 2) => m.array_int_maximum(&v),
                (true, _) => m.array_float_maximum(&v),
            };
            return Some(e(r, pool));
        }
        S::Sum { vs, route } => {
            let v = pvs(pool, vs)?;
            let r = match route % 3 {
                0 => m.sum(&v),
                1 => sp::sum(m, &v),
                _ => m.sum_iter(v.iter().copied()),
            };
            pool.push(r);
        }
        S::BoolN { is_or, vs, route } => {
            let v = pvs(pool, vs)?;
            let r = match (*is_or, *route == 1 && v.len() == 2) {
                (false, true) => sp::and(m, v[0], v[1]),
                (false, false) => m.bool_and(&v),
                (true, true) => sp::or(m, v[0], v[1]),
                (true, false) => m.bool_or(&v),
            };
            pool.push(r);
        }
        S::Not { x, route } => {
            let x = pv(pool, *x)?;
            let r = if *route == 1 { sp::not(m, x) } else { m.bool_not(x) };
            pool.push(r);
        }
        S::Xor { x, y, route } => {
            let (x, y) = (pv(pool, *x)?, pv(pool, *y)?);
            let r = if *route == 1 { sp::xor(m, x, y) } else { m.bool_xor(x, y) };
            pool.push(r);
        }
        S::Implies { x, y, route } => {
            let (x, y) = (pv(pool, *x)?, pv(pool, *y)?);
            if *route == 1 { sp::implies(m, x, y) } else { m.implies(x, y) }
        }
        S::Clause { pos, neg } => {
            let (p, n) = (pvs(pool, pos)?, pvs(pool, neg)?);
            m.bool_clause(&p, &n);
        }
        S::Conv { kind, a, b, route } => {
            let (x, y) = (pv(pool, *a)?, pv(pool, *b)?);
            match (kind % 5, *route == 1) {
                (0, false) => m.int2float(x, y),
                (1, false) => m.float2int_floor(x, y),
                (2, false) => m.float2int_ceil(x, y),
                (3, false) => m.float2int_round(x, y),
                (0, true) => pool.push(sp::int2float(m, x)),
                (1, true) => pool.push(sp::floor(m, x)),
                (2, true) => pool.push(sp::ceil(m, x)),
                (3, true) => pool.push(sp::round(m, x)),
                _ => pool.push(sp::bool2int(m, x)),
            }
        }
        S::AllDiff { vs, route } => {
            let v = pvs(pool, vs)?;
            match route % 3 {
                0 => {
                    Model::alldiff(m, &v);
                }
                1 => sp::alldiff(m, &v),
                _ => {
                    ModelExt::alldiff(m, &v);
                }
            }
        }
        S::AllEq { vs, route } => {
            let v = pvs(pool, vs)?;
            match route % 3 {
                0 => {
                    Model::alleq(m, &v);
                }
                1 => sp::alleq(m, &v),
                _ => {
                    ModelExt::alleq(m, &v);
                }
            }
        }
        S::Element { arr, idx, val, route } => {
            let a = pvs(pool, arr)?;
            let (i, v) = (pv(pool, *idx)?, pv(pool, *val)?);
            match route % 5 {
                0 => {
                    m.element(&a, i, v);
                }
                1 => {
                    m.elem(&a, i, v);
                }
                2 => m.array_int_element(i, &a, v),
                3 => m.array_float_element(i, &a, v),
                _ => pool.push(sp::element(m, &a, i)),
            }
        }
        S::Element2d { rows, ri, ci, val } => {
            let mut mat = vec![];
            for r in rows {
                mat.push(pvs(pool, r)?);
            }
            let (r, c, v) = (pv(pool, *ri)?, pv(pool, *ci)?, pv(pool, *val)?);
            m.element_2d(&mat, r, c, v);
        }
        S::Element3d { cube, di, ri, ci, val } => {
            let mut cu = vec![];
            for mat in cube {
                let mut mm = vec![];
                for r in mat {
                    mm.push(pvs(pool, r)?);
                }
                cu.push(mm);
            }
            let (d, r, c, v) = (pv(pool, *di)?, pv(pool, *ri)?, pv(pool, *ci)?, pv(pool, *val)?);
            m.element_3d(&cu, d, r, c, v);
        }
        S::Table { vs, rows, route } => {
            let v = pvs(pool, vs)?;
            let t: Vec<Vec<Val>> = rows.iter().map(|r| r.iter().map(aval).collect()).collect();
            match route % 4 {
                0 => {
                    m.table(&v, t);
                }
                1 => {
                    sp::table(m, &v, &t);
                }
                2 => {
                    m.table_2d(&[v.clone(), v], t);
                }
                _ => {
                    m.table_3d(&[vec![v.clone()], vec![v]], t);
                }
            }
        }
        S::Count { vs, target, cnt, route } => {
            let v = pvs(pool, vs)?;
            let c = pv(pool, *cnt)?;
            match (target, *route == 1) {
                (A::K(k), true) => {
                    ModelExt::count(m, &v, *k, c);
                }
                (A::V(t), _) => {
                    let t = pv(pool, *t)?;
                    Model::count(m, &v, t, c);
                }
                (k, _) => {
                    Model::count(m, &v, aval(k), c);
                }
            }
        }
        S::Between(l, mm, u) => {
            let (l, x, u) = (pv(pool, *l)?, pv(pool, *mm)?, pv(pool, *u)?);
            m.between(l, x, u);
        }
        S::Betw(v, a, c) => {
            let v = pv(pool, *v)?;
            m.betw(v, *a, *c);
        }
        S::AtMostV(v, a) => {
            let v = pv(pool, *v)?;
            m.atmost(v, *a);
        }
        S::AtLeastV(v, a) => {
            let v = pv(pool, *v)?;
            m.atleast(v, *a);
        }
        S::Card { kind, vs, val, n } => {
            let v = pvs(pool, vs)?;
            match kind % 3 {
                0 => m.at_least(&v, *val, *n),
                1 => m.at_most(&v, *val, *n),
                _ => m.exactly(&v, *val, *n),
            };
        }
        S::Gcc { vs, values, counts, route } => {
            let (v, c) = (pvs(pool, vs)?, pvs(pool, counts)?);
            match route % 3 {
                0 => {
                    Model::gcc(m, &v, values, &c);
                }
                1 => {
                    sp::gcc(m, &v, values, &c);
                }
                _ => {
                    ModelExt::gcc(m, &v, values, &c);
                }
            }
        }
        S::Lin { rel, cs, vs, k, reif, route } => {
            let v = pvs(pool, vs)?;
            let r = match reif {
                Some(r) => Some(pv(pool, *r)?),
                None => None,
            };
            let (cs, k) = (&cs[..], *k);
            match (rel % 3, r, route % 3) {
                (0, None, 0) => m.lin_eq(cs, &v, k),
                (1, None, 0) => m.lin_le(cs, &v, k),
                (_, None, 0) => m.lin_ne(cs, &v, k),
                (0, Some(r), 0) => m.lin_eq_reif(cs, &v, k, r),
                (1, Some(r), 0) => m.lin_le_reif(cs, &v, k, r),
                (_, Some(r), 0) => m.lin_ne_reif(cs, &v, k, r),
                (0, None, 1) => sp::lin_eq(m, cs, &v, k),
                (1, None, 1) => sp::lin_le(m, cs, &v, k),
                (_, None, 1) => sp::lin_ne(m, cs, &v, k),
                (0, Some(r), 1) => sp::lin_eq_reif(m, cs, &v, k, r),
                (1, Some(r), 1) => sp::lin_le_reif(m, cs, &v, k, r),
                (_, Some(r), 1) => sp::lin_ne_reif(m, cs, &v, k, r),
                (0, None, _) => m.bool_lin_eq(cs, &v, k),
                (1, None, _) => m.bool_lin_le(cs, &v, k),
                (_, None, _) => m.bool_lin_ne(cs, &v, k),
                (0, Some(r), _) => m.bool_lin_eq_reif(cs, &v, k, r),
                (1, Some(r), _) => m.bool_lin_le_reif(cs, &v, k, r),
                (_, Some(r), _) => m.bool_lin_ne_reif(cs, &v, k, r),
            }
        }
        S::LinF { rel, cs, vs, k, reif, route } => {
            let v = pvs(pool, vs)?;
            let r = match reif {
                Some(r) => Some(pv(pool, *r)?),
                None => None,
            };
            let (cs, k) = (&cs[..], *k);
            match (rel % 3, r, route % 2) {
                (0, None, 0) => m.lin_eq(cs, &v, k),
                (1, None, 0) => m.lin_le(cs, &v, k),
                (_, None, 0) => m.lin_ne(cs, &v, k),
                (0, Some(r), 0) => m.lin_eq_reif(cs, &v, k, r),
                (1, Some(r), 0) => m.lin_le_reif(cs, &v, k, r),
                (_, Some(r), 0) => m.lin_ne_reif(cs, &v, k, r),
                (0, None, _) => sp::lin_eq(m, cs, &v, k),
                (1, None, _) => sp::lin_le(m, cs, &v, k),
                (_, None, _) => sp::lin_ne(m, cs, &v, k),
                (0, Some(r), _) => sp::lin_eq_reif(m, cs, &v, k, r),
                (1, Some(r), _) => sp::lin_le_reif(m, cs, &v, k, r),
                (_, Some(r), _) => sp::lin_ne_reif(m, cs, &v, k, r),
            }
        }
        S::Reif { op, x, y, b: r, route } => {
            let (x, y, r) = (pv(pool, *x)?, pv(pool, *y)?, pv(pool, *r)?);
            match (op % 6, *route == 1) {
                (0, false) => m.eq_reif(x, y, r),
                (1, false) => m.ne_reif(x, y, r),
                (2, false) => m.lt_reif(x, y, r),
                (3, false) => m.le_reif(x, y, r),
                (4, false) => m.gt_reif(x, y, r),
                (_, false) => m.ge_reif(x, y, r),
                (0, true) => sp::eq_reif(m, x, y, r),
                (1, true) => sp::ne_reif(m, x, y, r),
                (2, true) => sp::lt_reif(m, x, y, r),
                (3, true) => sp::le_reif(m, x, y, r),
                (4, true) => sp::gt_reif(m, x, y, r),
                (_, true) => sp::ge_reif(m, x, y, r),
            }
        }
        S::Cumulative { starts, durs, demands, cap } => {
            let s = pvs(pool, starts)?;
            sp::cumulative(m, &s, durs, demands, *cap);
        }
        S::Fluent { l, op, r, wrap, route } => {
            let fs = *route % 7 == 6;
            let mk = |pool: &[VarId]| -> Option<Constraint> {
                let c = cmp_of(bex(l, pool, fs)?, *op, bex(r, pool, fs)?);
                Some(match wrap % 4 {
                    1 => c.not(),
                    2 => {
                        let d = cmp_of(bex(l, pool, fs)?, *op, bex(r, pool, fs)?);
                        c.and(d)
                    }
                    3 => {
                        let d = cmp_of(bex(r, pool, fs)?, *op, bex(l, pool, fs)?);
                        c.or(d)
                    }
                    _ => c,
                })
            };
            match route % 7 {
                1 => {
                    // builder chain `m.c(x).add(..).<cmp>(rhs)`: only for a variable-rooted left side
                    let (root, ops): (usize, Vec<(u8, &E)>) = {
                        fn chain(e: &E) -> Option<(usize, Vec<(u8, &E)>)> {
                            match e {
                                E::V(i) => Some((*i, vec![])),
                                E::B(op, a, b) if *op % 5 != 4 => {
                                    let (v, mut ops) = chain(a)?;
                                    ops.push((*op % 5, &**b));
                                    Some((v, ops))
                                }
                                _ => None,
                            }
                        }
                        match chain(l) {
                            Some(c) => c,
                            None => {
                                let c = mk(pool)?;
                                m.new(c);
                                return Some(Ok(()));
                            }
                        }
                    };
                    let x = pv(pool, root)?;
                    let rb = bex(r, pool, false)?;
                    let mut ys = vec![];
                    for (o, e) in ops {
                        ys.push((o, bex(e, pool, false)?));
                    }
                    let mut bld = m.c(x);
                    for (o, y) in ys {
                        bld = match o {
                            0 => bld.add(y),
                            1 => bld.sub(y),
                            2 => bld.mul(y),
                            _ => bld.div(y),
                        };
                    }
                    match op % 6 {
                        0 => bld.eq(rb),
                        1 => bld.ne(rb),
                        2 => bld.lt(rb),
                        3 => bld.le(rb),
                        4 => bld.gt(rb),
                        _ => bld.ge(rb),
                    };
                }
                2 => {
                    let (lb, rb) = (bex(l, pool, false)?, bex(r, pool, false)?);
                    match op % 6 {
                        0 => sp::eq(m, lb, rb),
                        1 => sp::ne(m, lb, rb),
                        2 => sp::lt(m, lb, rb),
                        3 => sp::le(m, lb, rb),
                        4 => sp::gt(m, lb, rb),
                        _ => sp::ge(m, lb, rb),
                    }
                }
                3 => {
                    let c = mk(pool)?;
                    let d = mk(pool)?;
                    m.post_and(vec![c, d]);
                }
                4 => {
                    let c = mk(pool)?;
                    let d = mk(pool)?;
                    m.post_or(vec![c, d]);
                }
                5 => {
                    let c = mk(pool)?;
                    if *wrap % 2 == 0 {
                        m.postall(vec![c]);
                    } else {
                        ConstraintVecExt::postall(vec![c], m);
                    }
                }
                _ => {
                    let c = mk(pool)?;
                    m.new(c);
                }
            }
        }
    }
    Some(Ok(()))
}

const CAP: usize = 40;

fn xv(v: Val) -> XV {
    match v {
        Val::ValI(i) => XV::I(i as i64),
        Val::ValF(f) => XV::F(f),
    }
}

fn extract(s: &Solution, pool: &[VarId]) -> Vec<Option<XV>> {
    pool.iter().map(|id| guarded(|| s[*id]).map(xv)).collect()
}

struct ObjK<'a> {
    m: Model,
    call: Call,
    pool: &'a [VarId],
}

fn one(r: Result<Solution, SolverError>, pool: &[VarId]) -> Res {
    match r {
        Ok(s) => Res::Sol(extract(&s, pool)),
        Err(e) => Res::Err(err_name(&e).to_string()),
    }
}

impl<'a> ObjK<'a> {
    fn go<V: sp::View>(self, v: V) -> Res {
        match self.call {
            Call::Minimize(_) => one(self.m.minimize(v), self.pool),
            Call::Maximize(_) => one(self.m.maximize(v), self.pool),
            Call::MinIter(_) => {
                let v: Vec<_> = self.m.minimize_and_iterate(v).take(CAP).map(|s| extract(&s, self.pool)).collect();
                Res::Many(v.len(), v)
            }
            _ => {
                let v: Vec<_> = self.m.maximize_and_iterate(v).take(CAP).map(|s| extract(&s, self.pool)).collect();
                Res::Many(v.len(), v)
            }
        }
    }
}

fn run_call(m: Model, pool: &[VarId], call: Call) -> Res {
    use selen::variables::views::ViewExt;
    match call {
        Call::Solve => one(m.solve(), pool),
        Call::Enumerate => {
            let v: Vec<_> = m.enumerate().take(CAP).map(|s| extract(&s, pool)).collect();
            Res::Many(v.len(), v)
        }
        Call::EnumStats => {
            // collects every solution: only generated for small models
            let (v, _st) = m.enumerate_with_stats();
            let n = v.len();
            Res::Many(n, v.iter().take(CAP).map(|s| extract(s, pool)).collect())
        }
        Call::Validate => Res::Valid(m.validate().is_ok()),
        Call::Minimize(o) | Call::Maximize(o) | Call::MinIter(o) | Call::MaxIter(o) => {
            let k = ObjK { m, call, pool };
            let var = |i: usize| if pool.is_empty() { None } else { Some(pool[i % pool.len()]) };
            match o {
                Obj::K(c) => k.go(Val::ValI(c)),
                Obj::V(i) => match var(i) {
                    Some(x) => k.go(x),
                    None => k.go(Val::ValI(0)),
                },
                Obj::Opp(i) => match var(i) {
                    Some(x) => k.go(x.opposite()),
                    None => k.go(Val::ValI(0)),
                },
                Obj::Plus(i, c) => match var(i) {
                    Some(x) => k.go(x.plus(Val::ValI(c))),
                    None => k.go(Val::ValI(0)),
                },
                Obj::Times(i, c) => match var(i) {
                    Some(x) => k.go(x.times(Val::ValI(c))),
                    None => k.go(Val::ValI(0)),
                },
                Obj::Next(i) => match var(i) {
                    Some(x) => k.go(x.next()),
                    None => k.go(Val::ValI(0)),
                },
                Obj::Prev(i) => match var(i) {
                    Some(x) => k.go(x.prev()),
                    None => k.go(Val::ValI(0)),
                },
            }
        }
    }
}

pub struct Run {
    pub steps: Vec<R>,
    pub call: Option<Res>,
    /// a fluent posting step (an equality applied at posting time) left an integer variable with
    /// an EMPTY domain without recording an error: the state behind `empty-domain-view-panic`
    pub emptied: bool,
}

/// execute a case: every step and the final call under its own `catch_unwind`; a panic in a
/// posting step ends the case (the model may be half-updated)
pub fn execute(case: &Case) -> Run {
    let mut b = match guarded(|| case.cfg.build()) {
        Some(m) => Built { m, pool: vec![] },
        None => {
            let (loc, msg) = take_panic();
            return Run { steps: vec![R::Panic { file: loc_file(&loc), loc, msg }], call: None, emptied: false };
        }
    };
    let mut rs = vec![];
    let mut emptied = false;
    for (si, s) in case.steps.iter().enumerate() {
        progress(&format!("step {si} {}", s.show()));
        let r = guarded(|| run_step(&mut b, s));
        match r {
            None => {
                let (loc, msg) = take_panic();
                rs.push(R::Panic { file: loc_file(&loc), loc, msg });
                return Run { steps: rs, call: None, emptied };
            }
            Some(None) => rs.push(R::Skipped),
            Some(Some(Ok(()))) => {
                if matches!(s, S::Fluent { .. }) && !emptied {
                    emptied = guarded(|| b.pool.iter().any(|x| matches!(&b.m[*x], selen::variables::Var::VarI(d) if d.is_empty()))).unwrap_or(false);
                }
                rs.push(R::Ok)
            }
            Some(Some(Err(e))) => rs.push(R::Err(e)),
        }
    }
    let Built { m, pool } = b;
    let call = case.call;
    progress(&format!("call {}", call.show()));
    let r = guarded(|| run_call(m, &pool, call));
    let res = match r {
        Some(r) => r,
        None => {
            let (loc, msg) = take_panic();
            Res::Panic { file: loc_file(&loc), loc, msg }
        }
    };
    Run { steps: rs, call: Some(res), emptied }
}

fn first_panic(run: &Run) -> Option<(usize, String, String, String)> {
    for (i, r) in run.steps.iter().enumerate() {
        if let R::Panic { file, loc, msg } = r {
            return Some((i, file.clone(), loc.clone(), msg.clone()));
        }
    }
    if let Some(Res::Panic { file, loc, msg }) = &run.call {
        return Some((run.steps.len(), file.clone(), loc.clone(), msg.clone()));
    }
    None
}

// ------------------------------------------------------------------------------------------------
// minimisation (delta debugging on the step list, keeping the same panic site)
// ------------------------------------------------------------------------------------------------
fn same_site(a: &(usize, String, String, String), b: &(usize, String, String, String)) -> bool {
    a.1 == b.1 && msg_kind(&a.3) == msg_kind(&b.3)
}

fn minimise(case: &Case, site: &(usize, String, String, String)) -> Case {
    let mut cur = case.clone();
    let mut budget = 60;
    // a posting-step panic does not need the solving call
    if site.0 < cur.steps.len() {
        cur.steps.truncate(site.0 + 1);
        cur.call = Call::Validate;
    }
    loop {
        let mut changed = false;
        let mut i = 0;
        while i < cur.steps.len() && budget > 0 {
            let mut t = cur.clone();
            t.steps.remove(i);
            budget -= 1;
            let r = execute(&t);
            match first_panic(&r) {
                Some(s2) if same_site(site, &s2) => {
                    cur = t;
                    changed = true;
                }
                _ => i += 1,
            }
        }
        if !changed || budget == 0 {
            break;
        }
    }
    // simpler configuration (never drop a budget that keeps a large span from being allocated)
    if budget > 0 && cur.steps.iter().all(|s| alloc_span(s) <= MAX_ALLOC_SPAN) {
        let mut t = cur.clone();
        t.cfg = Cfg { ctor: 0, timeout_ms: Some(300), mem_mb: None, precision: None, unlimited: false };
        if let Some(s2) = first_panic(&execute(&t)) {
            if same_site(site, &s2) {
                cur = t;
            }
        }
    }
    cur
}

// ------------------------------------------------------------------------------------------------
// tags
// ------------------------------------------------------------------------------------------------
fn msg_kind(msg: &str) -> &'static str {
    if msg.contains("with overflow") {
        "overflow"
    } else if msg.contains("index out of bounds") || msg.contains("out of range for slice") {
        "index"
    } else if msg.contains("assertion") {
        "assert"
    } else if msg.contains("divide by zero") || msg.contains("remainder with a divisor of zero") {
        "divzero"
    } else if msg.contains("unwrap()") || msg.contains("expect") {
        "unwrap"
    } else if msg.contains("capacity overflow") {
        "capacity"
    } else {
        "other"
    }
}

/// does the case declare a variable whose domain is empty by construction?
fn has_empty_decl(case: &Case) -> bool {
    // reversed float bounds count when a float->int conversion derives an integer variable from them
    let conv = case.steps.iter().any(|s| matches!(s, S::Conv { route: 1, .. }));
    case.steps.iter().any(|s| match s {
        S::Int(a, b) => a > b,
        S::IntSet(v) => v.is_empty(),
        S::Float(a, b) => conv && a > b,
        _ => false,
    })
}

/// the first variable of the model is rejected by the memory budget: `new_var_unchecked` hands out
/// the dummy `VarId(0)` although the model has no variable
fn first_var_rejected(case: &Case) -> bool {
    if case.cfg.ctor == 1 && (case.cfg.mem_mb == Some(0) || (case.cfg.unlimited && case.cfg.mem_mb.is_none())) {
        return false;
    }
    // `Model::with_float_precision` / `Model::default()` keep the default budget of 2048 MB
    let limit = if case.cfg.ctor == 1 { case.cfg.mem_mb.unwrap_or(2048) } else { 2048 };
    // the first step that really creates a variable
    let creates = |s: &S| match s {
        S::Ints(n, ..) | S::Bools(n) | S::Floats(n, ..) => *n > 0,
        S::Ints2d(r, c, ..) => r * c > 0,
        _ => s.is_decl(),
    };
    let bounds: Option<(i32, i32)> = match case.steps.iter().find(|s| creates(s)) {
        Some(S::Int(a, b)) if a <= b => Some((*a, *b)),
        // these swap reversed bounds
        Some(S::Ints(_, a, b)) | Some(S::Ints2d(_, _, a, b)) | Some(S::NewVar(A::K(a), A::K(b))) => Some((*a.min(b), *a.max(b))),
        _ => None,
    };
    match bounds {
        Some((a, b)) if a != i32::MIN && b != i32::MAX => {
            let d = b as i64 - a as i64 + 1;
            if d > i32::MAX as i64 {
                return true; // `checked_sub` / `checked_add` overflow: the estimate is u64::MAX
            }
            let d = d as u64;
            let est = if d > 1000 { 144 + d } else { 144 + d * 8 };
            est > limit * 1024 * 1024
        }
        _ => false,
    }
}

fn has_mul(case: &Case) -> bool {
    case.steps.iter().any(|s| matches!(s, S::Bin { op: 2, .. }) || s.show().contains('*') || s.show().contains("mul("))
}

fn has_bad_table_row(case: &Case) -> bool {
    case.steps.iter().any(|s| matches!(s, S::Table { vs, rows, .. } if rows.iter().any(|r| r.len() != vs.len())))
}

fn has_reif_lin_mismatch(case: &Case) -> bool {
    case.steps.iter().any(|s| match s {
        S::Lin { cs, vs, reif: Some(_), .. } => cs.len() != vs.len(),
        S::LinF { cs, vs, reif: Some(_), .. } => cs.len() != vs.len(),
        _ => false,
    })
}

/// narrow matcher for a panic: (message kind, source file, syntactic shape of the case)
pub fn tag_panic(case: &Case, file: &str, msg: &str) -> String {
    if is_clean_case(case) {
        return "-".into();
    }
    let kind = msg_kind(msg);
    let extreme = case.extreme();
    if kind == "assert" && file.ends_with("domain/sparse_set.rs") && msg.contains("is_empty") && has_empty_decl(case) {
        return "empty-domain-view-panic".into();
    }
    if kind == "index" && file.ends_with("props/linear.rs") && has_reif_lin_mismatch(case) {
        return "lin-reif-length-unchecked".into();
    }
    // (`memory-limit-dummy-varid-panic` — the dummy `VarId(0)` of a model whose first variable was
    // rejected by the budget — is repaired by 39d3272: the matcher is gone, a recurrence is unlisted)
    // the files in which the unchanged tree overflows i32 on extreme arguments (bounds arithmetic of
    // domains, views, `Val`, the linear propagators and the posting helpers); an overflow anywhere
    // else is not the recorded finding
    const OVERFLOW_FILES: [&str; 10] = [
        "variables/views.rs", "variables/domain/sparse_set.rs", "constraints/props/linear.rs", "variables/core.rs",
        "constraints/functions.rs", "runtime_api/mod.rs", "core/validation.rs", "constraints/api/arithmetic.rs",
        // (`-x` / `x * y` through the operator traits of `Val` and the views are reported inside std)
        "src/ops/arith.rs", "src/num/mod.rs",
    ];
    if kind == "overflow" && extreme && OVERFLOW_FILES.iter().any(|f| file.ends_with(f)) {
        return "i32-overflow".into();
    }
    // in-range operands (|v| <= 10^6) whose PRODUCT leaves i32: `Val * Val` in the bounds of `mul`
    let has_mul = case.steps.iter().any(|s| matches!(s, S::Bin { op: 2, .. }) || s.show().contains('*') || s.show().contains("mul("));
    let big = case.steps.iter().flat_map(|s| s.ints()).any(|v| v.abs() >= 46_341);
    if kind == "overflow" && file.ends_with("variables/core.rs") && has_mul && big {
        return "product-bounds-overflow".into();
    }
    "-".into()
}

// ------------------------------------------------------------------------------------------------
// generators
// ------------------------------------------------------------------------------------------------
struct Gen<'a> {
    r: &'a mut Rng,
    extreme: bool,
    /// number of variables created so far (lower bound; result variables add more)
    n: usize,
    big: usize,
}

const EXT: [i32; 18] = [
    i32::MIN,
    i32::MIN + 1,
    i32::MIN + 2,
    i32::MAX,
    i32::MAX - 1,
    i32::MAX - 2,
    1 << 30,
    -(1 << 30),
    (1 << 30) + 1,
    2_000_000_000,
    -2_000_000_000,
    46341,
    -46341,
    65536,
    1_000_001,
    -1_000_001,
    i32::MAX / 2 + 1,
    i32::MIN / 2 - 1,
];

impl<'a> Gen<'a> {
    fn small(&mut self) -> i32 {
        self.r.range(-4, 6) as i32
    }
    /// an integer argument of the current stream
    fn val(&mut self) -> i32 {
        if self.extreme && self.r.chance(1, 2) {
            return *self.r.pick(&EXT);
        }
        match self.r.below(20) {
            0 => *self.r.pick(&[1000, -1000, 999_999, -999_999, 1_000_000, -1_000_000, 46340, -46340, 32768]),
            1 | 2 => self.r.range(-60, 60) as i32,
            _ => self.small(),
        }
    }
    fn fval(&mut self) -> f64 {
        if self.extreme && self.r.chance(1, 40) {
            return *self.r.pick(&[f64::NAN, f64::INFINITY, f64::NEG_INFINITY, f64::MAX, f64::MIN, 1e308, -1e308, f64::MIN_POSITIVE, -0.0, 1e300, 5e-324, 2147483648.0, -2147483649.0, 1e19]);
        }
        match self.r.below(8) {
            0 => self.r.range(-1000, 1000) as f64 / 8.0,
            1 => 0.0,
            2 => *self.r.pick(&[0.1, -0.1, 1e-6, 1e-9, 0.5, 1e6, -1e6]),
            _ => self.r.range(-8, 12) as f64 / 2.0,
        }
    }
    fn v(&mut self) -> usize {
        self.r.below(self.n.max(1) as u64 + 2) as usize
    }
    fn vs(&mut self, lo: usize, hi: usize) -> Vec<usize> {
        let n = self.r.range(lo as i64, hi as i64) as usize;
        let dup = self.r.chance(1, 6);
        let mut v: Vec<usize> = (0..n).map(|_| self.v()).collect();
        if dup && v.len() >= 2 {
            v[1] = v[0];
        }
        v
    }
    fn arg(&mut self) -> A {
        match self.r.below(10) {
            0 | 1 => A::K(self.val()),
            2 if self.r.chance(1, 3) => A::F(self.fval()),
            _ => A::V(self.v()),
        }
    }
    fn expr(&mut self, depth: usize) -> E {
        if depth == 0 || self.r.chance(2, 5) {
            return match self.r.below(8) {
                0 | 1 => E::K(self.val()),
                2 if self.r.chance(1, 3) => E::F(self.fval()),
                _ => E::V(self.v()),
            };
        }
        let op = self.r.below(5) as u8;
        let a = self.expr(depth - 1);
        let b = if (op == 3 || op == 4) && self.r.chance(1, 4) { E::K(0) } else { self.expr(depth - 1) };
        E::B(op, Box::new(a), Box::new(b))
    }
    fn decl(&mut self) -> S {
        let s = match self.r.below(16) {
            0..=4 => {
                // int: valid, reversed, equal
                let a = self.val();
                let w = match self.r.below(8) {
                    0 => 0,
                    1 => -(self.r.range(1, 5) as i32),
                    // (context for the bound inference of an unbounded variable: a few hundred to 10^5 values)
                    2 if self.extreme => *self.r.pick(&[600, 5000, 70_000]),
                    _ => self.r.range(1, 7) as i32,
                };
                let b = a.saturating_add(w);
                if self.r.chance(1, 12) && self.big < 2 {
                    // a large span (memory budget!)
                    self.big += 1;
                    let c = self.val();
                    S::Int(a.min(c), a.max(c))
                } else {
                    S::Int(a, b)
                }
            }
            5 => {
                let a = self.small();
                let w = self.r.range(-2, 4) as i32;
                S::Ints(self.r.below(4) as usize, a, a + w)
            }
            6 => {
                let n = self.r.below(5) as usize;
                let base = self.val();
                let mut v: Vec<i32> = (0..n).map(|_| base.saturating_add(self.r.range(-3, 3) as i32)).collect();
                if self.r.chance(1, 4) && !v.is_empty() {
                    v.push(v[0]);
                }
                S::IntSet(v)
            }
            7 | 8 => S::Bool,
            9 => S::Bools(self.r.below(4) as usize),
            10 | 11 => {
                let a = self.fval();
                let b = if self.r.chance(1, 6) { a - 1.0 } else if self.r.chance(1, 6) { a } else { a + self.r.range(0, 8) as f64 / 2.0 };
                S::Float(a, b)
            }
            12 => {
                let a = self.fval();
                S::Floats(self.r.below(3) as usize, a, a + 1.5)
            }
            13 => {
                let a = self.small();
                S::Ints2d(self.r.below(3) as usize, self.r.below(3) as usize, a, a + 2)
            }
            14 => {
                let x = if self.r.chance(1, 2) { A::K(self.val()) } else { A::F(self.fval()) };
                let y = if self.r.chance(1, 2) { A::K(self.val()) } else { A::F(self.fval()) };
                S::NewVar(x, y)
            }
            // an "unbounded" integer variable: its bounds are inferred from the variables declared so far
            _ if self.extreme && self.n > 0 && self.r.chance(1, 3) => S::Int(i32::MIN, i32::MAX),
            _ => {
                let a = self.small();
                S::Int(a, a + self.r.range(0, 3) as i32)
            }
        };
        self.n += match &s {
            S::Ints(n, ..) | S::Bools(n) | S::Floats(n, ..) => *n,
            S::Ints2d(r, c, ..) => r * c,
            _ => 1,
        };
        s
    }
    fn post(&mut self) -> S {
        let route = self.r.below(8) as u8;
        match self.r.below(34) {
            0..=2 => S::Bin { op: self.r.below(5) as u8, x: self.arg(), y: self.arg(), route: route % 2 },
            3 => S::Abs { x: self.arg(), route: route % 2 },
            4 | 5 => S::MinMax { is_max: self.r.chance(1, 2), vs: self.vs(0, 3), route: route % 4 },
            6 => S::Sum { vs: self.vs(0, 4), route: route % 3 },
            7 => S::BoolN { is_or: self.r.chance(1, 2), vs: self.vs(0, 3), route: route % 2 },
            8 => S::Not { x: self.v(), route: route % 2 },
            9 => S::Xor { x: self.v(), y: self.v(), route: route % 2 },
            10 => S::Implies { x: self.v(), y: self.v(), route: route % 2 },
            11 => S::Clause { pos: self.vs(0, 2), neg: self.vs(0, 2) },
            12 => S::Conv { kind: self.r.below(5) as u8, a: self.v(), b: self.v(), route: route % 2 },
            13 => S::AllDiff { vs: self.vs(0, 4), route: route % 3 },
            14 => S::AllEq { vs: self.vs(0, 4), route: route % 3 },
            15 | 16 => S::Element { arr: self.vs(0, 3), idx: self.v(), val: self.v(), route: route % 5 },
            17 => {
                let (r, c) = (self.r.below(3) as usize, self.r.below(3) as usize);
                let ragged = self.r.chance(1, 4);
                let rows: Vec<Vec<usize>> = (0..r).map(|i| self.vs(if ragged && i > 0 { 0 } else { c }, c)).collect();
                S::Element2d { rows, ri: self.v(), ci: self.v(), val: self.v() }
            }
            18 => {
                let (d, r, c) = (self.r.below(3) as usize, self.r.below(3) as usize, self.r.below(3) as usize);
                let cube: Vec<Vec<Vec<usize>>> = (0..d).map(|_| (0..r).map(|_| self.vs(c, c)).collect()).collect();
                S::Element3d { cube, di: self.v(), ri: self.v(), ci: self.v(), val: self.v() }
            }
            19 | 20 => {
                let vs = self.vs(0, 3);
                let nr = self.r.below(4) as usize;
                let bad = self.r.chance(1, 4);
                let rows: Vec<Vec<A>> = (0..nr)
                    .map(|_| {
                        let w = if bad { self.r.below(4) as usize } else { vs.len() };
                        (0..w).map(|_| if self.r.chance(1, 10) { A::F(self.fval()) } else { A::K(self.val()) }).collect()
                    })
                    .collect();
                S::Table { vs, rows, route: route % 4 }
            }
            21 => S::Count { vs: self.vs(0, 4), target: self.arg(), cnt: self.v(), route: route % 2 },
            22 => match self.r.below(4) {
                0 => S::Between(self.v(), self.v(), self.v()),
                1 => S::Betw(self.v(), self.val(), self.val()),
                2 => S::AtMostV(self.v(), self.val()),
                _ => S::AtLeastV(self.v(), self.val()),
            },
            23 => S::Card { kind: self.r.below(3) as u8, vs: self.vs(0, 4), val: self.val(), n: if self.r.chance(1, 3) { -(self.r.range(1, 3) as i32) } else { self.val() } },
            24 => {
                let vs = self.vs(0, 3);
                let nv = self.r.below(3) as usize;
                let values: Vec<i32> = (0..nv).map(|_| self.val()).collect();
                let nc = if self.r.chance(1, 3) { self.r.below(3) as usize } else { nv };
                S::Gcc { vs, values, counts: self.vs(nc, nc), route: route % 3 }
            }
            25..=27 => {
                let vs = self.vs(0, 3);
                let nc = if self.r.chance(1, 3) { self.r.below(4) as usize } else { vs.len() };
                let cs: Vec<i32> = (0..nc).map(|_| if self.r.chance(1, 6) { 0 } else { self.val() }).collect();
                let reif = if self.r.chance(1, 3) { Some(self.v()) } else { None };
                S::Lin { rel: self.r.below(3) as u8, cs, vs, k: self.val(), reif, route: route % 3 }
            }
            28 => {
                let vs = self.vs(0, 3);
                let nc = if self.r.chance(1, 3) { self.r.below(4) as usize } else { vs.len() };
                let cs: Vec<f64> = (0..nc).map(|_| self.fval()).collect();
                let reif = if self.r.chance(1, 3) { Some(self.v()) } else { None };
                S::LinF { rel: self.r.below(3) as u8, cs, vs, k: self.fval(), reif, route: route % 2 }
            }
            29 => S::Reif { op: self.r.below(6) as u8, x: self.v(), y: self.v(), b: self.v(), route: route % 2 },
            30 => {
                let starts = self.vs(0, 3);
                let n = if self.r.chance(1, 4) { self.r.below(3) as usize } else { starts.len() };
                let durs: Vec<i32> = (0..n).map(|_| self.val()).collect();
                let demands: Vec<i32> = (0..starts.len()).map(|_| self.val()).collect();
                S::Cumulative { starts, durs, demands, cap: self.val() }
            }
            _ => {
                let d = self.r.below(3) as usize;
                S::Fluent { l: self.expr(d), op: self.r.below(6) as u8, r: self.expr(1), wrap: if self.r.chance(1, 3) { self.r.below(4) as u8 } else { 0 }, route: route % 7 }
            }
        }
    }
    fn obj(&mut self) -> Obj {
        match self.r.below(9) {
            0 => Obj::Opp(self.v()),
            1 => Obj::Plus(self.v(), self.val()),
            2 => Obj::Times(self.v(), self.val()),
            3 => Obj::Next(self.v()),
            4 => Obj::Prev(self.v()),
            5 if self.r.chance(1, 3) => Obj::K(self.val()),
            _ => Obj::V(self.v()),
        }
    }
    fn call(&mut self, small_model: bool) -> Call {
        match self.r.below(if small_model { 9 } else { 8 }) {
            0 | 1 => Call::Solve,
            2 => Call::Enumerate,
            3 => Call::Minimize(self.obj()),
            4 => Call::Maximize(self.obj()),
            5 => Call::MinIter(self.obj()),
            6 => Call::MaxIter(self.obj()),
            7 => Call::Validate,
            _ => Call::EnumStats,
        }
    }
}

/// span of an `int(lo,hi)` declaration that is really allocated (no swap for `int`)
fn alloc_span(s: &S) -> u64 {
    let span = |a: i32, b: i32| -> u64 {
        if a > b || a == i32::MIN || b == i32::MAX { 0 } else { (b as i64 - a as i64 + 1) as u64 }
    };
    match s {
        S::Int(a, b) => span(*a, *b),
        S::Ints(n, a, b) => span(*a.min(b), *a.max(b)) * *n as u64,
        S::Ints2d(r, c, a, b) => span(*a.min(b), *a.max(b)) * (*r * *c) as u64,
        S::IntSet(v) if !v.is_empty() => (*v.iter().max().unwrap() as i64 - *v.iter().min().unwrap() as i64 + 1) as u64,
        S::NewVar(A::K(a), A::K(b)) => span(*a.min(b), *a.max(b)),
        _ => 0,
    }
}

/// spans above this never reach the allocator in a generated case (see `gen_case`)
const MAX_ALLOC_SPAN: u64 = 2_100_000;

pub fn gen_case(r: &mut Rng, extreme: bool) -> Case {
    let mut g = Gen { r, extreme, n: 0, big: 0 };
    let nd = g.r.range(1, 4) as usize;
    let mut steps: Vec<S> = (0..nd).map(|_| g.decl()).collect();
    let np = g.r.range(0, 4) as usize;
    for _ in 0..np {
        if g.r.chance(1, 5) {
            let d = g.decl();
            steps.push(d);
        }
        let p = g.post();
        steps.push(p);
    }
    // memory safety of the harness itself: a span that would really be allocated must stay small.
    // `int` spans whose `hi - lo` overflows i32 never allocate (overflow panic or rejected estimate);
    // other large spans are only kept together with a 1 MB budget that rejects them; `intset` is
    // not covered by the budget at all, so its span is clamped.
    let mut need_budget = false;
    for s in steps.iter_mut() {
        let sp_ = alloc_span(s);
        if sp_ > MAX_ALLOC_SPAN {
            match s {
                S::IntSet(v) => {
                    if (sp_ as i64) <= i32::MAX as i64 {
                        // keep the extreme base value, drop the far one
                        let base = v[0];
                        v.retain(|x| (*x as i64 - base as i64).abs() < 1000);
                    }
                }
                _ => {
                    if sp_ <= i32::MAX as u64 {
                        need_budget = true;
                    }
                }
            }
        }
    }
    let total: u64 = steps.iter().map(alloc_span).filter(|s| *s <= MAX_ALLOC_SPAN).sum();
    let has_float = steps.iter().any(|s| matches!(s, S::Float(..) | S::Floats(..) | S::NewVar(..) | S::LinF { .. } | S::Conv { .. }) || matches!(s, S::Bin { op: 3, .. }) || s.show().contains('f'));
    let small_model = total < 60 && !extreme && !has_float;
    let mut cfg = match g.r.below(10) {
        0 => Cfg { ctor: 0, timeout_ms: Some(60000), mem_mb: None, precision: None, unlimited: false },
        1 => Cfg { ctor: 1, timeout_ms: Some(150), mem_mb: Some(*g.r.pick(&[1, 2, 8])), precision: None, unlimited: false },
        2 => Cfg { ctor: 1, timeout_ms: Some(150), mem_mb: Some(0), precision: None, unlimited: false },
        3 => Cfg { ctor: 2, timeout_ms: Some(60000), mem_mb: None, precision: Some(*g.r.pick(&[0, 1, 2, 6, 9, 12])), unlimited: false },
        4 => Cfg { ctor: 1, timeout_ms: Some(150), mem_mb: None, precision: Some(*g.r.pick(&[1, 3, 6])), unlimited: false },
        5 if small_model => Cfg { ctor: 1, timeout_ms: None, mem_mb: Some(0), precision: None, unlimited: true },
        _ => Cfg { ctor: 1, timeout_ms: Some(150), mem_mb: None, precision: None, unlimited: false },
    };
    if cfg.timeout_ms == Some(60000) && !small_model {
        cfg = Cfg { ctor: 1, timeout_ms: Some(150), ..cfg };
    }
    if cfg.ctor == 2 && !small_model {
        cfg.ctor = 1;
    }
    if need_budget {
        cfg.ctor = 1;
        cfg.unlimited = false;
        cfg.mem_mb = Some(1);
    }
    let call = g.call(small_model && total < 30);
    Case { cfg, steps, call }
}

// ------------------------------------------------------------------------------------------------
// oracle: what must not happen
// ------------------------------------------------------------------------------------------------
/// documented invalid inputs present in the case whose effect is "no solution may be returned"
fn must_be_rejected(case: &Case, run: &Run) -> Option<&'static str> {
    // only steps that were really executed count
    for (s, r) in case.steps.iter().zip(&run.steps) {
        if matches!(r, R::Skipped) {
            continue;
        }
        match s {
            S::Int(a, b) if a > b => return Some("reversed-bounds"),
            S::IntSet(v) if v.is_empty() => return Some("empty-value-set"),
            S::Lin { cs, vs, .. } if cs.len() != vs.len() => return Some("lin-length-mismatch"),
            S::LinF { cs, vs, .. } if cs.len() != vs.len() => return Some("lin-length-mismatch"),
            _ => {}
        }
    }
    None
}

fn finite_ok(x: &XV) -> bool {
    match x {
        XV::I(_) => true,
        XV::F(f) => f.is_finite(),
    }
}

fn judge(out: &mut Out, line: usize, case: &Case, run: &Run, stream: &str) {
    // (1) panics
    if let Some(site) = first_panic(run) {
        let mut tag = tag_panic(case, &site.1, &site.3);
        if tag == "-" && run.emptied && msg_kind(&site.3) == "assert" && site.1.ends_with("domain/sparse_set.rs") && site.3.contains("is_empty") {
            tag = "empty-domain-view-panic".into();
        }
        let min = minimise(case, &site);
        out.stat(&format!("{stream}.panic"));
        out.fail(line, "C17", &tag, format!("panic at {} ({}) in step {} of [{}]; minimised: [{}]", site.2, site.3.chars().take(90).collect::<String>(), site.0, case.show(), min.show()));
        return;
    }
    // (2) documented invalid inputs must not yield a solution
    let sols: Vec<&Vec<Option<XV>>> = match &run.call {
        Some(Res::Sol(s)) => vec![s],
        Some(Res::Many(_, v)) => v.iter().collect(),
        _ => vec![],
    };
    if let Some(why) = must_be_rejected(case, run) {
        out.stat(&format!("{stream}.invalid.{why}"));
        if !sols.is_empty() {
            let reif = has_reif_lin_mismatch(case) && why == "lin-length-mismatch";
            let tag = if reif { "lin-reif-length-unchecked".to_string() } else { format!("accepted-{why}") };
            out.fail(line, "C17", &tag, format!("{} returned a solution although the model contains the documented invalid input {why}: [{}]", case.call.show(), case.show()));
        }
        if let Some(Res::Valid(true)) = &run.call {
            out.stat(&format!("{stream}.validate-true-on.{why}"));
        }
    }
    // (3) a returned solution never contains NaN / infinite values
    for s in &sols {
        if s.iter().flatten().any(|x| !finite_ok(x)) {
            out.fail(line, "C17", "non-finite-solution-value", format!("solution with a non-finite value: [{}]", case.show()));
            break;
        }
    }
}

fn render(run: &Run) -> String {
    let steps: Vec<String> = run
        .steps
        .iter()
        .map(|r| match r {
            R::Ok => "ok".to_string(),
            R::Err(e) => format!("Err({e})"),
            R::Panic { .. } => "PANIC".to_string(),
            R::Skipped => "skip".to_string(),
        })
        .collect();
    let call = match &run.call {
        None => "not-run".to_string(),
        Some(Res::Sol(_)) => "solution".into(),
        Some(Res::Many(n, _)) => format!("{n}-solutions"),
        Some(Res::Err(n)) => format!("Err({n})"),
        Some(Res::Panic { .. }) => "PANIC".into(),
        Some(Res::Valid(b)) => format!("valid={b}"),
    };
    format!("[{}] => {call}", steps.join(","))
}

fn stat_case(out: &mut Out, stream: &str, case: &Case, run: &Run) {
    out.stat(&format!("{stream}.cases"));
    for (s, r) in case.steps.iter().zip(&run.steps) {
        let name = s.show();
        let name = name.split('(').next().unwrap_or("?").to_string();
        out.stat(&format!("{stream}.step.{name}"));
        match r {
            R::Err(e) => out.stat(&format!("{stream}.step-err.{e}")),
            R::Skipped => out.stat(&format!("{stream}.step-skipped")),
            _ => {}
        }
    }
    let cn = case.call.show();
    out.stat(&format!("{stream}.call.{}", cn.split('(').next().unwrap_or("?")));
    match &run.call {
        Some(Res::Err(n)) => out.stat(&format!("{stream}.outcome.Err.{n}")),
        Some(Res::Sol(_)) => out.stat(&format!("{stream}.outcome.solution")),
        Some(Res::Many(0, _)) => out.stat(&format!("{stream}.outcome.no-solutions")),
        Some(Res::Many(..)) => out.stat(&format!("{stream}.outcome.solutions")),
        Some(Res::Valid(b)) => out.stat(&format!("{stream}.outcome.valid-{b}")),
        _ => {}
    }
    out.stat(&format!("{stream}.cfg.ctor{}", case.cfg.ctor));
    if case.cfg.timeout_ms.is_none() {
        out.stat(&format!("{stream}.cfg.no-timeout"));
    }
    match case.cfg.mem_mb {
        Some(0) => out.stat(&format!("{stream}.cfg.no-memory-limit")),
        Some(_) => out.stat(&format!("{stream}.cfg.memory-limit")),
        None => {}
    }
}

/// some step mentions two integers at least 200 000 apart (a domain of that many values: every
/// search node clones it, which makes the run slow far beyond its timeout)
fn big_domain(case: &Case) -> bool {
    // (the result variable of a product spans the product of the operand bounds)
    if has_mul(case) && case.steps.iter().flat_map(|s| s.ints()).any(|v| v.abs() >= 450) {
        return true;
    }
    case.steps.iter().any(|s| {
        let v = s.ints();
        match (v.iter().min(), v.iter().max()) {
            (Some(a), Some(b)) => b.saturating_sub(*a) >= 200_000,
            _ => false,
        }
    })
}

/// a float variable at a precision of 7 digits or finer: propagators that narrow a float interval
/// one step per round (a strict comparison of a variable with itself, two contradictory strict
/// comparisons) need 10^7 and more rounds per node; slow, not hung, and not C17's subject
fn fine_float(case: &Case) -> bool {
    case.cfg.precision.map_or(false, |p| p >= 7)
        && case.steps.iter().any(|s| match s {
            S::Float(..) | S::Floats(..) => true,
            S::NewVar(a, b) => matches!(a, A::F(_)) || matches!(b, A::F(_)),
            _ => false,
        })
}

/// a float variable with a bound off the step grid of the configured precision: the bisection of
/// such an interval can reach a width on which `try_set_max(mid)` changes nothing (recorded finding
/// `float-split-half-step-no-progress`: the search then never returns and grows without bound)
fn off_grid(case: &Case) -> bool {
    let step = 10f64.powi(-case.cfg.precision.filter(|p| (1..=12).contains(p)).unwrap_or(6));
    let off = |b: f64| b.is_finite() && { let q = b / step; (q - q.round()).abs() > 1e-6 * q.abs().max(1.0) };
    case.steps.iter().any(|s| match s {
        S::Float(a, b) | S::Floats(_, a, b) => off(*a) || off(*b),
        S::NewVar(a, b) => [a, b].iter().any(|v| matches!(v, A::F(f) if off(*f))),
        _ => false,
    })
}

/// largest float magnitude a case can create (literals, squared when a product is present)
fn float_risk(case: &Case) -> bool {
    let floaty = case.steps.iter().any(|s| match s {
        S::Float(..) | S::Floats(..) | S::LinF { .. } => true,
        S::NewVar(a, b) => matches!(a, A::F(_)) || matches!(b, A::F(_)),
        S::Bin { op, x, y, .. } => *op % 5 == 3 || matches!(x, A::F(_)) || matches!(y, A::F(_)),
        S::Conv { .. } => true,
        S::MinMax { route: 3, .. } => true,
        S::Element { route: 3, .. } => true,
        S::Table { rows, .. } => rows.iter().flatten().any(|a| matches!(a, A::F(_))),
        S::Fluent { .. } => s.show().contains('f') || s.show().contains('/'),
        _ => s.show().contains("f,") || s.show().contains("f)"),
    });
    if !floaty {
        return false;
    }
    let mut m: f64 = 1.0;
    let mut nonfinite = false;
    for v in case.steps.iter().flat_map(|s| s.ints()).chain(case.call.ints()) {
        if v == i64::MAX {
            nonfinite = true;
        }
        m = m.max(v.abs() as f64);
    }
    let has_mul = case.steps.iter().any(|s| matches!(s, S::Bin { op: 2, .. }) || s.show().contains('*'));
    if has_mul {
        m = m * m;
    }
    let step = 10f64.powi(-case.cfg.precision.filter(|p| (1..=12).contains(p)).unwrap_or(6));
    nonfinite || m >= 1e8 || m * 2.3e-16 * 16.0 >= step
}

/// fixed cases on which the pinned tree behaves correctly although they lie inside the input region
/// of a recorded finding (extreme arguments): no matcher applies to them — whatever goes wrong on
/// one of these is reported as an unlisted failure
fn clean_cases() -> Vec<Case> {
    let cfg = |t: Option<u64>, mem: Option<u64>, prec: Option<i32>| Cfg { ctor: 1, timeout_ms: t, mem_mb: mem, precision: prec, unlimited: false };
    vec![
        // extreme, and correct on the pinned tree: an unbounded variable whose bounds are inferred from a
        // context of large magnitude (the clamp branch of `infer_bounds` re-centres a 10^6 window)
        Case { cfg: cfg(Some(2000), None, None), steps: vec![S::Int(1_500_000_000, 1_500_001_000), S::Int(i32::MIN, i32::MAX), S::Fluent { l: E::V(1), op: 0, r: E::V(0), wrap: 0, route: 0 }], call: Call::Solve },
        Case { cfg: cfg(Some(2000), None, None), steps: vec![S::Int(-1_500_001_000, -1_500_000_000), S::Int(i32::MIN, i32::MAX), S::Fluent { l: E::V(1), op: 0, r: E::V(0), wrap: 0, route: 0 }], call: Call::Solve },
        Case { cfg: cfg(Some(2000), None, None), steps: vec![S::Int(2_000_000_000, 2_000_070_000), S::Int(i32::MIN, i32::MAX)], call: Call::Validate },
        // extreme, and correct on the pinned tree: a span beyond i32 is rejected by the memory estimate
        // (`MemoryLimit` from the solving call) before any domain is allocated
        Case { cfg: cfg(Some(2000), None, None), steps: vec![S::Int(-2_000_000_000, 2_000_000_000)], call: Call::Solve },
        Case { cfg: cfg(Some(2000), None, None), steps: vec![S::Int(0, 3), S::Int(-1_500_000_000, 1_500_000_000)], call: Call::Minimize(Obj::V(0)) },
    ]
}

fn is_clean_case(case: &Case) -> bool {
    let s = case.show();
    clean_cases().iter().any(|c| c.show() == s)
}

/// fixed reproducers of the known findings (run once per suite, each in its own process),
/// followed by the clean fixed cases
fn fixed_cases() -> Vec<Case> {
    let mut v = finding_cases();
    v.extend(clean_cases());
    v
}

fn finding_cases() -> Vec<Case> {
    let cfg = |t: Option<u64>, mem: Option<u64>, prec: Option<i32>| Cfg { ctor: 1, timeout_ms: t, mem_mb: mem, precision: prec, unlimited: false };
    vec![
        // in range: step 1e-12 is below the ULP of 10000.0 -> the search never returns, timeout ignored
        Case { cfg: cfg(Some(150), None, Some(12)), steps: vec![S::Float(10000.0, 10001.0)], call: Call::Solve },
        // extreme: the same with the default precision
        Case { cfg: cfg(Some(150), None, None), steps: vec![S::Float(1e10, 10000000001.0), S::Float(0.0, 1.0)], call: Call::Solve },
        // extreme: every split clones the space, memory grows until the allocator gives up
        Case { cfg: cfg(Some(150), Some(64), None), steps: vec![S::Float(-1e308, 1e300)], call: Call::Solve },
        // in range: the budget rejects the first variable (the dummy VarId(0) was dereferenced before fix 39d3272)
        Case { cfg: cfg(Some(150), Some(1), None), steps: vec![S::Int(-1_000_000, 1_000_000), S::Bin { op: 0, x: A::V(0), y: A::K(1), route: 0 }], call: Call::Solve },
        // in range: empty value set + equality between variables
        Case { cfg: cfg(Some(150), None, None), steps: vec![S::IntSet(vec![]), S::Int(0, 3), S::Fluent { l: E::V(0), op: 0, r: E::V(1), wrap: 0, route: 0 }], call: Call::Solve },
        // in range: reversed float bounds + float->int conversion
        Case { cfg: cfg(Some(150), None, None), steps: vec![S::Float(-4.0, -5.0), S::Conv { kind: 2, a: 0, b: 0, route: 1 }], call: Call::Solve },
        // in range: table row of the wrong arity
        Case { cfg: cfg(Some(150), None, None), steps: vec![S::Int(0, 3), S::Table { vs: vec![0], rows: vec![vec![A::K(1), A::K(2)]], route: 0 }], call: Call::Solve },
        // in range: reified linear helper with fewer coefficients than variables
        Case { cfg: cfg(Some(150), None, None), steps: vec![S::Ints(2, 0, 2), S::Bool, S::Lin { rel: 1, cs: vec![1], vs: vec![0, 1], k: 1, reif: Some(2), route: 0 }], call: Call::Solve },
        // extreme: the known overflow sites
        Case { cfg: cfg(Some(150), None, None), steps: vec![S::Int(2_000_000_000, 2_000_000_005), S::Int(2_000_000_000, 2_000_000_005), S::Bin { op: 0, x: A::V(0), y: A::V(1), route: 0 }], call: Call::Solve },
        Case { cfg: cfg(Some(150), None, None), steps: vec![S::IntSet(vec![i32::MAX])], call: Call::Solve },
    ]
}

struct Iso {
    child: bool,
    /// the case is the `index`-th entry of `fixed_cases` instead of a generated one
    fixed: bool,
    seed: u64,
    count: u64,
    index: u64,
}

/// tags of outcomes that only a separate process can observe
/// a float domain on which the configured step is below the ULP: the search splits without progress
/// (`search/mod.rs`: the limit checks sit outside the descent loop), which shows as a hang or, when the
/// cloned spaces pile up, as an allocation failure
fn tag_hang(case: &Case, at: &str) -> String {
    if is_clean_case(case) {
        return "-".into();
    }
    if at.starts_with("call") && float_risk(case) {
        "float-split-no-progress".into()
    } else if at.starts_with("call") && off_grid(case) {
        "float-split-half-step-no-progress".into()
    } else {
        "-".into()
    }
}
fn tag_abort(case: &Case, at: &str) -> String {
    if is_clean_case(case) {
        return "-".into();
    }
    if at.starts_with("call") && float_risk(case) {
        "float-split-no-progress".into()
    } else if at.starts_with("call") && off_grid(case) {
        "float-split-half-step-no-progress".into()
    } else if case.extreme() || (has_mul(case) && case.steps.iter().flat_map(|s| s.ints()).any(|v| v.abs() >= 10_000)) {
        // a creation / posting step, or the bound inference at the start of the solving call
        // (`infer_unbounded_from_asts` for universes touching the i32::MIN / i32::MAX sentinels),
        // allocated a sparse set of more than 1.5 GB; so does the result variable of a product
        // of in-range operands (`mul(v,v)` with v up to 46340: a domain of 2^31 values)
        "huge-domain-allocation".into()
    } else {
        "-".into()
    }
}

fn run_isolated(out: &mut Out, iso: &Iso, case: &Case, stream: &str) {
    use std::io::Read;
    use std::process::{Command, Stdio};
    let exe = std::env::current_exe().unwrap();
    let cmd = format!(
        "ulimit -v 1500000; exec {} malformed --seed {} --count {} --from {} --to {} --child {} --out /tmp",
        exe.display(),
        iso.seed,
        iso.count,
        iso.index,
        iso.index,
        if iso.fixed { 2 } else { 1 }
    );
    let mut ch = Command::new("sh").arg("-c").arg(cmd).stdout(Stdio::piped()).stderr(Stdio::null()).spawn().unwrap();
    let t0 = std::time::Instant::now();
    // the known non-terminating class (float step below ULP) is given 1.5 s, the known slow classes 8 s, everything else 30 s:
    // a search that merely overruns its 150 ms timeout is slow, not hung (limits are C15)
    // (generous: on a loaded machine a 3 s overrun of a 150 ms timeout must not look like a hang)
    let patience = if float_risk(case) { 1500 } else if off_grid(case) || big_domain(case) { 8000 } else { 30000 };
    let status = loop {
        match ch.try_wait() {
            Ok(Some(st)) => break Some(st),
            Ok(None) => {
                if t0.elapsed().as_millis() > patience {
                    let _ = ch.kill();
                    let _ = ch.wait();
                    break None;
                }
                std::thread::sleep(std::time::Duration::from_millis(2));
            }
            Err(_) => break None,
        }
    };
    let mut text = String::new();
    if let Some(mut so) = ch.stdout.take() {
        let _ = so.read_to_string(&mut text);
    }
    out.stat(&format!("{stream}.isolated"));
    if t0.elapsed().as_millis() > 1000 && status.is_some() {
        out.stat(&format!("{stream}.timeout-overrun-1s"));
    }
    match status {
        Some(st) if st.success() => {
            let mut line = 0;
            for l in text.lines() {
                let mut it = l.splitn(3, '\t');
                match it.next() {
                    Some("L") => line = out.emit(it.next().unwrap_or("#mal ?").to_string(), "-"),
                    Some("S") => out.stat(it.next().unwrap_or("?")),
                    Some("F") => {
                        let tag = it.next().unwrap_or("-").to_string();
                        out.fail(line, "C17", &tag, it.next().unwrap_or("").to_string());
                    }
                    _ => {}
                }
            }
        }
        Some(_) => {
            let at = text.lines().filter(|l| l.starts_with("P\t")).last().map(|l| l[2..].to_string()).unwrap_or_default();
            let line = out.emit(format!("#mal {stream} {} => ABORT in {at}", case.show()), "-");
            out.stat(&format!("{stream}.abort"));
            out.fail(line, "C17", &tag_abort(case, &at), format!("process aborted in `{at}` (allocation failure under a 1.5 GB address-space limit, or a non-unwinding panic): [{}]", case.show()));
        }
        None if !float_risk(case) && (big_domain(case) || fine_float(case)) => {
            // a space with a domain of several 10^5 values is cloned at every search node: the run
            // is slow (and honours its timeout late), not hung; not judged (limits are C15's subject)
            let at = text.lines().filter(|l| l.starts_with("P\t")).last().map(|l| l[2..].to_string()).unwrap_or_default();
            out.emit(format!("#mal {stream} {} => SLOW in {at} (killed after {patience} ms, not judged)", case.show()), "-");
            out.stat(&format!("{stream}.slow-killed"));
        }
        None => {
            let at = text.lines().filter(|l| l.starts_with("P\t")).last().map(|l| l[2..].to_string()).unwrap_or_default();
            let line = out.emit(format!("#mal {stream} {} => HANG in {at}", case.show()), "-");
            out.stat(&format!("{stream}.hang"));
            out.fail(line, "C17", &tag_hang(case, &at), format!("no answer within {patience} ms in `{at}` although the configured timeout is {:?} ms: [{}]", case.cfg.timeout_ms, case.show()));
        }
    }
}

fn api_case(out: &mut Out, id: &str, r: &mut Rng, extreme: bool, iso: &Iso) {
    let mut case = if iso.fixed { fixed_cases()[iso.index as usize].clone() } else { gen_case(r, extreme) };
    // the stream is decided by the literals actually generated
    let is_ext = case.extreme();
    if !extreme && is_ext && !iso.fixed {
        // cannot happen by construction of `val`, kept as a guard
        case.steps.retain(|s| s.ints().iter().all(|v| v.abs() <= IN_RANGE));
    }
    let stream = if is_ext { "B" } else { "A" };
    if !iso.child {
        out.case(id);
    }
    if std::env::var("MAL_TRACE").is_ok() {
        eprintln!("{id} {}", case.show());
    }
    if !iso.child && (float_risk(&case) || is_ext || iso.fixed || big_domain(&case) || fine_float(&case) || off_grid(&case)) {
        run_isolated(out, iso, &case, stream);
        return;
    }
    let t0 = std::time::Instant::now();
    let run = execute(&case);
    let t1 = t0.elapsed();
    let line = out.emit(format!("#mal {stream} {} => {}", case.show(), render(&run)), "-");
    stat_case(out, stream, &case, &run);
    judge(out, line, &case, &run, stream);
    if std::env::var("MAL_TIME").is_ok() && t0.elapsed().as_millis() > 80 {
        eprintln!("SLOW {id} exec={:?} total={:?} {} => {}", t1, t0.elapsed(), case.show(), render(&run));
    }
}

// ------------------------------------------------------------------------------------------------
// `mal.v`: the validation decision table (one documented invalid input per line)
// ------------------------------------------------------------------------------------------------
#[derive(Clone, Debug, PartialEq)]
pub enum V {
    /// `x = int(lo,hi)`
    Bounds { lo: i32, hi: i32 },
    /// `x = int(lo,hi); y = int(0,3); new(x.eq(y))`
    BoundsEq { lo: i32, hi: i32 },
    /// `x = int(lo,hi); y = int(0,3); add(x,y)`
    BoundsUse { lo: i32, hi: i32 },
    /// `ints(n,lo,hi)` (documented to swap reversed bounds)
    Ints { n: usize, lo: i32, hi: i32 },
    /// `x = intset(vals)`
    Set { vals: Vec<i32> },
    /// `int(0,3) × n; min/max(&those)`; route 0 `Model::min`, 1 `fn::min`, 2 `array_int_minimum`, 3 `array_float_minimum`
    MinMax { is_max: bool, n: usize, route: u8 },
    /// `nv` variables `int(0,2)`, `nc` coefficients 1, constant 1; rel 0 eq / 1 le / 2 ne
    LinLen { nc: usize, nv: usize, rel: u8, reif: bool },
    /// `x = int(1,6); y = int(lo,hi); z = div|modulo(x,y)`; op 0 div / 1 modulo; route 0 `Model::`, 1 fluent `x / y == z`
    ZeroDiv { lo: i32, hi: i32, op: u8, route: u8 },
    /// `n` array variables `int(0,2)`, index `int(lo,hi)`, value `int(0,2)`; route 0 `element`, 1 `array_int_element`, 2 `fn::element`
    Elem { n: usize, lo: i32, hi: i32, route: u8 },
    /// `with_max_memory_mb(limit)`; `x = int(lo,hi)`; optionally `add(x, 1)` afterwards; `first` = x is the first variable
    Mem { limit: u64, lo: i32, hi: i32, post: bool, first: bool },
    /// `nv` variables, one table row of `rowlen` values
    TableArity { nv: usize, rowlen: usize },
    /// `alldiff([x, x])` on `int(0,3)`
    AllDiffDup { dup: bool },
    /// one variable per entry (`None`: `float(0,10)`, `Some(d)`: `intset(d)`), `alldiff` over all
    AllDiff { ds: Vec<Option<Vec<i32>>> },
}

#[derive(Clone, Copy, Debug, PartialEq)]
pub enum VC {
    Solve,
    Enum,
    Min,
    Max,
    MinIter,
    MaxIter,
}

impl VC {
    const ALL: [VC; 6] = [VC::Solve, VC::Enum, VC::Min, VC::Max, VC::MinIter, VC::MaxIter];
    fn name(self) -> &'static str {
        match self {
            VC::Solve => "solve",
            VC::Enum => "enum",
            VC::Min => "min",
            VC::Max => "max",
            VC::MinIter => "miniter",
            VC::MaxIter => "maxiter",
        }
    }
    fn parse(s: &str) -> Option<VC> {
        VC::ALL.iter().copied().find(|c| c.name() == s)
    }
    fn iterating(self) -> bool {
        matches!(self, VC::Enum | VC::MinIter | VC::MaxIter)
    }
}

impl V {
    pub fn tokens(&self) -> String {
        match self {
            V::Bounds { lo, hi } => format!("bounds {lo} {hi}"),
            V::BoundsEq { lo, hi } => format!("boundseq {lo} {hi}"),
            V::BoundsUse { lo, hi } => format!("boundsuse {lo} {hi}"),
            V::Ints { n, lo, hi } => format!("ints {n} {lo} {hi}"),
            V::Set { vals } => format!("set {}", vals.iter().map(|v| v.to_string()).collect::<Vec<_>>().join(" ")).trim_end().to_string(),
            V::MinMax { is_max, n, route } => format!("minmax {} {n} {route}", if *is_max { 1 } else { 0 }),
            V::LinLen { nc, nv, rel, reif } => format!("linlen {nc} {nv} {rel} {}", if *reif { 1 } else { 0 }),
            V::ZeroDiv { lo, hi, op, route } => format!("zerodiv {lo} {hi} {op} {route}"),
            V::Elem { n, lo, hi, route } => format!("elem {n} {lo} {hi} {route}"),
            V::Mem { limit, lo, hi, post, first } => format!("mem {limit} {lo} {hi} {} {}", if *post { 1 } else { 0 }, if *first { 1 } else { 0 }),
            V::TableArity { nv, rowlen } => format!("tablearity {nv} {rowlen}"),
            V::AllDiffDup { dup } => format!("alldiffdup {}", if *dup { 1 } else { 0 }),
            V::AllDiff { ds } => format!(
                "alldiff {}",
                ds.iter()
                    .map(|d| match d {
                        None => "f".to_string(),
                        Some(v) => v.iter().map(|x| x.to_string()).collect::<Vec<_>>().join(" "),
                    })
                    .collect::<Vec<_>>()
                    .join(" | ")
            ),
        }
    }
    pub fn parse(ws: &[&str]) -> Option<V> {
        let i = |k: usize| -> Option<i32> { ws.get(k)?.parse().ok() };
        let u = |k: usize| -> Option<usize> { ws.get(k)?.parse().ok() };
        Some(match *ws.first()? {
            "bounds" => V::Bounds { lo: i(1)?, hi: i(2)? },
            "boundseq" => V::BoundsEq { lo: i(1)?, hi: i(2)? },
            "boundsuse" => V::BoundsUse { lo: i(1)?, hi: i(2)? },
            "ints" => V::Ints { n: u(1)?, lo: i(2)?, hi: i(3)? },
            "set" => V::Set { vals: ws[1..].iter().map(|w| w.parse().ok()).collect::<Option<Vec<i32>>>()? },
            "minmax" => V::MinMax { is_max: u(1)? == 1, n: u(2)?, route: u(3)? as u8 },
            "linlen" => V::LinLen { nc: u(1)?, nv: u(2)?, rel: u(3)? as u8, reif: u(4)? == 1 },
            "zerodiv" => V::ZeroDiv { lo: i(1)?, hi: i(2)?, op: u(3)? as u8, route: u(4)? as u8 },
            "elem" => V::Elem { n: u(1)?, lo: i(2)?, hi: i(3)?, route: u(4)? as u8 },
            "mem" => V::Mem { limit: u(1)? as u64, lo: i(2)?, hi: i(3)?, post: u(4)? == 1, first: u(5)? == 1 },
            "tablearity" => V::TableArity { nv: u(1)?, rowlen: u(2)? },
            "alldiffdup" => V::AllDiffDup { dup: u(1)? == 1 },
            "alldiff" => {
                let mut ds = vec![];
                for g in ws[1..].split(|w| *w == "|") {
                    if g.len() == 1 && g[0] == "f" {
                        ds.push(None);
                    } else {
                        ds.push(Some(g.iter().map(|w| w.parse().ok()).collect::<Option<Vec<i32>>>()?));
                    }
                }
                V::AllDiff { ds }
            }
            _ => return None,
        })
    }
    /// is this one of the *documented invalid inputs* of the property text (must end in Err / unsat)?
    pub fn documented_invalid(&self) -> Option<&'static str> {
        match self {
            V::Bounds { lo, hi } | V::BoundsEq { lo, hi } | V::BoundsUse { lo, hi } if lo > hi => Some("reversed-bounds"),
            V::Set { vals } if vals.is_empty() => Some("empty-value-set"),
            V::MinMax { n: 0, .. } => Some("empty-min-max-list"),
            V::LinLen { nc, nv, .. } if nc != nv => Some("lin-length-mismatch"),
            V::ZeroDiv { lo, hi, .. } if *lo <= 0 && 0 <= *hi => Some("zero-in-divisor-domain"),
            V::Elem { n, lo, hi, .. } if *hi < 0 || *lo >= *n as i32 => Some("element-index-out-of-range"),
            V::Mem { limit, lo, hi, post, first } if lo <= hi && mem_exceeded(*limit, *lo, *hi, *post, *first) => Some("memory-budget-exceeded"),
            _ => None,
        }
    }
}

/// `Model::estimate_variable_memory` for an integer variable (re-stated)
fn mem_estimate(lo: i32, hi: i32) -> u64 {
    let d = (hi as i64 - lo as i64 + 1) as u64;
    if d > 1000 { 96 + 48 + d * 8 / 8 } else { 96 + 48 + d * 8 }
}

/// the running total of `add_memory_usage` over the creations of the `mem` scenario exceeds the budget
fn mem_exceeded(limit: u64, lo: i32, hi: i32, post: bool, first: bool) -> bool {
    let mut sizes = vec![];
    if !first {
        sizes.push(mem_estimate(0, 1));
    }
    sizes.push(mem_estimate(lo, hi));
    if post {
        sizes.push(mem_estimate(lo, hi));
    }
    if first {
        sizes.push(mem_estimate(0, 1));
    }
    let mut total = 0u64;
    for s in sizes {
        total += s;
        if total > limit * 1024 * 1024 {
            return true;
        }
    }
    false
}

/// outcome classes compared with the model
fn v_outcome(v: &V, call: VC) -> String {
    let r = guarded(|| -> String {
        let mut m = match v {
            V::Mem { limit, .. } => Model::with_config(sp::config::SolverConfig::default().with_timeout_ms(2000).with_max_memory_mb(*limit)),
            _ => Model::with_config(sp::config::SolverConfig::default().with_timeout_ms(2000)),
        };
        let mut post_err: Option<String> = None;
        // objective variable
        let obj: VarId = match v {
            V::Bounds { lo, hi } => m.int(*lo, *hi),
            V::BoundsEq { lo, hi } => {
                let x = m.int(*lo, *hi);
                let y = m.int(0, 3);
                m.new(x.eq(y));
                y
            }
            V::BoundsUse { lo, hi } => {
                let x = m.int(*lo, *hi);
                let y = m.int(0, 3);
                m.add(x, y);
                y
            }
            V::Ints { n, lo, hi } => {
                let anchor = m.int(0, 1);
                m.ints(*n, *lo, *hi);
                anchor
            }
            V::Set { vals } => {
                let anchor = m.int(0, 1);
                m.intset(vals.clone());
                anchor
            }
            V::MinMax { is_max, n, route } => {
                let anchor = m.int(0, 1);
                let xs = m.ints(*n, 0, 3);
                let r = match (*is_max, route % 4) {
                    (false, 0) => m.min(&xs),
                    (false, 1) => sp::min(&mut m, &xs),
                    (false, 2) => m.array_int_minimum(&xs),
                    (false, _) => m.array_float_minimum(&xs),
                    (true, 0) => m.max(&xs),
                    (true, 1) => sp::max(&mut m, &xs),
                    (true, 2) => m.array_int_maximum(&xs),
                    (true, _) => m.array_float_maximum(&xs),
                };
                if let Err(e) = r {
                    post_err = Some(err_name(&e).to_string());
                }
                anchor
            }
            V::LinLen { nc, nv, rel, reif } => {
                let anchor = m.int(0, 1);
                let xs = m.ints(*nv, 0, 2);
                let cs = vec![1i32; *nc];
                if *reif {
                    let b = m.bool();
                    match rel % 3 {
                        0 => m.lin_eq_reif(&cs, &xs, 1, b),
                        1 => m.lin_le_reif(&cs, &xs, 1, b),
                        _ => m.lin_ne_reif(&cs, &xs, 1, b),
                    }
                } else {
                    match rel % 3 {
                        0 => m.lin_eq(&cs, &xs, 1),
                        1 => m.lin_le(&cs, &xs, 1),
                        _ => m.lin_ne(&cs, &xs, 1),
                    }
                }
                anchor
            }
            V::ZeroDiv { lo, hi, op, route } => {
                let x = m.int(1, 6);
                let y = m.int(*lo, *hi);
                match (op % 2, route % 2) {
                    (0, 0) => {
                        m.div(x, y);
                    }
                    (1, 0) => {
                        m.modulo(x, y);
                    }
                    (0, _) => {
                        let z = m.int(-6, 6);
                        m.new(x.div(y).eq(z));
                    }
                    _ => {
                        let z = m.int(-6, 6);
                        m.new(x.modulo(y).eq(z));
                    }
                }
                y
            }
            V::Elem { n, lo, hi, route } => {
                let arr = m.ints(*n, 0, 2);
                let idx = m.int(*lo, *hi);
                let val = m.int(0, 2);
                match route % 3 {
                    0 => {
                        m.element(&arr, idx, val);
                    }
                    1 => m.array_int_element(idx, &arr, val),
                    _ => {
                        sp::element(&mut m, &arr, idx);
                    }
                }
                idx
            }
            V::Mem { lo, hi, post, first, .. } => {
                let anchor = if *first { None } else { Some(m.int(0, 1)) };
                let x = m.int(*lo, *hi);
                if *post {
                    m.add(x, Val::ValI(1));
                }
                // the objective is always the small anchor variable (optimising over `x` itself
                // is only slow, which would make the outcome depend on the clock)
                match anchor {
                    Some(a) => a,
                    None => m.int(0, 1),
                }
            }
            V::TableArity { nv, rowlen } => {
                let anchor = m.int(0, 1);
                let xs = m.ints(*nv, 0, 2);
                m.table(&xs, vec![vec![Val::ValI(1); *rowlen]]);
                anchor
            }
            V::AllDiffDup { dup } => {
                let x = m.int(0, 3);
                let y = m.int(0, 3);
                Model::alldiff(&mut m, &[x, if *dup { x } else { y }]);
                x
            }
            V::AllDiff { ds } => {
                let anchor = m.int(0, 1);
                let ids: Vec<VarId> = ds
                    .iter()
                    .map(|d| match d {
                        None => m.float(0.0, 10.0),
                        Some(v) => m.intset(v.clone()),
                    })
                    .collect();
                Model::alldiff(&mut m, &ids);
                anchor
            }
        };
        let pe = post_err.map(|e| format!("posterr {e} ")).unwrap_or_default();
        let one = |r: Result<Solution, SolverError>| match r {
            Ok(_) => "sol".to_string(),
            Err(SolverError::NoSolution { .. }) => "nosolution".to_string(),
            Err(e) => format!("err {}", err_name(&e)),
        };
        let many = |n: usize| if n == 0 { "empty".to_string() } else { "sols".to_string() };
        let r = match call {
            VC::Solve => one(m.solve()),
            VC::Min => one(m.minimize(obj)),
            VC::Max => one(m.maximize(obj)),
            VC::Enum => many(m.enumerate().take(3).count()),
            VC::MinIter => many(m.minimize_and_iterate(obj).take(3).count()),
            VC::MaxIter => many(m.maximize_and_iterate(obj).take(3).count()),
        };
        format!("{pe}{r}")
    });
    match r {
        Some(s) => s,
        None => {
            let (loc, msg) = take_panic();
            format!("panic@{}@{}", loc_file(&loc), msg_kind(&msg))
        }
    }
}

/// tag of a validation-table line whose outcome violates the property
fn v_tag(v: &V, res: &str) -> &'static str {
    let panic = res.starts_with("panic");
    match v {
        V::BoundsEq { lo, hi } | V::BoundsUse { lo, hi } if lo > hi && panic && res.contains("sparse_set.rs") && res.ends_with("assert") => "empty-domain-view-panic",
        V::LinLen { nc, nv, reif: true, .. } if nc != nv => "lin-reif-length-unchecked",
        _ => "-",
    }
}

pub fn do_v(out: &mut Out, v: &V, call: VC) {
    let res = v_outcome(v, call);
    // the protocol result drops the panic site (the model only says `panic`)
    let shown = if res.starts_with("panic") { "panic".to_string() } else { res.clone() };
    let line = out.emit(format!("mal.v {} {}", v.tokens(), call.name()), shown);
    out.stat(&format!("v.{}", v.tokens().split(' ').next().unwrap_or("?")));
    out.stat(&format!("v.call.{}", call.name()));
    let accepted = res.ends_with("sol") || res.ends_with("sols");
    if res.starts_with("panic") {
        out.stat("v.panic");
        out.fail(line, "C17", v_tag(v, &res), format!("panic ({res}) for `{}` + {}", v.tokens(), call.name()));
    } else if let Some(why) = v.documented_invalid() {
        out.stat(&format!("v.invalid.{why}"));
        // `posterr` = the posting call itself returned `Err`: the invalid input surfaced
        let surfaced = !accepted || res.starts_with("posterr");
        // zero in a divisor's domain: a returned solution is accepted when the divisor is non-zero
        // (api/arithmetic.rs: "the solver will ensure y ≠ 0"); the strict reading is kept in the stats
        if !surfaced {
            if why == "zero-in-divisor-domain" {
                out.stat("v.zero-divisor-accepted-with-solution");
            } else {
                let t = v_tag(v, &res);
                let t = if t == "-" { format!("accepted-{why}") } else { t.to_string() };
                out.fail(line, "C17", &t, format!("`{}` + {}: documented invalid input ({why}) neither surfaced as Err nor as an unsatisfiable verdict: {res}", v.tokens(), call.name()));
            }
        }
    }
    if let V::AllDiff { ds } = v {
        // independent check: pairwise different values exist for the integer variables (floats are free)
        fn go(doms: &[&Vec<i32>], used: &mut Vec<i32>) -> bool {
            match doms.split_first() {
                None => true,
                Some((d, rest)) => {
                    for x in d.iter() {
                        if !used.contains(x) {
                            used.push(*x);
                            if go(rest, used) {
                                return true;
                            }
                            used.pop();
                        }
                    }
                    false
                }
            }
        }
        let ints: Vec<&Vec<i32>> = ds.iter().flatten().collect();
        let sat = go(&ints, &mut vec![]);
        let has_float = ds.iter().any(|d| d.is_none());
        out.stat(if sat { "v.alldiff.sat" } else { "v.alldiff.unsat" });
        if res.contains("ConflictingConstraints") {
            out.stat("v.alldiff.rejected");
        }
        if sat && !accepted {
            // a satisfiable all-different reported as an error / unsatisfiable
            // the finding: the float variables are counted in the number of required distinct
            // values although the scan skips their domains (iterating calls show the error as `empty`)
            let mut vals: Vec<i32> = ints.iter().flat_map(|d| d.iter().copied()).collect();
            vals.sort();
            vals.dedup();
            let counted = has_float && ds.len() > 1 && vals.len() < ds.len();
            let tag = if counted && (res.contains("ConflictingConstraints") || res == "empty") { "alldiff-float-counted" } else { "-" };
            out.fail(line, "C17", tag, format!("`{}` + {}: satisfiable all-different answered {res}", v.tokens(), call.name()));
        }
        if !sat && accepted {
            out.fail(line, "C17", "-", format!("`{}` + {}: unsatisfiable all-different answered {res}", v.tokens(), call.name()));
        }
    }
    let _ = call.iterating();
}

fn v_cases(r: &mut Rng) -> Vec<V> {
    let mut vs = vec![];
    let lo = r.range(-5, 5) as i32;
    let w = r.range(-3, 3) as i32;
    vs.push(V::Bounds { lo, hi: lo + w });
    vs.push(V::BoundsEq { lo: r.range(-2, 4) as i32, hi: r.range(-2, 4) as i32 });
    vs.push(V::BoundsUse { lo: r.range(-2, 4) as i32, hi: r.range(-2, 4) as i32 });
    vs.push(V::Ints { n: r.below(3) as usize, lo, hi: lo + w });
    let n = r.below(4) as usize;
    vs.push(V::Set { vals: (0..n).map(|_| r.range(-3, 3) as i32).collect() });
    vs.push(V::MinMax { is_max: r.chance(1, 2), n: r.below(3) as usize, route: r.below(4) as u8 });
    vs.push(V::LinLen { nc: r.below(4) as usize, nv: r.below(4) as usize, rel: r.below(3) as u8, reif: r.chance(1, 3) });
    let dlo = r.range(-3, 2) as i32;
    vs.push(V::ZeroDiv { lo: dlo, hi: dlo + r.range(0, 3) as i32, op: r.below(2) as u8, route: r.below(2) as u8 });
    let ilo = r.range(-4, 4) as i32;
    vs.push(V::Elem { n: r.below(4) as usize, lo: ilo, hi: ilo + r.range(0, 3) as i32, route: r.below(3) as u8 });
    let big = *r.pick(&[10, 1000, 1001, 200_000, 1_048_000, 1_048_500, 1_500_000, 2_000_000]);
    let mlo = r.range(-1_000_000, 0) as i32;
    vs.push(V::Mem { limit: *r.pick(&[1, 2]), lo: mlo, hi: (mlo as i64 + big - 1).min(1_000_000) as i32, post: r.chance(1, 2), first: r.chance(1, 2) });
    vs.push(V::TableArity { nv: r.below(3) as usize + 1, rowlen: r.below(4) as usize });
    vs.push(V::AllDiffDup { dup: r.chance(1, 2) });
    {
        // all-different validation: fixed duplicates, too few values, float variables, plain cases
        let n = r.range(1, 4) as usize;
        let with_float = r.chance(1, 3);
        let ds: Vec<Option<Vec<i32>>> = (0..n)
            .map(|_| {
                if with_float && r.chance(1, 3) {
                    None
                } else if r.chance(1, 3) {
                    Some(vec![r.range(0, 3) as i32])
                } else {
                    let mut v: Vec<i32> = (0..=3).filter(|_| r.chance(1, 2)).collect();
                    if v.is_empty() {
                        v.push(r.range(0, 3) as i32);
                    }
                    Some(v)
                }
            })
            .collect();
        vs.push(V::AllDiff { ds });
        if r.chance(1, 8) {
            // accepted by the validation (enough distinct values, no fixed duplicates) yet unsatisfiable:
            // three variables over the same two values
            let a = r.range(0, 2) as i32;
            let mut ds = vec![Some(vec![a, a + 1]), Some(vec![a, a + 1]), Some(vec![a, a + 1]), Some(vec![a + 2, a + 3])];
            if r.chance(1, 3) {
                ds.push(None);
                ds.push(Some(vec![a + 4, a + 5]));
            }
            vs.push(V::AllDiff { ds });
        }
    }
    vs
}

// ------------------------------------------------------------------------------------------------
// `mal.ss` / `mal.view` / `mal.lin`: direct calls with extreme values, compared with the safety
// predicates of the model ("panic" iff a site fails)
// ------------------------------------------------------------------------------------------------
fn show_ssm(s: &SparseSet) -> String {
    format!("size={} vals={}", s.size(), crate::out::show_ints(&s.to_vec()))
}

/// classification of a direct-call panic: in-range arguments (|v| ≤ 10^6) never excuse a panic
fn direct_tag(args: &[i64], msg: &str, what: &str) -> String {
    let extreme = args.iter().any(|v| v.abs() > IN_RANGE);
    let k = msg_kind(msg);
    if k == "overflow" && extreme {
        "i32-overflow".into()
    } else if (k == "assert" && (what == "min" || what == "max")) || (what == "restoresize" && msg.contains("larger than universe")) {
        // explicit precondition (debug assertion) of a doc-hidden method, violated on purpose by the
        // direct call: compared with the model, not a finding
        "precondition".into()
    } else {
        "-".into()
    }
}

pub struct SsCase {
    s: Option<SparseSet>,
    dead: bool,
}

/// one `mal.ss` op; returns false when the case is over (panic)
pub fn do_ss(c: &mut SsCase, out: &mut Out, op: &str) -> bool {
    let ws: Vec<&str> = op.split_whitespace().collect();
    let ints: Vec<i32> = ws[1..].iter().filter_map(|w| w.parse().ok()).collect();
    let args: Vec<i64> = ints.iter().map(|v| *v as i64).collect();
    let line_txt = format!("mal.ss {op}");
    if c.dead {
        out.emit(line_txt, "dead");
        return false;
    }
    let empty = SparseSet::new_from_values(vec![]);
    let cur = c.s.take().unwrap_or(empty);
    let mut work = cur.clone();
    let r: Option<String> = guarded(|| match ws[0] {
        "new" => {
            work = SparseSet::new(ints[0], ints[1]);
            show_ssm(&work)
        }
        "unchecked" => {
            work = SparseSet::new_unchecked(ints[0], ints[1]);
            show_ssm(&work)
        }
        "values" => {
            work = SparseSet::new_from_values(ints.clone());
            show_ssm(&work)
        }
        "contains" => crate::out::b(work.contains(ints[0])).to_string(),
        "remove" => {
            work.remove(ints[0]);
            show_ssm(&work)
        }
        "below" => {
            work.remove_below(ints[0]);
            show_ssm(&work)
        }
        "above" => {
            work.remove_above(ints[0]);
            show_ssm(&work)
        }
        "only" => {
            work.remove_all_but(ints[0]);
            show_ssm(&work)
        }
        "clear" => {
            work.remove_all();
            show_ssm(&work)
        }
        "min" => work.min().to_string(),
        "max" => work.max().to_string(),
        "maxuniv" => work.max_universe_value().to_string(),
        "first" => work.first().map(|v| v.to_string()).unwrap_or("-".into()),
        "last" => work.last().map(|v| v.to_string()).unwrap_or("-".into()),
        "iter" => crate::out::show_ints(&work.iter().collect::<Vec<_>>()),
        "comp" => crate::out::show_ints(&work.complement_iter().collect::<Vec<_>>()),
        "restoresize" => {
            work.restore_size(ints[0] as u32);
            show_ssm(&work)
        }
        "inter" => {
            let o = SparseSet::new_from_values(ints.clone());
            work.intersect_with(&o);
            show_ssm(&work)
        }
        "diff" => {
            let o = SparseSet::new_from_values(ints.clone());
            work.diff_with(&o);
            show_ssm(&work)
        }
        "union" => {
            let o = SparseSet::new_from_values(ints.clone());
            work.union_with(&o);
            show_ssm(&work)
        }
        "subset" => {
            let o = SparseSet::new_from_values(ints.clone());
            crate::out::b(work.is_subset_of(&o)).to_string()
        }
        "equals" => {
            let o = SparseSet::new_from_values(ints.clone());
            crate::out::b(work.equals(&o)).to_string()
        }
        _ => "bad-op".to_string(),
    });
    out.stat(&format!("ss.{}", ws[0]));
    match r {
        Some(res) => {
            c.s = Some(work);
            out.emit(line_txt, format!("ok {res}"));
            true
        }
        None => {
            let (loc, msg) = take_panic();
            let l = out.emit(line_txt, "panic");
            out.stat("ss.panic");
            // the universe of the receiver counts as an argument
            let mut a = args.clone();
            a.push(cur.min_universe_value() as i64);
            a.push(cur.min_universe_value() as i64 + cur.universe_size() as i64);
            let tag = direct_tag(&a, &msg, ws[0]);
            if tag == "precondition" {
                out.stat("ss.panic.precondition");
                c.dead = true;
                return false;
            }
            out.fail(l, "C17", &tag, format!("SparseSet::{op} on universe [{}..+{}) panicked at {loc}: {}", cur.min_universe_value(), cur.universe_size(), msg.chars().take(80).collect::<String>()));
            c.dead = true;
            false
        }
    }
}

const OFFS: [i32; 14] = [0, -3, 5, 1000, -1_000_000, 999_990, i32::MAX - 6, i32::MAX - 12, i32::MIN, i32::MIN + 4, 1 << 30, -(1 << 30), (1 << 30) - 4, -(1 << 30) - 4];

fn ss_arg(r: &mut Rng, lo: i32, n: i32) -> i32 {
    match r.below(8) {
        0 => *r.pick(&[i32::MAX, i32::MIN, i32::MAX - 1, i32::MIN + 1, 0, -1, 1 << 30, -(1 << 30)]),
        1 => lo.saturating_sub(r.range(1, 3) as i32),
        2 => lo.saturating_add(n).saturating_add(r.range(0, 2) as i32),
        _ => lo.saturating_add(r.range(0, n.max(1) as i64 - 1) as i32),
    }
}

fn ss_vals(r: &mut Rng, lo: i32, n: i32) -> String {
    let k = r.below(4) as usize;
    let base = if r.chance(1, 5) { *r.pick(&OFFS) } else { lo };
    let mut v: Vec<i32> = (0..k).map(|_| base.saturating_add(r.range(-1, n as i64) as i32)).collect();
    if r.chance(1, 12) {
        // a value far away: the operand's universe `max - min` overflows i32 (no allocation happens)
        let far = if base > 0 { i32::MIN + r.range(0, 5) as i32 } else { i32::MAX - r.range(0, 5) as i32 };
        if (far as i64 - base as i64).abs() > i32::MAX as i64 + 20 {
            v.push(far);
        }
    }
    v.iter().map(|x| x.to_string()).collect::<Vec<_>>().join(" ")
}

fn ss_case(out: &mut Out, r: &mut Rng) {
    let mut c = SsCase { s: None, dead: false };
    let lo = *r.pick(&OFFS);
    let n = r.range(1, 9) as i32;
    // creation: small span at `lo`, reversed, or a span that overflows `max - min` (never allocated)
    let create = match r.below(10) {
        0 => format!("new {} {}", lo.saturating_add(n - 1), lo),
        1 => format!("unchecked {} {}", lo.saturating_add(n - 1), lo),
        2 => {
            let (a, b) = *r.pick(&[(i32::MIN, i32::MAX), (i32::MIN, 0), (-2, i32::MAX), (i32::MIN + 5, 5), (-(1 << 30) - 1, 1 << 30)]);
            format!("new {a} {b}")
        }
        3 | 4 => format!("values {}", ss_vals(r, lo, n)),
        _ => format!("new {} {}", lo, lo.saturating_add(n - 1)),
    };
    if !do_ss(&mut c, out, &create) {
        return;
    }
    let (ulo, un) = match &c.s {
        Some(s) => (s.min_universe_value(), s.universe_size() as i32),
        None => (lo, n),
    };
    for _ in 0..r.range(1, 7) {
        let a = ss_arg(r, ulo, un);
        let op = match r.below(22) {
            0 | 1 => format!("contains {a}"),
            2 | 3 => format!("remove {a}"),
            4 | 5 => format!("below {a}"),
            6 | 7 => format!("above {a}"),
            8 => format!("only {a}"),
            9 => "clear".to_string(),
            10 => "min".to_string(),
            11 => "max".to_string(),
            12 => "maxuniv".to_string(),
            13 => "first".to_string(),
            14 => "last".to_string(),
            15 => "iter".to_string(),
            16 => "comp".to_string(),
            17 => format!("inter {}", ss_vals(r, ulo, un)),
            18 => format!("diff {}", ss_vals(r, ulo, un)),
            19 => format!("union {}", ss_vals(r, ulo, un)),
            20 => format!("{} {}", if r.chance(1, 2) { "subset" } else { "equals" }, ss_vals(r, ulo, un)),
            _ => format!("restoresize {}", r.below(un as u64 + 3)),
        };
        let op = op.trim_end().to_string();
        if !do_ss(&mut c, out, &op) {
            return;
        }
    }
}

// ---- views -------------------------------------------------------------------------------------
use crate::core::{VSpec, ViewK};
use selen::variables::views::{Context, View, ViewExt};
use selen::variables::Vars;

macro_rules! vlevel {
    ($name:ident, $inner:ident) => {
        fn $name<K: ViewK>(s: &VSpec, ids: &[VarId], k: K) -> K::Out {
            struct OppK<K>(K);
            impl<K: ViewK> ViewK for OppK<K> {
                type Out = K::Out;
                fn call<V: View>(self, v: V) -> K::Out { self.0.call(v.opposite()) }
            }
            struct PlusK<K>(K, i32);
            impl<K: ViewK> ViewK for PlusK<K> {
                type Out = K::Out;
                fn call<V: View>(self, v: V) -> K::Out { self.0.call(v.plus(Val::ValI(self.1))) }
            }
            struct TPosK<K>(K, i32);
            impl<K: ViewK> ViewK for TPosK<K> {
                type Out = K::Out;
                fn call<V: View>(self, v: V) -> K::Out { self.0.call(v.times_pos(Val::ValI(self.1))) }
            }
            struct TimesK<K>(K, i32);
            impl<K: ViewK> ViewK for TimesK<K> {
                type Out = K::Out;
                fn call<V: View>(self, v: V) -> K::Out { self.0.call(v.times(Val::ValI(self.1))) }
            }
            struct TNegK<K>(K, i32);
            impl<K: ViewK> ViewK for TNegK<K> {
                type Out = K::Out;
                fn call<V: View>(self, v: V) -> K::Out { self.0.call(v.times_neg(Val::ValI(self.1))) }
            }
            struct NextK<K>(K);
            impl<K: ViewK> ViewK for NextK<K> {
                type Out = K::Out;
                fn call<V: View>(self, v: V) -> K::Out { self.0.call(v.next()) }
            }
            struct PrevK<K>(K);
            impl<K: ViewK> ViewK for PrevK<K> {
                type Out = K::Out;
                fn call<V: View>(self, v: V) -> K::Out { self.0.call(v.prev()) }
            }
            match s {
                VSpec::C(_) | VSpec::V(_) => vlevel0(s, ids, k),
                VSpec::Opp(v) => $inner(v, ids, OppK(k)),
                VSpec::Plus(c, v) => $inner(v, ids, PlusK(k, *c)),
                VSpec::TPos(c, v) => $inner(v, ids, TPosK(k, *c)),
                VSpec::Times(c, v) => $inner(v, ids, TimesK(k, *c)),
                VSpec::TNeg(c, v) => $inner(v, ids, TNegK(k, *c)),
                VSpec::Next(v) => $inner(v, ids, NextK(k)),
                VSpec::Prev(v) => $inner(v, ids, PrevK(k)),
            }
        }
    };
}
fn vlevel0<K: ViewK>(s: &VSpec, ids: &[VarId], k: K) -> K::Out {
    match s {
        VSpec::C(c) => k.call(Val::ValI(*c)),
        VSpec::V(i) => k.call(ids[*i]),
        _ => panic!("view too deep"),
    }
}
vlevel!(vlevel1, vlevel0);
vlevel!(vlevel2, vlevel1);

fn view_ints(v: &VSpec, o: &mut Vec<i64>) {
    match v {
        VSpec::C(k) => o.push(*k as i64),
        VSpec::V(_) => {}
        VSpec::Opp(x) | VSpec::Next(x) | VSpec::Prev(x) => view_ints(x, o),
        VSpec::Plus(k, x) | VSpec::TPos(k, x) | VSpec::Times(k, x) | VSpec::TNeg(k, x) => {
            o.push(*k as i64);
            view_ints(x, o)
        }
    }
}

fn show_val(v: Val) -> String {
    match v {
        Val::ValI(i) => i.to_string(),
        Val::ValF(f) => format!("f{f}"),
    }
}

/// `mal.view <lo> <hi> <op> <m> <view>`
pub fn do_view(out: &mut Out, lo: i32, hi: i32, op: &str, m: i32, v: &VSpec) {
    struct K<'a> {
        vars: &'a mut Vars,
        op: &'a str,
        m: i32,
        id: VarId,
    }
    impl<'a> ViewK for K<'a> {
        type Out = String;
        fn call<V: View>(self, v: V) -> String {
            let mut events = Vec::new();
            let r = {
                let mut ctx = Context::verif_new(self.vars, &mut events);
                match self.op {
                    "min" => return show_val(v.min(&ctx)),
                    "max" => return show_val(v.max(&ctx)),
                    "setmin" => v.try_set_min(Val::ValI(self.m), &mut ctx).map(|_| ()),
                    _ => v.try_set_max(Val::ValI(self.m), &mut ctx).map(|_| ()),
                }
            };
            match r {
                None => "none".to_string(),
                Some(()) => match &self.vars[self.id] {
                    selen::variables::Var::VarI(s) => if s.is_empty() { "empty".into() } else { format!("{}..{}", s.min(), s.max()) },
                    _ => "?".into(),
                },
            }
        }
    }
    let line = format!("mal.view {lo} {hi} {op} {m} {}", v.tokens());
    let r = guarded(|| {
        let mut vars = Vars::new();
        let id = vars.new_var_with_values((lo..=hi).collect());
        let ids = [id];
        vlevel2(v, &ids, K { vars: &mut vars, op, m, id })
    });
    out.stat(&format!("view.{op}"));
    match r {
        Some(s) => {
            out.emit(line, format!("ok {s}"));
        }
        None => {
            let (loc, msg) = take_panic();
            let l = out.emit(line, "panic");
            out.stat("view.panic");
            let mut a = vec![lo as i64, hi as i64];
            if op.starts_with("set") {
                a.push(m as i64);
            }
            view_ints(v, &mut a);
            // products of in-range factors may leave i32 as well: the magnitude the view reaches counts
            let reach = {
                let b = (lo as i64).abs().max((hi as i64).abs());
                fn mag(v: &VSpec, b: i64) -> i64 {
                    match v {
                        VSpec::C(k) => (*k as i64).abs(),
                        VSpec::V(_) => b,
                        VSpec::Opp(x) => mag(x, b),
                        VSpec::Next(x) | VSpec::Prev(x) => mag(x, b) + 1,
                        VSpec::Plus(k, x) => mag(x, b) + (*k as i64).abs(),
                        VSpec::TPos(k, x) | VSpec::Times(k, x) | VSpec::TNeg(k, x) => mag(x, b).saturating_mul((*k as i64).abs()),
                    }
                }
                mag(v, b)
            };
            a.push(reach);
            let tag = direct_tag(&a, &msg, op);
            out.fail(l, "C17", &tag, format!("view {} over [{lo},{hi}] {op} {m} panicked at {loc}: {}", v.tokens(), msg.chars().take(80).collect::<String>()));
        }
    }
}

fn view_k(r: &mut Rng, extreme: bool) -> i32 {
    if extreme && r.chance(1, 2) {
        *r.pick(&[i32::MAX, i32::MIN, i32::MIN + 1, 1 << 30, -(1 << 30), 65536, -65536, 46341, 2])
    } else {
        r.range(-4, 5) as i32
    }
}

fn rand_view_spec(r: &mut Rng, depth: usize, extreme: bool) -> VSpec {
    if depth == 0 {
        return if r.chance(1, 8) { VSpec::C(view_k(r, extreme)) } else { VSpec::V(0) };
    }
    let inner = Box::new(rand_view_spec(r, depth - 1, extreme));
    match r.below(8) {
        0 => VSpec::Opp(inner),
        1 | 2 => VSpec::Plus(view_k(r, extreme), inner),
        3 => VSpec::TPos(view_k(r, extreme).max(1), inner),
        4 => VSpec::Times(view_k(r, extreme), inner),
        5 => {
            let k = view_k(r, extreme);
            VSpec::TNeg(if k >= 0 { -1 - (k % 7) } else { k }, inner)
        }
        6 => VSpec::Next(inner),
        _ => VSpec::Prev(inner),
    }
}

fn view_case(out: &mut Out, r: &mut Rng) {
    let extreme = r.chance(1, 2);
    let lo = if extreme { *r.pick(&OFFS) } else { r.range(-8, 8) as i32 };
    let hi = lo.saturating_add(r.range(0, 5) as i32);
    let depth = r.below(3) as usize;
    let v = rand_view_spec(r, depth, extreme);
    let op = *r.pick(&["min", "max", "setmin", "setmax"]);
    let m = if extreme && r.chance(1, 2) { *r.pick(&[i32::MAX, i32::MIN, i32::MIN + 1, i32::MAX - 1, 1 << 30, -(1 << 30)]) } else { lo.saturating_add(r.range(-3, 8) as i32) };
    do_view(out, lo, hi, op, if op.starts_with("set") { m } else { 0 }, &v);
}

// ---- linear propagators ------------------------------------------------------------------------
/// `mal.lin <rel> <k> <nc> c* <nv> (lo hi)*`
pub fn do_lin(out: &mut Out, rel: &str, k: i32, cs: &[i32], doms: &[(i32, i32)]) {
    use selen::constraints::props::Propagators;
    let line = format!(
        "mal.lin {rel} {k} {} {} {} {}",
        cs.len(),
        cs.iter().map(|c| c.to_string()).collect::<Vec<_>>().join(" "),
        doms.len(),
        doms.iter().map(|d| format!("{} {}", d.0, d.1)).collect::<Vec<_>>().join(" ")
    );
    let line = line.split_whitespace().collect::<Vec<_>>().join(" ");
    let r = guarded(|| {
        let mut vars = Vars::new();
        let ids: Vec<VarId> = doms.iter().map(|d| vars.new_var_with_values((d.0..=d.1).collect())).collect();
        let mut props = Propagators::default();
        for _ in &ids {
            props.on_new_var();
        }
        let p = match rel {
            "eq" => props.int_lin_eq(cs.to_vec(), ids.clone(), k),
            "le" => props.int_lin_le(cs.to_vec(), ids.clone(), k),
            _ => props.int_lin_ne(cs.to_vec(), ids.clone(), k),
        };
        let mut events = Vec::new();
        let res = {
            let mut ctx = Context::verif_new(&mut vars, &mut events);
            props.get_state(p).as_ref().prune(&mut ctx)
        };
        match res {
            None => "none".to_string(),
            Some(()) => ids
                .iter()
                .map(|id| match &vars[*id] {
                    selen::variables::Var::VarI(s) => if s.is_empty() { "empty".into() } else { format!("{}..{}", s.min(), s.max()) },
                    _ => "?".into(),
                })
                .collect::<Vec<_>>()
                .join("|"),
        }
    });
    out.stat(&format!("lin.{rel}"));
    match r {
        Some(s) => {
            out.emit(line, format!("ok {s}"));
        }
        None => {
            let (loc, msg) = take_panic();
            let l = out.emit(line, "panic");
            out.stat("lin.panic");
            if cs.len() < doms.len() {
                // precondition of the (doc-hidden) constructor violated on purpose: not a finding here,
                // the public route to it is the reified helper (`lin-reif-length-unchecked`)
                out.stat("lin.panic.short-coefficients");
                return;
            }
            let mut a: Vec<i64> = cs.iter().map(|c| *c as i64).collect();
            a.push(k as i64);
            for d in doms {
                a.push(d.0 as i64);
                a.push(d.1 as i64);
            }
            // the weighted sum an in-range row can reach
            let w: i64 = cs.iter().zip(doms).map(|(c, d)| (*c as i64).abs().saturating_mul((d.0 as i64).abs().max((d.1 as i64).abs()))).fold(0i64, |x, y| x.saturating_add(y));
            a.push(w);
            let tag = direct_tag(&a, &msg, rel);
            out.fail(l, "C17", &tag, format!("int_lin_{rel} {cs:?} over {doms:?} = {k} panicked at {loc}: {}", msg.chars().take(80).collect::<String>()));
        }
    }
}

fn lin_case(out: &mut Out, r: &mut Rng) {
    let extreme = r.chance(1, 2);
    let nv = r.range(0, 3) as usize;
    let nc = if r.chance(1, 10) { r.below(4) as usize } else { nv };
    let coef = |r: &mut Rng| -> i32 {
        if extreme && r.chance(1, 3) {
            *r.pick(&[i32::MAX, i32::MIN, i32::MIN + 1, -1, 1, 1 << 30, 65536, -65536, 46341, -46341, 1 << 20])
        } else if r.chance(1, 6) {
            0
        } else {
            r.range(-4, 4) as i32
        }
    };
    let cs: Vec<i32> = (0..nc).map(|_| coef(r)).collect();
    let doms: Vec<(i32, i32)> = (0..nv)
        .map(|_| {
            let lo = if extreme && r.chance(1, 3) { *r.pick(&OFFS) } else { r.range(-6, 6) as i32 };
            (lo, lo.saturating_add(r.range(0, 4) as i32))
        })
        .collect();
    let k = if extreme && r.chance(1, 3) { *r.pick(&[i32::MAX, i32::MIN, i32::MIN + 1, 1 << 30, -(1 << 30)]) } else { r.range(-8, 8) as i32 };
    let rel = *r.pick(&["eq", "le", "ne"]);
    do_lin(out, rel, k, &cs, &doms);
}

// ------------------------------------------------------------------------------------------------
// suite entry points
// ------------------------------------------------------------------------------------------------
pub fn suite(out: &mut Out, seed: u64, count: u64, args: &[String]) {
    let only = args.iter().position(|a| a == "--only").and_then(|i| args.get(i + 1)).cloned().unwrap_or_default();
    let geta = |n: &str, d: u64| -> u64 { args.iter().position(|a| a == n).and_then(|i| args.get(i + 1)).and_then(|v| v.parse().ok()).unwrap_or(d) };
    let (from, to) = (geta("--from", 0), geta("--to", u64::MAX));
    let child = geta("--child", 0) >= 1;
    let child_fixed = geta("--child", 0) == 2;
    CHILD_PROGRESS.store(child, std::sync::atomic::Ordering::Relaxed);
    install_hook();
    // watchdog: an in-process case that does not come back is reported instead of hanging the run
    let progress = std::sync::Arc::new(std::sync::atomic::AtomicU64::new(0));
    if !child {
        let p = progress.clone();
        std::thread::spawn(move || {
            let mut last = (u64::MAX, std::time::Instant::now());
            loop {
                std::thread::sleep(std::time::Duration::from_millis(500));
                let cur = p.load(std::sync::atomic::Ordering::Relaxed);
                if cur != last.0 {
                    last = (cur, std::time::Instant::now());
                } else if last.1.elapsed().as_secs() > 30 {
                    eprintln!("malformed: case index {cur} did not return within 30 s (in-process); aborting the run");
                    std::process::exit(3);
                }
            }
        });
    }
    let mut root = Rng::new(seed ^ STREAM);
    if only.is_empty() || only == "api" || only == "fixed" {
        // the fixed reproducers first
        let mut r0 = Rng::new(seed);
        for k in 0..fixed_cases().len() as u64 {
            if child_fixed && k == from {
                api_case(out, &format!("f{k}"), &mut r0, false, &Iso { child: true, fixed: true, seed, count, index: k });
            } else if !child && from == 0 {
                api_case(out, &format!("f{k}"), &mut r0, false, &Iso { child: false, fixed: true, seed, count, index: k });
            }
        }
    }
    for i in 0..count {
        let mut r = root.fork();
        let extreme = i % 3 == 2;
        if i < from || i > to || child_fixed {
            continue;
        }
        progress.store(i, std::sync::atomic::Ordering::Relaxed);
        if only.is_empty() || only == "api" {
            api_case(out, &format!("m{i}"), &mut r, extreme, &Iso { child, fixed: false, seed, count, index: i });
        }
        if !child && (only.is_empty() || only == "direct") {
            let mut rd = r.fork();
            if i % 2 == 0 {
                out.case(&format!("d{i}"));
                ss_case(out, &mut rd);
            }
            if i % 2 == 1 {
                out.case(&format!("w{i}"));
                for _ in 0..3 {
                    view_case(out, &mut rd);
                }
                for _ in 0..2 {
                    lin_case(out, &mut rd);
                }
            }
        }
        if !child && (only.is_empty() || only == "v") && i % 4 == 0 {
            out.case(&format!("v{i}"));
            let mut rv = r.fork();
            for v in v_cases(&mut rv) {
                let call = *rv.pick(&VC::ALL);
                do_v(out, &v, call);
            }
        }
    }
    remove_hook();
    if child {
        // hand the transcript of the single case to the parent and leave without writing files
        let mut s = String::new();
        for (i, l) in out.ops.iter().enumerate() {
            s.push_str(&format!("L\t{l}\n"));
            for (ln, _p, t, d) in &out.oracle {
                if *ln == i {
                    s.push_str(&format!("F\t{t}\t{}\n", d.replace('\n', " ")));
                }
            }
        }
        for (k, v) in &out.stats {
            for _ in 0..*v {
                s.push_str(&format!("S\t{k}\n"));
            }
        }
        print!("{s}");
        use std::io::Write;
        let _ = std::io::stdout().flush();
        std::process::exit(0);
    }
}

static REPLAY_SS: Mutex<Option<SsCase>> = Mutex::new(None);

/// replay of one protocol line of this suite inside the current case (`mal.v`, `mal.ss`, `mal.view`,
/// `mal.lin`; the `#mal` transcript lines are oracle-only and are not replayed)
pub fn replay_line(out: &mut Out, line: &str) {
    let ws: Vec<&str> = line.split_whitespace().collect();
    install_hook();
    match ws.first().copied() {
        Some("mal.v") if ws.len() >= 3 => {
            let call = VC::parse(ws[ws.len() - 1]);
            let v = V::parse(&ws[1..ws.len() - 1]);
            if let (Some(v), Some(c)) = (v, call) {
                do_v(out, &v, c);
            }
        }
        Some("mal.ss") if ws.len() >= 2 => {
            let mut g = REPLAY_SS.lock().unwrap();
            if matches!(ws[1], "new" | "unchecked" | "values") || g.is_none() {
                *g = Some(SsCase { s: None, dead: false });
            }
            let op = ws[1..].join(" ");
            do_ss(g.as_mut().unwrap(), out, &op);
        }
        Some("mal.view") if ws.len() >= 6 => {
            let p = |k: usize| ws[k].parse::<i32>().ok();
            if let (Some(lo), Some(hi), Some(m), Some((v, rest))) = (p(1), p(2), p(4), crate::core::parse_view(&ws[5..])) {
                if rest.is_empty() {
                    do_view(out, lo, hi, ws[3], m, &v);
                }
            }
        }
        Some("mal.lin") if ws.len() >= 4 => {
            let ints: Option<Vec<i64>> = ws[2..].iter().map(|w| w.parse::<i64>().ok()).collect();
            if let Some(a) = ints {
                // k nc c* nv (lo hi)*
                let nc = a[1] as usize;
                if a.len() >= 3 + nc {
                    let cs: Vec<i32> = a[2..2 + nc].iter().map(|x| *x as i32).collect();
                    let nv = a[2 + nc] as usize;
                    let rest = &a[3 + nc..];
                    if rest.len() == 2 * nv {
                        let doms: Vec<(i32, i32)> = (0..nv).map(|i| (rest[2 * i] as i32, rest[2 * i + 1] as i32)).collect();
                        do_lin(out, ws[1], a[0] as i32, &cs, &doms);
                    }
                }
            }
        }
        _ => {}
    }
    remove_hook();
}

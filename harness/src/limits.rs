//! Limits (C15) and determinism (C16) at the `Model` entry points: props-level models are built
//! inside a real `selen::prelude::Model` (its `vars` / `props` fields are public), so the real
//! `solve` / `minimize` / `maximize` / `enumerate` wrappers — validation, post-loop limit tests,
//! error mapping — are exercised; hook H6 forces a limit at the k-th engine check.
use crate::core::{KSpec, VSpec, ViewK};
use crate::engine::{brute, rand_model, EngCase};
use crate::out::{guarded, Out};
use crate::rng::Rng;
use selen::prelude::*;
use selen::verif_hooks as hooks;

fn build_model(ec: &EngCase, cfg: Option<SolverConfig>) -> (Model, Vec<VarId>) {
    let mut m = match cfg {
        Some(c) => Model::with_config(c),
        None => Model::default(),
    };
    let mut ids = vec![];
    for d in &ec.doms {
        let contiguous = d.windows(2).all(|w| w[1] == w[0] + 1);
        ids.push(if contiguous { m.int(d[0], *d.last().unwrap()) } else { m.intset(d.clone()) });
    }
    for k in &ec.kinds {
        k.post(&mut m.props, &ids);
    }
    (m, ids)
}

fn ival(v: Val) -> i64 {
    match v {
        Val::ValI(i) => i as i64,
        Val::ValF(f) => f as i64,
    }
}

fn show_result(r: &Result<Solution, SolverError>, ids: &[VarId]) -> String {
    match r {
        Ok(s) => format!("ok {}", ids.iter().map(|id| ival(s[*id]).to_string()).collect::<Vec<_>>().join(",")),
        Err(SolverError::NoSolution { .. }) => "nosolution".into(),
        Err(SolverError::Timeout { .. }) => "timeout".into(),
        Err(SolverError::MemoryLimit { .. }) => "memory".into(),
        Err(e) => format!("error {}", format!("{:?}", e).split(|c: char| !c.is_alphanumeric()).next().unwrap_or("?")),
    }
}

fn with_hooks<T>(seed: i64, fire: Option<(usize, u8)>, f: impl FnOnce() -> T) -> Option<T> {
    hooks::set_agenda_seed(if seed < 0 { None } else { Some(seed as u64) });
    hooks::set_root_lp_disabled(true);
    hooks::set_fast_path_disabled(true);
    hooks::set_fire_at(fire);
    let r = guarded(f);
    hooks::set_agenda_seed(None);
    hooks::set_root_lp_disabled(false);
    hooks::set_fast_path_disabled(false);
    hooks::set_fire_at(None);
    r
}

/// `limit <k> <kind> solve|enum|min|max <seed> [view]`; kind 0 = timeout at the k-th check, 1 = memory
/// limit at the k-th check, 2 = real memory limit of k MB with checks on every iteration
pub fn do_limit(ec: &EngCase, out: &mut Out, k: usize, kind: u8, call: &str, seed: i64, obj: Option<&VSpec>) {
    let cfg = if kind >= 2 { Some(SolverConfig::default().with_max_memory_mb(k as u64)) } else { None };
    let fire = if kind >= 2 { Some((1usize, 2u8)) } else { Some((k, kind)) };
    let line = match obj {
        Some(v) => format!("limit {k} {kind} {call} {seed} {}", v.tokens()),
        None => format!("limit {k} {kind} {call} {seed}"),
    };
    // brute force only for small spaces; otherwise evaluate candidates directly
    let space: f64 = ec.doms.iter().map(|d| d.len() as f64).product();
    let small = space <= 5000.0;
    let want = if small { brute(&ec.doms, &ec.kinds) } else { vec![] };
    let is_sol = |v: &Vec<i64>| -> bool {
        if small { want.contains(v) } else {
            v.len() == ec.doms.len() && v.iter().zip(&ec.doms).all(|(x, d)| d.contains(&(*x as i32))) && ec.kinds.iter().all(|k| k.holds(v))
        }
    };
    // for the large (deep) models the all-minimum assignment is a solution by construction
    let satisfiable = if small { !want.is_empty() } else { true };
    let tag = ec.kinds.iter().map(|k| k.finding_tag()).find(|t| *t != "-").unwrap_or("-");
    match call {
        "enum" => {
            let r = with_hooks(seed, fire, || {
                let (m, ids) = build_model(ec, cfg);
                m.enumerate().take(5000).map(|s| ids.iter().map(|id| ival(s[*id])).collect::<Vec<i64>>()).collect::<Vec<_>>()
            });
            let Some(sols) = r else {
                let l = out.emit(line, "panic");
                out.fail(l, "C15", "-", "panic under a limit");
                return;
            };
            let parts: Vec<String> = sols.iter().map(|v| v.iter().map(|x| x.to_string()).collect::<Vec<_>>().join(",")).collect();
            let l = out.emit(line, format!("n={} sols={}", sols.len(), parts.join(";")));
            out.stat("limit.enum");
            for s in &sols {
                if !is_sol(s) {
                    out.fail(l, "C15", tag, format!("enumerate under a limit yielded the non-solution {:?}", s));
                    break;
                }
            }
        }
        _ => {
            struct K<'a> { m: Model, is_max: bool, ids: &'a [VarId] }
            impl<'a> ViewK for K<'a> {
                type Out = String;
                fn call<V: View>(self, v: V) -> String {
                    let r = if self.is_max { self.m.maximize(v) } else { self.m.minimize(v) };
                    show_result(&r, self.ids)
                }
            }
            let r = with_hooks(seed, fire, || {
                let (m, ids) = build_model(ec, cfg);
                match call {
                    "solve" => show_result(&m.solve(), &ids),
                    _ => crate::core::with_view1(obj.unwrap(), &ids.clone(), K { m, is_max: call == "max", ids: &ids }),
                }
            });
            let Some(res) = r else {
                let l = out.emit(line, "panic");
                out.fail(l, "C15", "-", "panic under a limit");
                return;
            };
            let l = out.emit(line, res.clone());
            out.stat(&format!("limit.{call}.{}", res.split_whitespace().next().unwrap_or("?")));
            // oracle: a correct result or the limit's error
            if res == "nosolution" && satisfiable {
                out.fail(l, "C15", tag, "a limit turned a satisfiable model into NoSolution".to_string());
            }
            if let Some(vals) = res.strip_prefix("ok ") {
                let v: Vec<i64> = vals.split(',').map(|x| x.parse().unwrap()).collect();
                if !is_sol(&v) {
                    out.fail(l, "C15", tag, format!("returned the non-solution {:?} under a limit", v));
                } else if let Some(o) = obj {
                    let val = |s: &Vec<i64>| if call == "max" { -o.apply(s) } else { o.apply(s) };
                    let best = if small { want.iter().map(|s| val(s)).min().unwrap() } else {
                        // deep models: objective is one 0/1 variable; its best value is reached with
                        // every other variable at 0 unless the single row forbids it
                        let i = o.var().unwrap();
                        let mut cand: Vec<i64> = vec![0; ec.doms.len()];
                        if call == "max" { cand[i] = 1; }
                        if is_sol(&cand) { val(&cand) } else { cand[i] = 0; val(&cand) }
                    };
                    if val(&v) != best {
                        out.fail(l, "C15", tag, format!("returned the non-optimal incumbent {:?} (objective {}, optimum {}) under a limit instead of an error", v, val(&v), best));
                    }
                }
            }
            if res.starts_with("error") {
                out.fail(l, "C15", "-", format!("unexpected error {res}"));
            }
        }
    }
}

pub fn suite(out: &mut Out, seed: u64, count: u64) {
    let mut r0 = Rng::new(seed ^ 0xC15);
    for i in 0..count {
        let mut r = r0.fork();
        out.case(&format!("lim{i}"));
        // the real `Model` validates before it searches (zero-capable divisors, duplicate
        // all-different variables, operand counts …): validation is C17's subject, the limits model
        // starts after it, so only models the validator accepts are used here
        let mut ec = rand_model(&mut r);
        let mut tries = 0;
        while guarded(|| build_model(&ec, None).0.validate().is_ok()) != Some(true) && tries < 50 {
            out.stat("limit.rejected-by-validation");
            ec = rand_model(&mut r);
            tries += 1;
        }
        if out.samples.len() < 3 {
            out.samples.push(ec.kinds.iter().map(|k| k.tokens()).collect::<Vec<_>>().join(" ; "));
        }
        crate::engine::emit_model(out, &ec);
        let obj = crate::core::rand_view(&mut r, ec.doms.len(), 1);
        let kind = r.below(2) as u8;
        // every check index up to a bound that exceeds the number of checks of small models
        let kmax = if r.chance(1, 4) { 60 } else { 14 };
        for k in 1..=kmax {
            do_limit(&ec, out, k, kind, "solve", -1, None);
            do_limit(&ec, out, k, kind, "enum", -1, None);
            do_limit(&ec, out, k, kind, if r.chance(1, 2) { "min" } else { "max" }, -1, Some(&obj));
        }
    }
}

/// deep models: a chain of unconstrained booleans makes the engine's stack deep enough for the
/// real 1–3 MB memory estimate to trip (3 KB per stack frame on top of 514 KB)
pub fn suite_deep(out: &mut Out, seed: u64, count: u64) {
    let mut r0 = Rng::new(seed ^ 0xDEE9);
    for i in 0..count {
        let mut r = r0.fork();
        out.case(&format!("deep{i}"));
        let n = r.range(500, 560) as usize;
        let doms: Vec<Vec<i32>> = (0..n).map(|_| vec![0, 1]).collect();
        // one constraint on the last few variables so that early leaves fail or succeed variably
        let a = n - 1 - r.below(3) as usize;
        let b = n - 4 - r.below(3) as usize;
        let kinds = vec![KSpec::LinLe(vec![1, 1], vec![a, b], r.range(0, 2) as i32)];
        let ec = EngCase { doms, kinds };
        crate::engine::emit_model(out, &ec);
        let obj = VSpec::V(n - 1 - r.below(4) as usize);
        for mb in 1..=2usize {
            do_limit(&ec, out, mb, 2, "solve", -1, None);
            do_limit(&ec, out, mb, 2, if r.chance(1, 2) { "min" } else { "max" }, -1, Some(&obj));
        }
    }
}

pub fn replay_line(ec: &EngCase, out: &mut Out, line: &str) {
    let ws: Vec<&str> = line.split_whitespace().collect();
    if ws[0] != "limit" { return; }
    let k: usize = ws[1].parse().unwrap();
    let kind: u8 = ws[2].parse().unwrap();
    let seed: i64 = ws[4].parse().unwrap();
    let obj = if ws.len() > 5 { crate::core::parse_view(&ws[5..]).map(|p| p.0) } else { None };
    do_limit(ec, out, k, kind, ws[3], seed, obj.as_ref());
}

//! Lowering ops (C10): fluent expression trees posted through the real builder API, lowered by the
//! model's own `prepare_for_search` (hook H2), dumped (variables + `Debug` of every propagator) and
//! enumerated; the Lean model of the lowering must produce the same dump and the same sequence.
use crate::out::{guarded, Out};
use crate::rng::Rng;
use selen::prelude::*;
use selen::runtime_api::{Constraint, ExprBuilder};

#[derive(Clone, Debug)]
pub enum Ex {
    V(usize),
    K(i32),
    Add(Box<Ex>, Box<Ex>),
    Sub(Box<Ex>, Box<Ex>),
    Mul(Box<Ex>, Box<Ex>),
    Div(Box<Ex>, Box<Ex>),
    Mod(Box<Ex>, Box<Ex>),
}

#[derive(Clone, Debug)]
pub enum Co {
    Bin(Ex, &'static str, Ex),
    And(Box<Co>, Box<Co>),
    Or(Box<Co>, Box<Co>),
    Not(Box<Co>),
}

impl Ex {
    pub fn tokens(&self) -> String {
        match self {
            Ex::V(i) => format!("v {i}"),
            Ex::K(k) => format!("k {k}"),
            Ex::Add(a, b) => format!("+ {} {}", a.tokens(), b.tokens()),
            Ex::Sub(a, b) => format!("- {} {}", a.tokens(), b.tokens()),
            Ex::Mul(a, b) => format!("* {} {}", a.tokens(), b.tokens()),
            Ex::Div(a, b) => format!("/ {} {}", a.tokens(), b.tokens()),
            Ex::Mod(a, b) => format!("% {} {}", a.tokens(), b.tokens()),
        }
    }
    /// build with the real smart constructors
    pub fn build(&self, ids: &[VarId]) -> ExprBuilder {
        match self {
            Ex::V(i) => ExprBuilder::from_var(ids[*i]),
            Ex::K(k) => ExprBuilder::from_val(Val::ValI(*k)),
            Ex::Add(a, b) => a.build(ids).add(b.build(ids)),
            Ex::Sub(a, b) => a.build(ids).sub(b.build(ids)),
            Ex::Mul(a, b) => a.build(ids).mul(b.build(ids)),
            Ex::Div(a, b) => a.build(ids).div(b.build(ids)),
            Ex::Mod(a, b) => a.build(ids).modulo(b.build(ids)),
        }
    }
    /// exact value (None: division by zero / inexact quotient) — the arithmetic reading
    pub fn eval(&self, a: &[i64]) -> Option<i64> {
        Some(match self {
            Ex::V(i) => a[*i],
            Ex::K(k) => *k as i64,
            Ex::Add(x, y) => x.eval(a)? + y.eval(a)?,
            Ex::Sub(x, y) => x.eval(a)? - y.eval(a)?,
            Ex::Mul(x, y) => x.eval(a)? * y.eval(a)?,
            Ex::Div(x, y) => { let d = y.eval(a)?; if d == 0 { return None; } let n = x.eval(a)?; if n % d != 0 { return None; } n / d }
            Ex::Mod(x, y) => { let d = y.eval(a)?; if d == 0 { return None; } x.eval(a)? % d }
        })
    }
    /// the tree the builder's smart constructors produce (constant folding, `*1`, `/1`);
    /// integer/integer division folds to a float: kept unfolded here
    pub fn fold(&self) -> Ex {
        match self {
            Ex::V(_) | Ex::K(_) => self.clone(),
            Ex::Add(a, b) => match (a.fold(), b.fold()) { (Ex::K(x), Ex::K(y)) => Ex::K(x + y), (x, y) => Ex::Add(Box::new(x), Box::new(y)) },
            Ex::Sub(a, b) => match (a.fold(), b.fold()) { (Ex::K(x), Ex::K(y)) => Ex::K(x - y), (x, y) => Ex::Sub(Box::new(x), Box::new(y)) },
            Ex::Mul(a, b) => match (a.fold(), b.fold()) {
                (Ex::K(x), Ex::K(y)) => Ex::K(x * y),
                (x, Ex::K(1)) => x,
                (Ex::K(1), y) => y,
                (x, y) => Ex::Mul(Box::new(x), Box::new(y)),
            },
            Ex::Div(a, b) => match (a.fold(), b.fold()) { (x, Ex::K(1)) if !matches!(x, Ex::K(_)) => x, (x, y) => Ex::Div(Box::new(x), Box::new(y)) },
            Ex::Mod(a, b) => Ex::Mod(Box::new(a.fold()), Box::new(b.fold())),
        }
    }
    pub fn has_divmod(&self) -> bool {
        match self {
            Ex::V(_) | Ex::K(_) => false,
            Ex::Div(..) | Ex::Mod(..) => true,
            Ex::Add(a, b) | Ex::Sub(a, b) | Ex::Mul(a, b) => a.has_divmod() || b.has_divmod(),
        }
    }
    pub fn is_linear(&self) -> bool {
        match self {
            Ex::V(_) | Ex::K(_) => true,
            Ex::Add(a, b) | Ex::Sub(a, b) => a.is_linear() && b.is_linear(),
            Ex::Mul(a, b) => matches!((&**a, &**b), (Ex::V(_), Ex::K(_)) | (Ex::K(_), Ex::V(_)) | (Ex::K(_), Ex::K(_))),
            _ => false,
        }
    }
}

/// net coefficient per variable of a linear tree (None: not linear in the builder's sense)
fn lin_coeffs(e: &Ex, sign: i64, acc: &mut std::collections::BTreeMap<usize, i64>) -> bool {
    match e {
        Ex::V(i) => { *acc.entry(*i).or_insert(0) += sign; true }
        Ex::K(_) => true,
        Ex::Add(a, b) => lin_coeffs(a, sign, acc) && lin_coeffs(b, sign, acc),
        Ex::Sub(a, b) => lin_coeffs(a, sign, acc) && lin_coeffs(b, -sign, acc),
        Ex::Mul(a, b) => match (&**a, &**b) {
            (Ex::V(i), Ex::K(k)) | (Ex::K(k), Ex::V(i)) => { *acc.entry(*i).or_insert(0) += sign * *k as i64; true }
            (Ex::K(_), Ex::K(_)) => true,
            _ => false,
        },
        _ => false,
    }
}

impl Co {
    /// a top-level comparison whose linear form has no non-zero coefficient (never checked: finding)
    pub fn is_all_zero_row(&self) -> bool {
        if let Co::Bin(l, op, r) = self {
            let (l, r) = (&l.fold(), &r.fold());
            if *op == "eq" && matches!((l, r), (Ex::V(_), Ex::K(_)) | (Ex::K(_), Ex::V(_))) { return false; }
            let mut acc = std::collections::BTreeMap::new();
            if l.is_linear() && r.is_linear() && lin_coeffs(l, 1, &mut acc) && lin_coeffs(r, -1, &mut acc) {
                return acc.values().all(|c| *c == 0);
            }
        }
        false
    }
    pub fn tokens(&self) -> String {
        match self {
            Co::Bin(l, op, r) => format!("cmp {op} {} {}", l.tokens(), r.tokens()),
            Co::And(a, b) => format!("and {} {}", a.tokens(), b.tokens()),
            Co::Or(a, b) => format!("or {} {}", a.tokens(), b.tokens()),
            Co::Not(a) => format!("not {}", a.tokens()),
        }
    }
    pub fn build(&self, ids: &[VarId]) -> Constraint {
        match self {
            Co::Bin(l, op, r) => {
                let (l, r) = (l.build(ids), r.build(ids));
                match *op { "eq" => l.eq(r), "ne" => l.ne(r), "lt" => l.lt(r), "le" => l.le(r), "gt" => l.gt(r), _ => l.ge(r) }
            }
            Co::And(a, b) => a.build(ids).and(b.build(ids)),
            Co::Or(a, b) => a.build(ids).or(b.build(ids)),
            Co::Not(a) => a.build(ids).not(),
        }
    }
    pub fn eval(&self, a: &[i64]) -> Option<bool> {
        Some(match self {
            Co::Bin(l, op, r) => {
                let (x, y) = (l.eval(a)?, r.eval(a)?);
                match *op { "eq" => x == y, "ne" => x != y, "lt" => x < y, "le" => x <= y, "gt" => x > y, _ => x >= y }
            }
            Co::And(p, q) => p.eval(a)? && q.eval(a)?,
            Co::Or(p, q) => p.eval(a)? || q.eval(a)?,
            Co::Not(p) => !p.eval(a)?,
        })
    }
    fn has(&self, f: &dyn Fn(&Co) -> bool) -> bool {
        f(self) || match self {
            Co::And(a, b) | Co::Or(a, b) => a.has(f) || b.has(f),
            Co::Not(a) => a.has(f),
            _ => false,
        }
    }
    /// matcher of the recorded lowering findings
    pub fn finding_tag(&self, top: bool) -> &'static str {
        if top && self.is_all_zero_row() { return "lin-all-zero-coefficients"; }
        if self.has(&|c| matches!(c, Co::Not(_))) { return "not-ignored"; }
        if self.has(&|c| match c {
            Co::Or(a, b) => !matches!((&**a, &**b), (Co::Bin(Ex::V(x), "eq", Ex::K(_)), Co::Bin(Ex::V(y), "eq", Ex::K(_))) if x == y),
            _ => false }) { return "or-lowered-as-and"; }
        // a `!=` that is not linearised: nested inside and/or/not (materialised through
        // `NotEquals`), or with a non-linear side
        if self.has(&|c| matches!(c, Co::Bin(l, "ne", r) if !(l.fold().is_linear() && r.fold().is_linear()))) { return "neq-noop"; }
        if !top || matches!(self, Co::And(..) | Co::Or(..) | Co::Not(..)) {
            if self.has(&|c| matches!(c, Co::Bin(_, "ne", _))) { return "neq-noop"; }
        }
        "-"
    }
}

#[derive(Clone)]
pub struct LCase {
    pub doms: Vec<Vec<i32>>,
    pub cons: Vec<Co>,
}

fn build_model(lc: &LCase) -> (Model, Vec<VarId>) {
    let mut m = Model::default();
    let mut ids = vec![];
    for d in &lc.doms {
        let contiguous = d.windows(2).all(|w| w[1] == w[0] + 1);
        ids.push(if contiguous { m.int(d[0], *d.last().unwrap()) } else { m.intset(d.clone()) });
    }
    for c in &lc.cons {
        m.new(c.build(&ids));
    }
    (m, ids)
}

/// VarId(0..n) obtained from a scratch model (VarId is an index newtype)
fn var_ids(n: usize) -> Vec<VarId> {
    let mut d = Model::default();
    (0..n).map(|_| d.int(0, 0)).collect()
}

fn dump_dom(v: &selen::variables::Var) -> String {
    match v {
        selen::variables::Var::VarI(s) => {
            let mut x = s.to_vec();
            x.sort();
            if x.len() > 12 && (x[x.len() - 1] - x[0] + 1) as usize == x.len() {
                format!("[{}..{}#{}]", x[0], x[x.len() - 1], x.len())
            } else {
                crate::out::show_ints(&x)
            }
        }
        selen::variables::Var::VarF(f) => format!("F[{},{}]", f.min.to_bits(), f.max.to_bits()),
    }
}

pub fn do_lower(lc: &LCase, out: &mut Out) {
    let r = guarded(|| {
        let (m, _) = build_model(lc);
        match m.verif_lower() {
            Err(e) => format!("error {}", format!("{:?}", e).split(|c: char| !c.is_alphanumeric()).next().unwrap_or("?")),
            Ok((vars, props)) => {
                let n = vars.count();
                let ids = var_ids(n);
                let doms: Vec<String> = ids.iter().map(|id| dump_dom(&vars[*id])).collect();
                let ps: Vec<String> = props.get_prop_ids_iter().map(|p| format!("{:?}", props.get_state(p))).collect();
                format!("vars={} props={}", doms.join("|"), ps.join(" ;; "))
            }
        }
    });
    match r {
        None => {
            let l = out.emit("lw.lower", "panic");
            // recorded finding: a posted equality emptied a domain and a later `x == y` reads its bounds
            let eqs = lc.cons.iter().filter(|c| matches!(c, Co::Bin(Ex::V(_), "eq", Ex::V(_)))).count();
            out.fail(l, "C17", if eqs >= 1 { "empty-domain-view-panic" } else { "-" }, "panic while lowering");
        }
        Some(s) => { out.emit("lw.lower", s); }
    }
}

pub fn do_enum(lc: &LCase, out: &mut Out) {
    let r = guarded(|| {
        let (m, _) = build_model(lc);
        selen::verif_hooks::set_root_lp_disabled(true);
        let sols: Vec<Vec<i64>> = m.enumerate().take(20000).map(|s| {
            // all variables, including the auxiliary ones created by the lowering
            let mut v = vec![];
            let mut i = 0;
            let ids = var_ids(64);
            while i < 64 {
                match guarded(|| s[ids[i]]) { Some(Val::ValI(x)) => v.push(x as i64), Some(Val::ValF(f)) => v.push(f as i64), None => break }
                i += 1;
            }
            v
        }).collect();
        selen::verif_hooks::set_root_lp_disabled(false);
        sols
    });
    let Some(sols) = r else {
        let l = out.emit("lw.enum", "panic");
        let eqs = lc.cons.iter().filter(|c| matches!(c, Co::Bin(Ex::V(_), "eq", Ex::V(_)))).count();
        out.fail(l, "C17", if eqs >= 1 { "empty-domain-view-panic" } else { "-" }, "panic in enumerate of a fluent model");
        return;
    };
    let parts: Vec<String> = sols.iter().map(|v| v.iter().map(|x| x.to_string()).collect::<Vec<_>>().join(",")).collect();
    let l = out.emit("lw.enum", format!("n={} sols={}", sols.len(), parts.join(";")));
    // oracle (C10): projection on the user's variables = truth set of the trees
    let n = lc.doms.len();
    let mut want: Vec<Vec<i64>> = vec![];
    let mut a = vec![0i64; n];
    fn rec(lc: &LCase, k: usize, a: &mut Vec<i64>, out: &mut Vec<Vec<i64>>) {
        if k == lc.doms.len() {
            if lc.cons.iter().all(|c| c.eval(a) == Some(true)) { out.push(a.clone()); }
            return;
        }
        for v in &lc.doms[k] { a[k] = *v as i64; rec(lc, k + 1, a, out); }
    }
    rec(lc, 0, &mut a, &mut want);
    let mut got: Vec<Vec<i64>> = sols.iter().map(|s| s[..n.min(s.len())].to_vec()).collect();
    got.sort();
    got.dedup();
    want.sort();
    let tag = lc.cons.iter().map(|c| c.finding_tag(true)).find(|t| *t != "-").unwrap_or(
        if lc.cons.iter().any(|c| c.has(&|c| matches!(c, Co::Bin(l, _, r) if l.has_divmod() || r.has_divmod()))) { "fluent-divmod" } else { "-" });
    if got != want {
        let extra: Vec<_> = got.iter().filter(|g| !want.contains(g)).take(1).collect();
        let missing: Vec<_> = want.iter().filter(|w| !got.contains(w)).take(1).collect();
        out.fail(l, "C10", tag, format!("solution set of {:?} differs from the truth set of the trees: extra {:?} missing {:?} ({} vs {})",
            lc.cons.iter().map(|c| c.tokens()).collect::<Vec<_>>(), extra, missing, got.len(), want.len()));
    }
}

fn rand_ex(r: &mut Rng, n: usize, depth: usize, nonlin: bool) -> Ex {
    if depth == 0 || r.chance(1, 4) {
        return if r.chance(1, 3) { Ex::K(r.range(-3, 4) as i32) } else { Ex::V(r.below(n as u64) as usize) };
    }
    let a = Box::new(rand_ex(r, n, depth - 1, nonlin));
    let b = Box::new(rand_ex(r, n, depth - 1, nonlin));
    match r.below(if nonlin { 12 } else { 9 }) {
        0..=3 => Ex::Add(a, b),
        4..=6 => Ex::Sub(a, b),
        7 | 8 => if r.chance(1, 2) { Ex::Mul(a, Box::new(Ex::K(r.range(-3, 3) as i32))) } else { Ex::Mul(Box::new(Ex::K(r.range(-3, 3) as i32)), b) },
        9 => Ex::Mul(a, b),
        10 => Ex::Div(a, b),
        _ => Ex::Mod(a, b),
    }
}

fn rand_co(r: &mut Rng, n: usize, depth: usize, nonlin: bool) -> Co {
    let ops = ["eq", "ne", "lt", "le", "gt", "ge"];
    if depth == 0 || r.chance(2, 3) {
        let d = r.range(0, 2) as usize;
        return Co::Bin(rand_ex(r, n, d, nonlin), ops[r.below(6) as usize], rand_ex(r, n, d, nonlin));
    }
    match r.below(6) {
        0..=2 => Co::And(Box::new(rand_co(r, n, depth - 1, nonlin)), Box::new(rand_co(r, n, depth - 1, nonlin))),
        3 => {
            // the special `x == a or x == b` shape half of the time
            if r.chance(1, 2) {
                let x = r.below(n as u64) as usize;
                Co::Or(Box::new(Co::Bin(Ex::V(x), "eq", Ex::K(r.range(-3, 4) as i32))), Box::new(Co::Bin(Ex::V(x), "eq", Ex::K(r.range(-3, 4) as i32))))
            } else {
                Co::Or(Box::new(rand_co(r, n, depth - 1, nonlin)), Box::new(rand_co(r, n, depth - 1, nonlin)))
            }
        }
        4 => Co::Or(Box::new(rand_co(r, n, depth - 1, nonlin)), Box::new(rand_co(r, n, depth - 1, nonlin))),
        _ => Co::Not(Box::new(rand_co(r, n, depth - 1, nonlin))),
    }
}

fn emit_case(out: &mut Out, lc: &LCase) {
    for d in &lc.doms {
        out.emit(format!("lw.var {}", d.iter().map(|x| x.to_string()).collect::<Vec<_>>().join(" ")), "ok");
    }
    for c in &lc.cons {
        out.emit(format!("lw.post {}", c.tokens()), "ok");
        out.stat(&format!("post.{}", c.tokens().split_whitespace().next().unwrap()));
    }
}

pub fn suite(out: &mut Out, seed: u64, count: u64, args: &[String]) {
    let nonlin = args.iter().any(|a| a == "--nonlinear");
    let mut r0 = Rng::new(seed ^ 0xC10);
    for i in 0..count {
        let mut r = r0.fork();
        out.case(&format!("lw{i}"));
        let n = r.range(1, 3) as usize;
        let doms: Vec<Vec<i32>> = (0..n).map(|_| crate::core::rand_dom(&mut r, -3, 4)).collect();
        let k = r.range(1, 2);
        let cons: Vec<Co> = (0..k).map(|_| rand_co(&mut r, n, 2, nonlin)).collect();
        let lc = LCase { doms, cons };
        if out.samples.len() < 3 { out.samples.push(lc.cons.iter().map(|c| c.tokens()).collect::<Vec<_>>().join(" ; ")); }
        emit_case(out, &lc);
        do_lower(&lc, out);
        do_enum(&lc, out);
    }
}

fn parse_ex(w: &[&str], i: &mut usize) -> Option<Ex> {
    let t = *w.get(*i)?;
    *i += 1;
    Some(match t {
        "v" => { let k = w.get(*i)?.parse().ok()?; *i += 1; Ex::V(k) }
        "k" => { let k = w.get(*i)?.parse().ok()?; *i += 1; Ex::K(k) }
        "+" | "-" | "*" | "/" | "%" => {
            let a = Box::new(parse_ex(w, i)?);
            let b = Box::new(parse_ex(w, i)?);
            match t { "+" => Ex::Add(a, b), "-" => Ex::Sub(a, b), "*" => Ex::Mul(a, b), "/" => Ex::Div(a, b), _ => Ex::Mod(a, b) }
        }
        _ => return None,
    })
}

fn parse_co(w: &[&str], i: &mut usize) -> Option<Co> {
    let t = *w.get(*i)?;
    *i += 1;
    Some(match t {
        "cmp" => {
            let op = match *w.get(*i)? { "eq" => "eq", "ne" => "ne", "lt" => "lt", "le" => "le", "gt" => "gt", "ge" => "ge", _ => return None };
            *i += 1;
            let l = parse_ex(w, i)?;
            let r = parse_ex(w, i)?;
            Co::Bin(l, op, r)
        }
        "and" => { let a = Box::new(parse_co(w, i)?); let b = Box::new(parse_co(w, i)?); Co::And(a, b) }
        "or" => { let a = Box::new(parse_co(w, i)?); let b = Box::new(parse_co(w, i)?); Co::Or(a, b) }
        "not" => Co::Not(Box::new(parse_co(w, i)?)),
        _ => return None,
    })
}

thread_local! {
    static REPLAY_CASE: std::cell::RefCell<LCase> = std::cell::RefCell::new(LCase { doms: vec![], cons: vec![] });
}

/// a `case` line starts a fresh lowering case in replay mode
pub fn replay_reset() {
    REPLAY_CASE.with(|c| *c.borrow_mut() = LCase { doms: vec![], cons: vec![] });
}

/// replay of one protocol line of this suite inside the current case
pub fn replay_line(out: &mut Out, line: &str) {
    let w: Vec<&str> = line.split_whitespace().collect();
    match w.first().copied() {
        Some("lw.var") => {
            let d: Option<Vec<i32>> = w[1..].iter().map(|x| x.parse().ok()).collect();
            match d {
                Some(d) => { REPLAY_CASE.with(|c| c.borrow_mut().doms.push(d)); out.emit(line, "ok"); }
                None => { out.emit(line, "bad-op"); }
            }
        }
        Some("lw.post") => {
            let mut i = 1;
            match parse_co(&w, &mut i) {
                Some(c) if i == w.len() => { REPLAY_CASE.with(|x| x.borrow_mut().cons.push(c)); out.emit(line, "ok"); }
                _ => { out.emit(line, "bad-op"); }
            }
        }
        Some("lw.lower") => { let lc = REPLAY_CASE.with(|c| c.borrow().clone()); do_lower(&lc, out); }
        Some("lw.enum") => { let lc = REPLAY_CASE.with(|c| c.borrow().clone()); do_enum(&lc, out); }
        _ => { out.emit(line, "bad-op"); }
    }
}

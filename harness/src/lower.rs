//! (stub — to be filled in) suite `lower`.
use crate::out::Out;

pub fn suite(_out: &mut Out, _seed: u64, _count: u64, _args: &[String]) {}

/// replay of one protocol line of this suite inside the current case
pub fn replay_line(_out: &mut Out, _line: &str) {}
